//! Type-level tables: impls, traits, ADTs, fn predicates.
use crate::json::J;
use rustc_hir::def::DefKind;
use rustc_middle::ty::print::with_no_trimmed_paths;
use rustc_middle::ty::TyCtxt;

pub fn collect<'tcx>(tcx: TyCtxt<'tcx>) -> J {
    with_no_trimmed_paths!(collect_inner(tcx))
}

fn collect_inner<'tcx>(tcx: TyCtxt<'tcx>) -> J {
    let mut impls = Vec::new();
    let mut traits = Vec::new();
    let mut adts = Vec::new();
    let mut fns = Vec::new();
    for ldid in tcx.hir_crate_items(()).definitions() {
        let did = ldid.to_def_id();
        let idx = ldid.local_def_index.as_u32() as i128;
        match tcx.def_kind(did) {
            DefKind::Impl { of_trait } => {
                let mut j = J::obj();
                j.put("did", J::Int(idx));
                let self_ty = tcx.type_of(did).instantiate_identity().skip_norm_wip();
                j.put("self_ty", J::s(self_ty.to_string()));
                if of_trait {
                    let tr = tcx.impl_trait_ref(did).instantiate_identity().skip_norm_wip();
                    j.put("trait", J::s(tcx.def_path_str(tr.def_id)));
                    j.put("trait_ref", J::s(tr.to_string()));
                    j.put(
                        "trait_args",
                        J::Arr(tr.args.iter().map(|a| J::s(a.to_string())).collect()),
                    );
                    j.put("polarity", J::s(format!("{:?}", tcx.impl_polarity(did))));
                    let h = tcx.impl_trait_header(did);
                    j.put("unsafe", J::Bool(h.safety.is_unsafe()));
                } else {
                    j.put("trait", J::Null);
                }
                let preds = tcx.predicates_of(did).instantiate_identity(tcx);
                j.put(
                    "predicates",
                    J::Arr(preds.predicates.iter().map(|p| J::s(format!("{}", p.as_ref().skip_norm_wip()))).collect()),
                );
                let mut items = Vec::new();
                for it in tcx.associated_items(did).in_definition_order() {
                    let mut ij = J::obj();
                    ij.put("name", J::s(it.name().to_string()));
                    ij.put("kind", J::s(format!("{:?}", it.tag())));
                    if let Some(l) = it.def_id.as_local() {
                        ij.put("did", J::Int(l.local_def_index.as_u32() as i128));
                    }
                    ij.put("path", J::s(tcx.def_path_str(it.def_id)));
                    if let Some(t) = it.trait_item_def_id() {
                        ij.put("trait_item", J::s(tcx.def_path_str(t)));
                    }
                    items.push(ij);
                }
                j.put("items", J::Arr(items));
                j.put("span", crate::mirfacts::span_json(tcx, tcx.def_span(did)));
                impls.push(j);
            }
            DefKind::Trait => {
                let mut j = J::obj();
                j.put("did", J::Int(idx));
                j.put("path", J::s(tcx.def_path_str(did)));
                j.put("unsafe", J::Bool(tcx.trait_def(did).safety.is_unsafe()));
                let mut items = Vec::new();
                for it in tcx.associated_items(did).in_definition_order() {
                    let mut ij = J::obj();
                    ij.put("name", J::s(it.name().to_string()));
                    ij.put("kind", J::s(format!("{:?}", it.tag())));
                    ij.put("path", J::s(tcx.def_path_str(it.def_id)));
                    if let Some(l) = it.def_id.as_local() {
                        ij.put("did", J::Int(l.local_def_index.as_u32() as i128));
                    }
                    ij.put("has_default", J::Bool(it.defaultness(tcx).has_value()));
                    if it.is_fn() {
                        let sig = tcx.fn_sig(it.def_id).instantiate_identity().skip_norm_wip();
                        ij.put("unsafe", J::Bool(sig.safety().is_unsafe()));
                        let sig = sig.skip_binder();
                        ij.put(
                            "inputs",
                            J::Arr(sig.inputs().iter().map(|t| J::s(t.to_string())).collect()),
                        );
                        ij.put("output", J::s(sig.output().to_string()));
                        let preds = tcx.predicates_of(it.def_id);
                        ij.put(
                            "own_predicates",
                            J::Arr(
                                preds
                                    .predicates
                                    .iter()
                                    .map(|(p, _)| J::s(format!("{}", p)))
                                    .collect(),
                            ),
                        );
                    }
                    items.push(ij);
                }
                j.put("items", J::Arr(items));
                traits.push(j);
            }
            DefKind::Struct | DefKind::Enum | DefKind::Union => {
                let adt = tcx.adt_def(did);
                let mut j = J::obj();
                j.put("did", J::Int(idx));
                j.put("path", J::s(tcx.def_path_str(did)));
                j.put("kind", J::s(format!("{:?}", tcx.def_kind(did))));
                j.put("repr_c", J::Bool(adt.repr().c()));
                j.put("vis", J::s(format!("{:?}", tcx.visibility(did))));
                let mut vars = Vec::new();
                for v in adt.variants().iter() {
                    let mut vj = J::obj();
                    vj.put("name", J::s(v.name.to_string()));
                    let mut fs = Vec::new();
                    for f in v.fields.iter() {
                        let fty = tcx.type_of(f.did).instantiate_identity().skip_norm_wip();
                        fs.push(
                            J::obj()
                                .set("name", J::s(f.name.to_string()))
                                .set("ty", J::s(fty.to_string()))
                                .set("vis", J::s(format!("{:?}", f.vis))),
                        );
                    }
                    vj.put("fields", J::Arr(fs));
                    vars.push(vj);
                }
                j.put("variants", J::Arr(vars));
                adts.push(j);
            }
            DefKind::Fn | DefKind::AssocFn => {
                let mut j = J::obj();
                j.put("did", J::Int(idx));
                j.put("path", J::s(tcx.def_path_str(did)));
                j.put("name", J::s(tcx.item_name(did).to_string()));
                let preds = tcx.predicates_of(did).instantiate_identity(tcx);
                j.put(
                    "predicates",
                    J::Arr(preds.predicates.iter().map(|p| J::s(format!("{}", p.as_ref().skip_norm_wip()))).collect()),
                );
                let g = tcx.generics_of(did);
                j.put(
                    "generics",
                    J::Arr(g.own_params.iter().map(|p| J::s(p.name.to_string())).collect()),
                );
                j.put("vis", J::s(format!("{:?}", tcx.visibility(did))));
                if let Some(ai) = tcx.opt_associated_item(did) {
                    if let Some(t) = ai.trait_item_def_id() {
                        j.put("trait_item", J::s(tcx.def_path_str(t)));
                    }
                    let c = ai.container_id(tcx);
                    if let Some(l) = c.as_local() {
                        j.put("container_did", J::Int(l.local_def_index.as_u32() as i128));
                    }
                    j.put("container_kind", J::s(format!("{:?}", tcx.def_kind(c))));
                }
                j.put("const_fn", J::Bool(tcx.is_const_fn(did)));
                let sig = tcx.fn_sig(did).instantiate_identity().skip_norm_wip();
                j.put("unsafe", J::Bool(sig.safety().is_unsafe()));
                let sig = sig.skip_binder();
                j.put(
                    "inputs",
                    J::Arr(sig.inputs().iter().map(|t| J::s(t.to_string())).collect()),
                );
                j.put("output", J::s(sig.output().to_string()));
                j.put("span", crate::mirfacts::span_json(tcx, tcx.def_span(did)));
                fns.push(j);
            }
            _ => {}
        }
    }
    J::obj()
        .set("impls", J::Arr(impls))
        .set("traits", J::Arr(traits))
        .set("adts", J::Arr(adts))
        .set("fns", J::Arr(fns))
}
