//! bytes-sa: rustc_private driver that exports the *resolved* program of the crate under
//! analysis (type-checked MIR with resolved callees, HIR impl/trait/ADT tables, expanded-AST
//! format_args! nodes and cfg attributes) as one JSON fact file per compiled crate.
//!
//! It is injected with RUSTC_WORKSPACE_WRAPPER under `cargo +nightly check`; the rules that
//! decide properties live in /verif/rules (python) and work on these facts only — never on text.
#![feature(rustc_private)]
#![allow(rustc::internal)]

extern crate rustc_abi;
extern crate rustc_ast;
extern crate rustc_data_structures;
extern crate rustc_driver;
extern crate rustc_hir;
extern crate rustc_interface;
extern crate rustc_middle;
extern crate rustc_session;
extern crate rustc_span;

mod json;
mod astfacts;
mod mirfacts;
mod hirfacts;

use json::J;
use rustc_driver::{Callbacks, Compilation};
use rustc_interface::interface::Compiler;
use rustc_middle::ty::TyCtxt;

struct Cb {
    out_dir: String,
    ast: Option<J>,
}

impl Callbacks for Cb {
    fn after_expansion<'tcx>(&mut self, _c: &Compiler, tcx: TyCtxt<'tcx>) -> Compilation {
        self.ast = Some(astfacts::collect(tcx));
        Compilation::Continue
    }

    fn after_analysis<'tcx>(&mut self, _c: &Compiler, tcx: TyCtxt<'tcx>) -> Compilation {
        let t0 = std::time::Instant::now();
        let crate_name = tcx.crate_name(rustc_hir::def_id::LOCAL_CRATE).to_string();
        let mut root = J::obj();
        root.put("crate", J::s(crate_name.clone()));
        root.put("is_test_build", J::Bool(tcx.sess.is_test_crate()));
        root.put(
            "debug_assertions",
            J::Bool(tcx.sess.opts.debug_assertions),
        );
        root.put("overflow_checks", J::Bool(tcx.sess.overflow_checks()));
        let cfgs: Vec<J> = {
            let mut v: Vec<String> = tcx
                .sess
                .config
                .iter()
                .map(|(k, v)| match v {
                    Some(v) => format!("{}=\"{}\"", k, v),
                    None => k.to_string(),
                })
                .collect();
            v.sort();
            v.into_iter().map(J::s).collect()
        };
        root.put("cfg", J::Arr(cfgs));
        root.put("ast", self.ast.take().unwrap_or(J::Null));
        root.put("hir", hirfacts::collect(tcx));
        root.put("bodies", mirfacts::collect(tcx));
        root.put("export_ms", J::Int(t0.elapsed().as_millis() as i128));
        let mut s = String::with_capacity(8 << 20);
        root.write(&mut s);
        let path = format!(
            "{}/facts-{}-{}.json",
            self.out_dir,
            crate_name,
            std::process::id()
        );
        // one write per process
        std::fs::write(&path, s).expect("bytes-sa: cannot write fact file");
        Compilation::Continue
    }
}

fn main() {
    let mut args: Vec<String> = std::env::args().collect();
    // RUSTC_WORKSPACE_WRAPPER passes the real rustc path as argv[1]
    if args.len() > 1 && (args[1].ends_with("rustc") || args[1].contains("/rustc")) {
        args.remove(1);
    }
    let out_dir = std::env::var("BYTES_SA_OUT").unwrap_or_default();
    let want = std::env::var("BYTES_SA_CRATE").unwrap_or_else(|_| "bytes".to_string());
    let mut crate_name = String::new();
    for i in 0..args.len() {
        if args[i] == "--crate-name" && i + 1 < args.len() {
            crate_name = args[i + 1].clone();
        }
    }
    let is_target = !out_dir.is_empty()
        && crate_name == want
        && !args.iter().any(|a| a == "--print" || a.starts_with("--print="))
        && args.iter().any(|a| a.ends_with(".rs"));
    if is_target {
        let mut cb = Cb { out_dir, ast: None };
        rustc_driver::run_compiler(&args, &mut cb);
    } else {
        struct Nop;
        impl Callbacks for Nop {}
        rustc_driver::run_compiler(&args, &mut Nop);
    }
}
