//! Expanded-AST facts: format_args! nodes (template pieces, traits, options, argument
//! expressions) and attributes (cfg, test markers) per item.
use crate::json::J;
use rustc_ast as ast;
use rustc_ast::visit::{self, Visitor};
use rustc_middle::ty::TyCtxt;
use rustc_span::Span;

extern crate rustc_ast_pretty;
use rustc_ast_pretty::pprust;

struct V<'r, 'tcx> {
    tcx: TyCtxt<'tcx>,
    node_to_def: &'r ast::node_id::NodeMap<rustc_hir::def_id::LocalDefId>,
    item_stack: Vec<(String, Option<u32>)>,
    fmt: Vec<J>,
    attrs: Vec<J>,
}

fn loc<'tcx>(tcx: TyCtxt<'tcx>, span: Span) -> J {
    crate::mirfacts::span_json(tcx, span)
}

impl<'r, 'tcx> V<'r, 'tcx> {
    fn cur_path(&self) -> String {
        self.item_stack
            .iter()
            .map(|(n, _)| n.as_str())
            .collect::<Vec<_>>()
            .join("::")
    }
    fn cur_def(&self) -> Option<u32> {
        self.item_stack.iter().rev().find_map(|(_, d)| *d)
    }
    fn record_attrs(&mut self, name: &str, id: ast::NodeId, attrs: &[ast::Attribute], span: Span, kind: &str) {
        let mut av = Vec::new();
        for a in attrs {
            if a.is_doc_comment() {
                continue;
            }
            av.push(J::s(pprust::attribute_to_string(a)));
        }
        let mut j = J::obj();
        j.put("name", J::s(name));
        j.put("path", J::s(self.cur_path()));
        j.put("kind", J::s(kind));
        match self.node_to_def.get(&id) {
            Some(d) => j.put("did", J::Int(d.local_def_index.as_u32() as i128)),
            None => j.put("did", J::Null),
        }
        j.put("attrs", J::Arr(av));
        j.put("span", loc(self.tcx, span));
        self.attrs.push(j);
    }
}

impl<'a, 'r, 'tcx> Visitor<'a> for V<'r, 'tcx> {
    fn visit_item(&mut self, item: &'a ast::Item) {
        let name = match item.kind.ident() {
            Some(i) => i.name.to_string(),
            None => match &item.kind {
                ast::ItemKind::Impl(im) => {
                    let st = pprust::ty_to_string(&im.self_ty);
                    match &im.of_trait {
                        Some(t) => format!("<impl {} for {}>", pprust::path_to_string(&t.trait_ref.path), st),
                        None => format!("<impl {}>", st),
                    }
                }
                _ => "_".to_string(),
            },
        };
        let kind = format!("{:?}", std::mem::discriminant(&item.kind));
        let _ = kind;
        let kind_s = match &item.kind {
            ast::ItemKind::Fn(..) => "fn",
            ast::ItemKind::Mod(..) => "mod",
            ast::ItemKind::Impl(..) => "impl",
            ast::ItemKind::Struct(..) => "struct",
            ast::ItemKind::Enum(..) => "enum",
            ast::ItemKind::Trait(..) => "trait",
            ast::ItemKind::Const(..) => "const",
            ast::ItemKind::Static(..) => "static",
            ast::ItemKind::Use(..) => "use",
            ast::ItemKind::MacroDef(..) => "macro",
            _ => "other",
        };
        let did = self.node_to_def.get(&item.id).map(|d| d.local_def_index.as_u32());
        self.item_stack.push((name.clone(), did));
        if kind_s != "use" {
            self.record_attrs(&name, item.id, &item.attrs, item.span, kind_s);
        }
        visit::walk_item(self, item);
        self.item_stack.pop();
    }

    fn visit_assoc_item(&mut self, item: &'a ast::AssocItem, ctxt: visit::AssocCtxt) {
        let name = match item.kind.ident() {
            Some(i) => i.name.to_string(),
            None => "_".to_string(),
        };
        let did = self.node_to_def.get(&item.id).map(|d| d.local_def_index.as_u32());
        self.item_stack.push((name.clone(), did));
        self.record_attrs(&name, item.id, &item.attrs, item.span, "assoc");
        visit::walk_assoc_item(self, item, ctxt);
        self.item_stack.pop();
    }

    fn visit_expr(&mut self, e: &'a ast::Expr) {
        if let ast::ExprKind::FormatArgs(fa) = &e.kind {
            let mut j = J::obj();
            j.put("in", J::s(self.cur_path()));
            match self.cur_def() {
                Some(d) => j.put("in_did", J::Int(d as i128)),
                None => j.put("in_did", J::Null),
            }
            j.put("span", loc(self.tcx, fa.span));
            let mut pieces = Vec::new();
            for p in fa.template.iter() {
                match p {
                    ast::FormatArgsPiece::Literal(s) => {
                        pieces.push(J::obj().set("lit", J::s(s.to_string())));
                    }
                    ast::FormatArgsPiece::Placeholder(ph) => {
                        let mut pj = J::obj();
                        pj.put(
                            "arg",
                            match ph.argument.index {
                                Ok(i) => J::Int(i as i128),
                                Err(_) => J::Null,
                            },
                        );
                        pj.put("trait", J::s(format!("{:?}", ph.format_trait)));
                        let o = &ph.format_options;
                        pj.put(
                            "width",
                            match &o.width {
                                Some(ast::FormatCount::Literal(n)) => J::Int(*n as i128),
                                Some(ast::FormatCount::Argument(_)) => J::s("arg"),
                                None => J::Null,
                            },
                        );
                        pj.put(
                            "precision",
                            match &o.precision {
                                Some(ast::FormatCount::Literal(n)) => J::Int(*n as i128),
                                Some(ast::FormatCount::Argument(_)) => J::s("arg"),
                                None => J::Null,
                            },
                        );
                        pj.put("zero_pad", J::Bool(o.zero_pad));
                        pj.put("alternate", J::Bool(o.alternate));
                        pj.put(
                            "fill",
                            match o.fill {
                                Some(c) => J::s(c.to_string()),
                                None => J::Null,
                            },
                        );
                        pj.put(
                            "align",
                            match o.alignment {
                                Some(a) => J::s(format!("{:?}", a)),
                                None => J::Null,
                            },
                        );
                        pj.put(
                            "sign",
                            match o.sign {
                                Some(a) => J::s(format!("{:?}", a)),
                                None => J::Null,
                            },
                        );
                        pj.put(
                            "debug_hex",
                            match o.debug_hex {
                                Some(a) => J::s(format!("{:?}", a)),
                                None => J::Null,
                            },
                        );
                        pieces.push(pj);
                    }
                }
            }
            j.put("template", J::Arr(pieces));
            let mut args = Vec::new();
            for a in fa.arguments.all_args() {
                args.push(J::s(pprust::expr_to_string(&a.expr)));
            }
            j.put("args", J::Arr(args));
            self.fmt.push(j);
        }
        visit::walk_expr(self, e);
    }
}

pub fn collect<'tcx>(tcx: TyCtxt<'tcx>) -> J {
    let steal = tcx.resolver_for_lowering();
    let guard = steal.borrow();
    let (resolver, krate) = &*guard;
    let node_to_def = &resolver.node_id_to_def_id;
    let mut v = V { tcx, node_to_def, item_stack: Vec::new(), fmt: Vec::new(), attrs: Vec::new() };
    visit::walk_crate(&mut v, krate);
    J::obj().set("format_args", J::Arr(v.fmt)).set("items", J::Arr(v.attrs))
}
