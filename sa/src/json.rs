//! Minimal JSON value + writer (no dependencies).
use std::fmt::Write;

#[derive(Clone, Debug)]
pub enum J {
    Null,
    Bool(bool),
    Int(i128),
    Str(String),
    Arr(Vec<J>),
    Obj(Vec<(String, J)>),
}

impl J {
    pub fn s<S: Into<String>>(s: S) -> J {
        J::Str(s.into())
    }
    pub fn obj() -> J {
        J::Obj(Vec::new())
    }
    pub fn set<S: Into<String>>(mut self, k: S, v: J) -> J {
        if let J::Obj(ref mut o) = self {
            o.push((k.into(), v));
        }
        self
    }
    pub fn put<S: Into<String>>(&mut self, k: S, v: J) {
        if let J::Obj(ref mut o) = self {
            o.push((k.into(), v));
        }
    }
    pub fn write(&self, out: &mut String) {
        match self {
            J::Null => out.push_str("null"),
            J::Bool(b) => out.push_str(if *b { "true" } else { "false" }),
            J::Int(i) => {
                // keep within what python reads as int anyway (arbitrary precision)
                let _ = write!(out, "{}", i);
            }
            J::Str(s) => write_str(s, out),
            J::Arr(a) => {
                out.push('[');
                for (i, x) in a.iter().enumerate() {
                    if i > 0 {
                        out.push(',');
                    }
                    x.write(out);
                }
                out.push(']');
            }
            J::Obj(o) => {
                out.push('{');
                for (i, (k, v)) in o.iter().enumerate() {
                    if i > 0 {
                        out.push(',');
                    }
                    write_str(k, out);
                    out.push(':');
                    v.write(out);
                }
                out.push('}');
            }
        }
    }
}

fn write_str(s: &str, out: &mut String) {
    out.push('"');
    for c in s.chars() {
        match c {
            '"' => out.push_str("\\\""),
            '\\' => out.push_str("\\\\"),
            '\n' => out.push_str("\\n"),
            '\r' => out.push_str("\\r"),
            '\t' => out.push_str("\\t"),
            c if (c as u32) < 0x20 => {
                let _ = write!(out, "\\u{:04x}", c as u32);
            }
            c => out.push(c),
        }
    }
    out.push('"');
}
