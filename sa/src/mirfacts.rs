//! MIR export: every local body (fn, assoc fn, closure, const, static, promoted) with
//! resolved callees, typed locals, constants, spans and macro backtraces.
use crate::json::J;
use rustc_hir::def::DefKind;
use rustc_hir::def_id::{DefId, LocalDefId};
use rustc_middle::mir::interpret::{GlobalAlloc, Scalar};
use rustc_middle::mir::*;
use rustc_middle::ty::print::with_no_trimmed_paths;
use rustc_middle::ty::{self, GenericArgsRef, Instance, Ty, TyCtxt, TypingEnv};
use rustc_span::Span;

pub fn collect<'tcx>(tcx: TyCtxt<'tcx>) -> J {
    with_no_trimmed_paths!(collect_inner(tcx))
}

fn collect_inner<'tcx>(tcx: TyCtxt<'tcx>) -> J {
    let mut out = Vec::new();
    for &ldid in tcx.mir_keys(()).iter() {
        let did = ldid.to_def_id();
        let kind = tcx.def_kind(did);
        let (body, kind_s): (&Body<'tcx>, &str) = match kind {
            DefKind::Fn => (tcx.optimized_mir(did), "fn"),
            DefKind::AssocFn => (tcx.optimized_mir(did), "assoc_fn"),
            DefKind::Closure => (tcx.optimized_mir(did), "closure"),
            DefKind::Const { .. } | DefKind::AssocConst { .. } => {
                (tcx.mir_for_ctfe(did), "const")
            }
            DefKind::Static { .. } => (tcx.mir_for_ctfe(did), "static"),
            DefKind::AnonConst | DefKind::InlineConst => (tcx.mir_for_ctfe(did), "anon_const"),
            _ => continue,
        };
        let cx = Cx { tcx, body, owner: ldid };
        let mut b = cx.body_json();
        b.put("kind", J::s(kind_s));
        b.put("id", J::s(tcx.def_path_str(did)));
        b.put("did", J::Int(ldid.local_def_index.as_u32() as i128));
        b.put("span", span_json(tcx, tcx.def_span(did)));
        if let Some(p) = tcx.opt_local_parent(ldid) {
            b.put("parent_did", J::Int(p.local_def_index.as_u32() as i128));
        }
        if matches!(kind, DefKind::Fn | DefKind::AssocFn) {
            let sig = tcx.fn_sig(did).instantiate_identity().skip_norm_wip();
            b.put(
                "safety",
                J::s(if sig.safety().is_unsafe() { "unsafe" } else { "safe" }),
            );
            let sig = sig.skip_binder();
            b.put(
                "inputs",
                J::Arr(sig.inputs().iter().map(|t| J::s(t.to_string())).collect()),
            );
            b.put("output", J::s(sig.output().to_string()));
            b.put("vis", J::s(format!("{:?}", tcx.visibility(did))));
        }
        // promoted bodies
        if !matches!(kind, DefKind::AnonConst | DefKind::InlineConst) {
            let proms = tcx.promoted_mir(did);
            let mut pv = Vec::new();
            for (i, pb) in proms.iter_enumerated() {
                let pcx = Cx { tcx, body: pb, owner: ldid };
                let mut j = pcx.body_json();
                j.put("index", J::Int(i.as_u32() as i128));
                pv.push(j);
            }
            b.put("promoted", J::Arr(pv));
        }
        out.push(b);
    }
    J::Arr(out)
}

pub fn span_json<'tcx>(tcx: TyCtxt<'tcx>, span: Span) -> J {
    let sm = tcx.sess.source_map();
    let mut j = J::obj();
    // location of the outermost call site inside the crate's own source
    let root = span.source_callsite();
    let lo = sm.lookup_char_pos(root.lo());
    let hi = sm.lookup_char_pos(root.hi());
    j.put("file", J::s(format!("{}", lo.file.name.prefer_local_unconditionally())));
    j.put("line", J::Int(lo.line as i128));
    j.put("col", J::Int(lo.col.0 as i128));
    j.put("end_line", J::Int(hi.line as i128));
    if span.from_expansion() {
        let mut names = Vec::new();
        for e in span.macro_backtrace() {
            if let rustc_span::hygiene::ExpnKind::Macro(_, name) = e.kind {
                names.push(J::s(name.to_string()));
            } else {
                names.push(J::s(format!("{:?}", e.kind)));
            }
        }
        j.put("macros", J::Arr(names));
        // also the innermost location (inside the macro definition)
        let ilo = sm.lookup_char_pos(span.lo());
        j.put(
            "inner",
            J::s(format!(
                "{}:{}",
                ilo.file.name.prefer_local_unconditionally(),
                ilo.line
            )),
        );
    }
    j
}

struct Cx<'a, 'tcx> {
    tcx: TyCtxt<'tcx>,
    body: &'a Body<'tcx>,
    owner: LocalDefId,
}

impl<'a, 'tcx> Cx<'a, 'tcx> {
    fn body_json(&self) -> J {
        let body = self.body;
        let mut b = J::obj();
        b.put("arg_count", J::Int(body.arg_count as i128));
        let mut locals = Vec::new();
        for (_l, d) in body.local_decls.iter_enumerated() {
            let mut lj = J::obj();
            lj.put("ty", J::s(d.ty.to_string()));
            lj.put("mut", J::Bool(d.mutability.is_mut()));
            locals.push(lj);
        }
        b.put("locals", J::Arr(locals));
        let mut vdi = Vec::new();
        for v in body.var_debug_info.iter() {
            let mut vj = J::obj();
            vj.put("name", J::s(v.name.to_string()));
            match &v.value {
                VarDebugInfoContents::Place(p) => vj.put("place", self.place(*p)),
                VarDebugInfoContents::Const(c) => vj.put("const", self.constant(c)),
            }
            if let Some(ai) = v.argument_index {
                vj.put("arg", J::Int(ai as i128));
            }
            vdi.push(vj);
        }
        b.put("vars", J::Arr(vdi));
        let mut blocks = Vec::new();
        for (_bb, data) in body.basic_blocks.iter_enumerated() {
            let mut bj = J::obj();
            bj.put("cleanup", J::Bool(data.is_cleanup));
            let mut stmts = Vec::new();
            for s in data.statements.iter() {
                if let Some(sj) = self.stmt(s) {
                    stmts.push(sj);
                }
            }
            bj.put("stmts", J::Arr(stmts));
            bj.put("term", self.term(data.terminator()));
            blocks.push(bj);
        }
        b.put("blocks", J::Arr(blocks));
        b
    }

    fn span(&self, s: Span) -> J {
        span_json(self.tcx, s)
    }

    fn place(&self, p: Place<'tcx>) -> J {
        let mut j = J::obj();
        j.put("l", J::Int(p.local.as_u32() as i128));
        let mut proj = Vec::new();
        for (base, elem) in p.iter_projections() {
            let bty = base.ty(self.body, self.tcx);
            let e = match elem {
                ProjectionElem::Deref => J::s("*"),
                ProjectionElem::Field(f, fty) => {
                    let mut fj = J::obj();
                    fj.put("f", J::Int(f.as_u32() as i128));
                    fj.put("ty", J::s(fty.to_string()));
                    if let ty::Adt(adt, _) = bty.ty.kind() {
                        let vidx = bty.variant_index.unwrap_or(rustc_abi::FIRST_VARIANT);
                        if adt.is_enum() || adt.is_struct() || adt.is_union() {
                            let v = adt.variant(vidx);
                            if (f.as_usize()) < v.fields.len() {
                                fj.put("n", J::s(v.fields[f].name.to_string()));
                            }
                            fj.put("adt", J::s(self.tcx.def_path_str(adt.did())));
                        }
                    } else {
                        fj.put("base", J::s(bty.ty.to_string()));
                    }
                    fj
                }
                ProjectionElem::Index(l) => J::obj().set("idx", J::Int(l.as_u32() as i128)),
                ProjectionElem::ConstantIndex { offset, min_length, from_end } => J::obj()
                    .set("cidx", J::Int(offset as i128))
                    .set("min", J::Int(min_length as i128))
                    .set("from_end", J::Bool(from_end)),
                ProjectionElem::Subslice { from, to, from_end } => J::obj()
                    .set("sub_from", J::Int(from as i128))
                    .set("sub_to", J::Int(to as i128))
                    .set("from_end", J::Bool(from_end)),
                ProjectionElem::Downcast(name, v) => J::obj()
                    .set("variant", J::Int(v.as_u32() as i128))
                    .set(
                        "vname",
                        match name {
                            Some(n) => J::s(n.to_string()),
                            None => J::Null,
                        },
                    ),
                ProjectionElem::OpaqueCast(t) => J::obj().set("opaque", J::s(t.to_string())),
                ProjectionElem::UnwrapUnsafeBinder(t) => {
                    J::obj().set("unbind", J::s(t.to_string()))
                }
            };
            proj.push(e);
        }
        j.put("p", J::Arr(proj));
        j
    }

    fn fn_info(&self, def_id: DefId, args: GenericArgsRef<'tcx>) -> J {
        let tcx = self.tcx;
        let mut j = J::obj();
        j.put("path", J::s(tcx.def_path_str(def_id)));
        j.put("full", J::s(tcx.def_path_str_with_args(def_id, args)));
        j.put("args", J::Arr(args.iter().map(|a| J::s(a.to_string())).collect()));
        j.put("local", J::Bool(def_id.is_local()));
        if let Some(l) = def_id.as_local() {
            j.put("did", J::Int(l.local_def_index.as_u32() as i128));
        }
        j.put("name", J::s(tcx.item_name(def_id).to_string()));
        if matches!(tcx.def_kind(def_id), DefKind::Fn | DefKind::AssocFn) {
            let sig = tcx.fn_sig(def_id).instantiate_identity().skip_norm_wip();
            j.put("unsafe", J::Bool(sig.safety().is_unsafe()));
        }
        if let Some(tr) = tcx.trait_of_assoc(def_id) {
            j.put("trait", J::s(tcx.def_path_str(tr)));
            if args.len() > 0 {
                if let Some(t) = args[0].as_type() {
                    j.put("self_ty", J::s(t.to_string()));
                }
            }
        }
        if let Some(im) = tcx.impl_of_assoc(def_id) {
            let self_ty = tcx.type_of(im).instantiate_identity().skip_norm_wip();
            j.put("impl_self", J::s(self_ty.to_string()));
            if let Some(tr) = tcx.impl_opt_trait_ref(im) {
                let tr = tr.instantiate_identity().skip_norm_wip();
                j.put("impl_trait", J::s(tr.to_string()));
            }
        }
        if matches!(tcx.def_kind(def_id), DefKind::Fn | DefKind::AssocFn) {
            let env = TypingEnv::post_analysis(tcx, self.owner.to_def_id());
            match Instance::try_resolve(tcx, env, def_id, args) {
                Ok(Some(inst)) => {
                    let rd = inst.def_id();
                    let mut r = J::obj();
                    r.put("path", J::s(tcx.def_path_str(rd)));
                    r.put("full", J::s(tcx.def_path_str_with_args(rd, inst.args)));
                    r.put("local", J::Bool(rd.is_local()));
                    if let Some(l) = rd.as_local() {
                        r.put("did", J::Int(l.local_def_index.as_u32() as i128));
                    }
                    r.put("ikind", J::s(instance_kind(&inst)));
                    if let Some(im) = tcx.impl_of_assoc(rd) {
                        let self_ty = tcx.type_of(im).instantiate_identity().skip_norm_wip();
                        r.put("impl_self", J::s(self_ty.to_string()));
                        if let Some(tr) = tcx.impl_opt_trait_ref(im) {
                            let tr = tr.instantiate_identity().skip_norm_wip();
                            r.put("impl_trait", J::s(tr.to_string()));
                        }
                    }
                    if tcx.trait_of_assoc(rd).is_some() {
                        // resolved to the trait's own (default) method body
                        r.put("trait_default", J::Bool(true));
                    }
                    j.put("res", r);
                }
                _ => j.put("res", J::Null),
            }
        }
        j
    }

    fn constant(&self, c: &ConstOperand<'tcx>) -> J {
        let tcx = self.tcx;
        let mut j = J::obj();
        j.put("k", J::s("const"));
        let ty = c.const_.ty();
        j.put("ty", J::s(ty.to_string()));
        match ty.kind() {
            ty::FnDef(def_id, args) => {
                j.put("fn", self.fn_info(*def_id, args));
            }
            _ => {}
        }
        let env = TypingEnv::post_analysis(tcx, self.owner.to_def_id());
        match c.const_ {
            Const::Unevaluated(uv, _) => {
                j.put("uneval", J::s(tcx.def_path_str(uv.def)));
                if let Some(l) = uv.def.as_local() {
                    j.put("uneval_did", J::Int(l.local_def_index.as_u32() as i128));
                }
                if let Some(p) = uv.promoted {
                    j.put("promoted", J::Int(p.as_u32() as i128));
                }
            }
            _ => {}
        }
        let is_scalar_ty = ty.is_integral() || ty.is_bool() || ty.is_char();
        if is_scalar_ty {
            if let Some(si) = c.const_.try_eval_scalar_int(tcx, env) {
                let size = si.size();
                let bits = si.to_bits(size);
                let v: i128 = if ty.is_signed() {
                    size.sign_extend(bits) as i128
                } else {
                    bits as i128
                };
                // u128 values beyond i128 are emitted as string
                if !ty.is_signed() && bits > i128::MAX as u128 {
                    j.put("v", J::s(format!("{}", bits)));
                } else {
                    j.put("v", J::Int(v));
                }
            }
        } else if let Const::Val(ConstValue::Scalar(Scalar::Ptr(ptr, _)), _) = c.const_ {
            let aid = ptr.provenance.alloc_id();
            match tcx.try_get_global_alloc(aid) {
                Some(GlobalAlloc::Static(sd)) => {
                    j.put("static", J::s(tcx.def_path_str(sd)));
                    if let Some(l) = sd.as_local() {
                        j.put("static_did", J::Int(l.local_def_index.as_u32() as i128));
                    }
                }
                Some(GlobalAlloc::Function { instance }) => {
                    j.put("fnptr", J::s(tcx.def_path_str(instance.def_id())));
                }
                _ => {}
            }
        } else if let ty::Adt(adt, _) = ty.kind() {
            // fieldless enum constants such as Ordering::Release
            if adt.is_enum() {
                if let Some(si) = c.const_.try_eval_scalar_int(tcx, env) {
                    let bits = si.to_bits(si.size());
                    for (vi, d) in adt.discriminants(tcx) {
                        if d.val == bits {
                            j.put("variant", J::s(adt.variant(vi).name.to_string()));
                        }
                    }
                }
            }
        }
        j.put("s", J::s(format!("{}", c.const_)));
        j
    }

    fn operand(&self, o: &Operand<'tcx>) -> J {
        match o {
            Operand::Copy(p) => J::obj().set("k", J::s("copy")).set("pl", self.place(*p)),
            Operand::Move(p) => J::obj().set("k", J::s("move")).set("pl", self.place(*p)),
            Operand::Constant(c) => self.constant(c),
            Operand::RuntimeChecks(r) => J::obj()
                .set("k", J::s("rtc"))
                .set("v", J::s(format!("{:?}", r))),
        }
    }

    fn rvalue(&self, r: &Rvalue<'tcx>) -> J {
        let mut j = J::obj();
        match r {
            Rvalue::Use(o, _) => {
                j.put("k", J::s("use"));
                j.put("op", self.operand(o));
            }
            Rvalue::Repeat(o, n) => {
                j.put("k", J::s("repeat"));
                j.put("op", self.operand(o));
                j.put("n", J::s(n.to_string()));
            }
            Rvalue::Ref(_, bk, p) => {
                j.put("k", J::s("ref"));
                j.put(
                    "mut",
                    J::Bool(matches!(bk, BorrowKind::Mut { .. })),
                );
                j.put("pl", self.place(*p));
            }
            Rvalue::ThreadLocalRef(d) => {
                j.put("k", J::s("tls"));
                j.put("def", J::s(self.tcx.def_path_str(*d)));
            }
            Rvalue::RawPtr(k, p) => {
                j.put("k", J::s("rawptr"));
                j.put("mut", J::Bool(matches!(k, RawPtrKind::Mut)));
                j.put("pl", self.place(*p));
            }
            Rvalue::Cast(ck, o, t) => {
                j.put("k", J::s("cast"));
                j.put("ck", J::s(format!("{:?}", ck)));
                j.put("op", self.operand(o));
                j.put("ty", J::s(t.to_string()));
            }
            Rvalue::BinaryOp(op, ab) => {
                j.put("k", J::s("bin"));
                j.put("op", J::s(format!("{:?}", op)));
                j.put("a", self.operand(&ab.0));
                j.put("b", self.operand(&ab.1));
            }
            Rvalue::UnaryOp(op, a) => {
                j.put("k", J::s("un"));
                j.put("op", J::s(format!("{:?}", op)));
                j.put("a", self.operand(a));
            }
            Rvalue::Discriminant(p) => {
                j.put("k", J::s("discr"));
                j.put("pl", self.place(*p));
                let pty = p.ty(self.body, self.tcx).ty;
                j.put("ty", J::s(pty.to_string()));
            }
            Rvalue::Aggregate(ak, ops) => {
                j.put("k", J::s("agg"));
                match &**ak {
                    AggregateKind::Array(t) => {
                        j.put("ak", J::s("array"));
                        j.put("ty", J::s(t.to_string()));
                    }
                    AggregateKind::Tuple => j.put("ak", J::s("tuple")),
                    AggregateKind::Adt(d, vi, args, _, _) => {
                        j.put("ak", J::s("adt"));
                        j.put("adt", J::s(self.tcx.def_path_str(*d)));
                        let adt = self.tcx.adt_def(*d);
                        let v = adt.variant(*vi);
                        j.put("variant", J::s(v.name.to_string()));
                        j.put("vidx", J::Int(vi.as_u32() as i128));
                        if adt.is_enum() {
                            let dv = adt.discriminant_for_variant(self.tcx, *vi);
                            j.put("dval", J::Int(dv.val as i128));
                        }
                        j.put(
                            "fields",
                            J::Arr(v.fields.iter().map(|f| J::s(f.name.to_string())).collect()),
                        );
                        j.put(
                            "targs",
                            J::Arr(args.iter().map(|a| J::s(a.to_string())).collect()),
                        );
                    }
                    AggregateKind::Closure(d, _) => {
                        j.put("ak", J::s("closure"));
                        j.put("closure", J::s(self.tcx.def_path_str(*d)));
                        if let Some(l) = d.as_local() {
                            j.put("closure_did", J::Int(l.local_def_index.as_u32() as i128));
                        }
                    }
                    AggregateKind::RawPtr(t, m) => {
                        j.put("ak", J::s("rawptr"));
                        j.put("ty", J::s(t.to_string()));
                        j.put("mut", J::Bool(m.is_mut()));
                    }
                    other => j.put("ak", J::s(format!("{:?}", other))),
                }
                j.put("ops", J::Arr(ops.iter().map(|o| self.operand(o)).collect()));
            }
            Rvalue::CopyForDeref(p) => {
                j.put("k", J::s("use"));
                j.put("op", J::obj().set("k", J::s("copy")).set("pl", self.place(*p)));
                j.put("for_deref", J::Bool(true));
            }
            Rvalue::WrapUnsafeBinder(o, t) => {
                j.put("k", J::s("wrap_binder"));
                j.put("op", self.operand(o));
                j.put("ty", J::s(t.to_string()));
            }
        }
        j
    }

    fn stmt(&self, s: &Statement<'tcx>) -> Option<J> {
        let mut j = J::obj();
        match &s.kind {
            StatementKind::Assign(bx) => {
                let (p, r) = &**bx;
                j.put("k", J::s("assign"));
                j.put("pl", self.place(*p));
                j.put("rv", self.rvalue(r));
            }
            StatementKind::SetDiscriminant { place, variant_index } => {
                j.put("k", J::s("set_discr"));
                j.put("pl", self.place(**place));
                j.put("variant", J::Int(variant_index.as_u32() as i128));
            }
            StatementKind::Intrinsic(i) => match &**i {
                NonDivergingIntrinsic::Assume(o) => {
                    j.put("k", J::s("assume"));
                    j.put("op", self.operand(o));
                }
                NonDivergingIntrinsic::CopyNonOverlapping(c) => {
                    j.put("k", J::s("copy_nonoverlapping"));
                    j.put("src", self.operand(&c.src));
                    j.put("dst", self.operand(&c.dst));
                    j.put("count", self.operand(&c.count));
                }
            },
            StatementKind::StorageDead(l) => {
                j.put("k", J::s("dead"));
                j.put("l", J::Int(l.as_u32() as i128));
                return Some(j);
            }
            _ => return None,
        }
        j.put("span", self.span(s.source_info.span));
        Some(j)
    }

    fn unwind(&self, u: &UnwindAction) -> J {
        match u {
            UnwindAction::Cleanup(bb) => J::Int(bb.as_u32() as i128),
            UnwindAction::Continue => J::s("continue"),
            UnwindAction::Unreachable => J::s("unreachable"),
            UnwindAction::Terminate(_) => J::s("terminate"),
        }
    }

    fn term(&self, t: &Terminator<'tcx>) -> J {
        let mut j = J::obj();
        j.put("span", self.span(t.source_info.span));
        match &t.kind {
            TerminatorKind::Goto { target } => {
                j.put("k", J::s("goto"));
                j.put("target", J::Int(target.as_u32() as i128));
            }
            TerminatorKind::SwitchInt { discr, targets } => {
                j.put("k", J::s("switch"));
                j.put("discr", self.operand(discr));
                let dty = discr.ty(self.body, self.tcx);
                j.put("discr_ty", J::s(dty.to_string()));
                let mut tv = Vec::new();
                for (v, bb) in targets.iter() {
                    tv.push(J::Arr(vec![
                        if v > i128::MAX as u128 { J::s(v.to_string()) } else { J::Int(v as i128) },
                        J::Int(bb.as_u32() as i128),
                    ]));
                }
                j.put("targets", J::Arr(tv));
                j.put("otherwise", J::Int(targets.otherwise().as_u32() as i128));
            }
            TerminatorKind::UnwindResume => j.put("k", J::s("resume")),
            TerminatorKind::UnwindTerminate(_) => j.put("k", J::s("terminate")),
            TerminatorKind::Return => j.put("k", J::s("return")),
            TerminatorKind::Unreachable => j.put("k", J::s("unreachable")),
            TerminatorKind::Drop { place, target, unwind, .. } => {
                j.put("k", J::s("drop"));
                j.put("pl", self.place(*place));
                let pty = place.ty(self.body, self.tcx).ty;
                j.put("ty", J::s(pty.to_string()));
                j.put("target", J::Int(target.as_u32() as i128));
                j.put("unwind", self.unwind(unwind));
            }
            TerminatorKind::Call { func, args, destination, target, unwind, fn_span, .. } => {
                j.put("k", J::s("call"));
                j.put("func", self.operand(func));
                let fty = func.ty(self.body, self.tcx);
                match fty.kind() {
                    ty::FnDef(..) => {}
                    _ => j.put("indirect_ty", J::s(fty.to_string())),
                }
                j.put(
                    "args",
                    J::Arr(args.iter().map(|a| self.operand(&a.node)).collect()),
                );
                j.put("dest", self.place(*destination));
                match target {
                    Some(t) => j.put("target", J::Int(t.as_u32() as i128)),
                    None => j.put("target", J::Null),
                }
                j.put("unwind", self.unwind(unwind));
                j.put("fn_span", self.span(*fn_span));
            }
            TerminatorKind::TailCall { func, args, .. } => {
                j.put("k", J::s("tailcall"));
                j.put("func", self.operand(func));
                j.put(
                    "args",
                    J::Arr(args.iter().map(|a| self.operand(&a.node)).collect()),
                );
            }
            TerminatorKind::Assert { cond, expected, msg, target, unwind } => {
                j.put("k", J::s("assert"));
                j.put("cond", self.operand(cond));
                j.put("expected", J::Bool(*expected));
                j.put("target", J::Int(target.as_u32() as i128));
                j.put("unwind", self.unwind(unwind));
                match &**msg {
                    AssertKind::Overflow(op, a, b) => {
                        j.put("ak", J::s("overflow"));
                        j.put("op", J::s(format!("{:?}", op)));
                        j.put("a", self.operand(a));
                        j.put("b", self.operand(b));
                    }
                    AssertKind::OverflowNeg(a) => {
                        j.put("ak", J::s("overflow_neg"));
                        j.put("a", self.operand(a));
                    }
                    AssertKind::DivisionByZero(a) => {
                        j.put("ak", J::s("div_zero"));
                        j.put("a", self.operand(a));
                    }
                    AssertKind::RemainderByZero(a) => {
                        j.put("ak", J::s("rem_zero"));
                        j.put("a", self.operand(a));
                    }
                    AssertKind::BoundsCheck { len, index } => {
                        j.put("ak", J::s("bounds"));
                        j.put("len", self.operand(len));
                        j.put("index", self.operand(index));
                    }
                    AssertKind::MisalignedPointerDereference { .. } => {
                        j.put("ak", J::s("misaligned"))
                    }
                    AssertKind::NullPointerDereference => j.put("ak", J::s("null_deref")),
                    AssertKind::InvalidEnumConstruction(_) => j.put("ak", J::s("invalid_enum")),
                    _ => j.put("ak", J::s("other")),
                }
            }
            TerminatorKind::FalseEdge { real_target, .. } => {
                j.put("k", J::s("goto"));
                j.put("target", J::Int(real_target.as_u32() as i128));
            }
            TerminatorKind::FalseUnwind { real_target, .. } => {
                j.put("k", J::s("goto"));
                j.put("target", J::Int(real_target.as_u32() as i128));
            }
            other => {
                j.put("k", J::s("other"));
                j.put("s", J::s(format!("{:?}", other)));
            }
        }
        j
    }
}

fn instance_kind<'tcx>(i: &Instance<'tcx>) -> &'static str {
    use ty::InstanceKind::*;
    match i.def {
        Item(_) => "item",
        Intrinsic(_) => "intrinsic",
        Virtual(..) => "virtual",
        ClosureOnceShim { .. } => "closure_once_shim",
        FnPtrShim(..) => "fn_ptr_shim",
        DropGlue(..) => "drop_glue",
        CloneShim(..) => "clone_shim",
        ReifyShim(..) => "reify_shim",
        _ => "other",
    }
}

#[allow(dead_code)]
fn _unused<'tcx>(_: Ty<'tcx>) {}
