"""A25 KEEP-STORAGE: narrowing a handle in place never detaches it from its storage.

`truncate`, `clear`, `set_len`, `advance` (inherent and `Buf::advance`) shrink the view a `Bytes` / `BytesMut` has of its buffer.  The
handle stays an owner of that buffer: a recycling loop clears the handle and fills it again (C18), a sole owner that truncated its
`Bytes` to nothing converts it back with `try_into_mut` / `BytesMut::from` and gets the same memory (C08), and no bytes move (C07).
All of that is lost - silently, every test on contents still passes - if the narrowing method *replaces* the handle
(`*self = BytesMut::new()`, `drop(self.split_off(0))`, `mem::take(self)`), because the replaced value releases the buffer.

Rule (resolved call graph + dominating guards).  A *replacement event* for a handle parameter `h: &mut Bytes | &mut BytesMut` is

    a store to the whole of `*h`;   mem::replace / mem::take / mem::swap / ptr::write / ptr::drop_in_place on `h`;
    a call through the handle's own vtable `drop` slot;   a call that hands `h` on to a crate function with an *unguarded* event.

An event is *guarded* when the block it sits in is dominated by a branch that established `h.vtable == <a promotable vtable>`: the
promotable representation cannot be cut at the back in place (its deallocation recomputes the capacity from ptr + len), which is the
one documented reason for `Bytes::truncate` to go through `split_off`.  Every narrowing method must be free of unguarded events.

Positive example kept on every run: `Bytes::split_off` and `BytesMut::split_off`-like splitting functions must show an unguarded
event (`mem::replace(self, ..)` for the empty cut) - the floor fails if the event scan goes blind.
"""
from .base import Result, RuleError
from .facts import callee
from .flow import ExprBuilder, canon, walk, guards_at, fmt_expr
from . import roles

HANDLES = ("bytes::Bytes", "bytes_mut::BytesMut")
NARROWING = ("truncate", "clear", "set_len", "advance", "advance_unchecked", "inc_start")
REPLACERS = {"core::mem::replace": (0,), "core::mem::take": (0,), "core::mem::swap": (0, 1), "core::ptr::write": (0,), "core::ptr::drop_in_place": (0,),
             "core::ptr::mut_ptr::<impl *mut T>::write": (0,), "core::ptr::mut_ptr::<impl *mut T>::drop_in_place": (0,), "core::ptr::mut_ptr::<impl *mut T>::replace": (0,)}


def handle_param(b, i):
    ty = b.locals[i]["ty"]
    if not ty.startswith("&") or "mut " not in ty:
        return None
    t = ty.split("mut ", 1)[1].strip()
    return t if t in HANDLES else None


def is_param(e, i):
    e = canon(e)
    while isinstance(e, tuple) and e and e[0] in ("ref", "deref", "cast"):
        e = e[2] if e[0] == "cast" else e[1]
    return e == ("param", i)


class Events:
    def __init__(self, facts):
        self.facts = facts
        from .r_e2 import parity_vtables
        ev, od = parity_vtables(facts)
        self.vts = set(ev) | set(od)
        self.memo = {}

    def guarded(self, b, bi, i, depth=0, seen=None):
        """the block is entered only with `h.vtable == <static vtable>` established: by one dominating branch, or - for `a == EVEN || a == ODD` -
        by every edge that enters it"""
        from .flow import edge_conditions, cfg_of
        if self.identity(b, i, guards_at(b, bi, self.facts)):
            return True
        seen = seen if seen is not None else set()
        if depth > 8 or bi in seen:
            return False
        seen.add(bi)
        cfg = cfg_of(b)
        preds = cfg.pred[bi]
        if not preds:
            return False
        edges = [e for e in edge_conditions(b, self.facts)]
        for p_ in preds:
            if self.identity(b, i, [e for e in edges if e[0] == p_ and e[1] == bi]):
                continue
            if not self.guarded(b, p_, i, depth + 1, seen):
                return False
        return True

    def identity(self, b, i, guards, depth=0):
        for (s, d, c, v) in guards:
            # a flag (`let promotable = a == EVEN || a == ODD`): true where every way it became true is an identity test that held, or the
            # constant `true` stored in a block that is itself entered only under such a test
            neg = 0
            x = c
            while isinstance(x, tuple) and x and x[0] == "un" and x[1] == "Not":
                neg = 1 - neg
                x = x[2]
            if isinstance(x, tuple) and x and x[0] == "phi" and len(x) > 2 and v[0] == "eq" and v[1] == 1 - neg and depth < 3:
                l, sites = x[2]
                from .flow import defs_of
                ok = bool(sites)
                for d_ in defs_of(b).get(l, []):
                    if (d_[0], d_[1]) not in sites:
                        continue
                    rv = d_[3]
                    if d_[2] != "assign":
                        e = ExprBuilder(b, self.facts, inline=False).def_expr(d_, 0)
                        if not self.identity(b, i, [(s, d, e, ("eq", 1))], depth + 1):
                            ok = False
                            break
                        continue
                    if rv["k"] == "use" and rv["op"].get("k") == "const":
                        if rv["op"].get("v") in (1, True) and self.guarded(b, d_[0], i, depth + 1):
                            continue
                        if rv["op"].get("v") in (0, False):
                            continue            # this way the flag is false: not on the true edge
                        ok = False
                        break
                    e = ExprBuilder(b, self.facts, inline=False).rvalue(rv, (d_[0], d_[1]), 0)
                    if not self.identity(b, i, [(s, d, e, ("eq", 1))], depth + 1):
                        ok = False
                        break
                if ok:
                    return True
                continue
            cc = canon(c)
            st = [y[1] for y in walk(cc) if isinstance(y, tuple) and y and y[0] == "static" and y[1] in self.vts]
            if not st or v[0] != "eq":
                continue
            if not any(isinstance(y, tuple) and y and y[0] == "field" and y[2] == "vtable" and is_param(y[1], i) for y in walk(cc)):
                continue
            sense = 1
            x = cc
            while isinstance(x, tuple) and x and x[0] == "un" and x[1] == "Not":
                sense = 1 - sense
                x = x[2]
            if isinstance(x, tuple) and x and ((x[0] == "call" and x[1].rsplit("::", 1)[-1] == "ne") or (x[0] == "bin" and x[1] == "Ne")):
                sense = 1 - sense
            elif not (isinstance(x, tuple) and x and ((x[0] == "call" and x[1].rsplit("::", 1)[-1] == "eq") or (x[0] == "bin" and x[1] == "Eq"))):
                continue
            if v[1] == sense:
                return True
        return False

    def of(self, b, i, stack=()):
        """unguarded replacement events of parameter i in body b: [(block, description, chain)]"""
        k = (b.did, i) if not b._cache.get("inlined_from") else (id(b), i)
        if k in self.memo:
            return self.memo[k]
        if k in stack:
            return []
        self.memo[k] = []
        out = []
        eb = ExprBuilder(b, self.facts, inline=False)
        for bi, blk in enumerate(b.blocks):
            if blk["cleanup"]:
                continue
            for si, s in enumerate(blk["stmts"]):
                if s["k"] == "assign" and s["pl"]["l"] == i and s["pl"]["p"] == ["*"]:
                    out.append((bi, "`*self = ..` stores a whole new handle", (b.id,)))
                elif s["k"] == "assign" and s["pl"]["p"] == ["*"] and not (1 <= s["pl"]["l"] <= b.arg_count) and is_param(eb.local(s["pl"]["l"], (bi, si)), i):
                    out.append((bi, "`*self = ..` stores a whole new handle", (b.id,)))
            t = blk["term"]
            if t["k"] != "call":
                continue
            loc = (bi, len(blk["stmts"]))
            fn = callee(t)
            args = [eb.operand(a, loc) for a in t["args"]]
            if fn is None:
                # a call through a function pointer: the handle's own `drop` slot releases its storage
                f = canon(eb.operand(t["func"], loc)) if "func" in t else None
                if isinstance(f, tuple) and f and f[0] == "field" and f[2] == "drop" and any(
                        isinstance(y, tuple) and y and y[0] == "field" and y[2] == "vtable" and is_param(y[1], i) for y in walk(f)):
                    out.append((bi, "the handle's vtable drop slot is called", (b.id,)))
                continue
            r = fn.get("res") or fn
            path = r.get("path", "")
            if path in REPLACERS:
                if any(j < len(args) and is_param(args[j], i) for j in REPLACERS[path]):
                    out.append((bi, "%s on the handle" % path.replace("core::", ""), (b.id,)))
                continue
            if r.get("local") and r.get("did") is not None:
                cb = self.facts.by_did.get(r["did"])
                if cb is None:
                    continue
                for j, a in enumerate(args):
                    if j + 1 <= cb.arg_count and is_param(a, i) and handle_param(cb, j + 1):
                        sub = self.of(cb, j + 1, stack + (k,))
                        if sub:
                            out.append((bi, "%s, which %s" % (cb.id.rsplit("::", 1)[-1], sub[0][1]), (b.id,) + sub[0][2]))
        out = [e for e in out if not self.guarded(b, e[0], i)]
        self.memo[k] = out
        return out


def run(facts):
    res = Result("A25", "the in-place narrowing methods of Bytes / BytesMut (truncate, clear, set_len, advance) never replace or release the handle they narrow, "
                        "except where the promotable vtable is established (resolved call graph, dominating vtable-identity guards)")
    ev = Events(facts)
    n = 0
    for b in facts.fn_bodies():
        if facts.is_test(b) or b.kind not in ("fn", "assoc_fn") or b.arg_count < 1:
            continue
        h = handle_param(b, 1)
        if h is None:
            continue
        nm = b.id.rsplit("::", 1)[-1]
        if nm not in NARROWING:
            continue
        n += 1
        key = "%s|keeps its storage" % b.id
        es = ev.of(b, 1)
        if es:
            # the identity test may sit in a private predicate (`fn is_promotable(&self) -> bool`): judge the method with its helpers spliced in
            from .inline import views
            for ib in views(facts, b):
                es2 = ev.of(ib, 1)
                if not es2:
                    es = []
                    break
        if es:
            bi, what, chain = es[0]
            res.bad(key, b.loc(bi), "%s (%s) where the handle is not known to use a promotable vtable: the handle is detached from its buffer - the buffer is released "
                                    "(or handed to the discarded value) although the method only narrows the view" % (what, " -> ".join(x.rsplit("::", 1)[-1] for x in chain)))
        else:
            res.ok(key, b.loc(), "only the view fields are stored", nontrivial=True)
    res.floor("narrowing methods", n, 8)
    # positive example: the splitting functions replace the handle for the empty cut
    pos = 0
    for name in ("bytes::Bytes::split_off", "bytes::Bytes::split_to"):
        for b in facts.by_id.get(name, []):
            pos += len(ev.of(b, 1))
    res.floor("replacement events seen in Bytes::split_off / split_to (positive example)", pos, 2)
    return res
