"""C9 OBS-FRESH: what a function knows about a cursor is forgotten when the cursor moves.

`remaining()`, `has_remaining()`, `chunk()` (and the `_mut` twins) are *observations* of a Buf / BufMut; `advance`, `copy_to_*`, `get_*`,
`put_*`, `advance_mut`, handing the cursor to other code as `&mut` are *movements*.  An observation made before a movement says
nothing about the cursor after it.  The expression trees of the other rules are time-less (`self.buf.remaining_mut()` is one tree
wherever it is evaluated), so two checks over the MIR keep the order of events:

 (i)  STALE AMOUNT - forward gen/kill dataflow (loops to a fixpoint).  Values derived from an observation of receiver R carry the
      tag R; a movement of R turns the tag stale; the byte count / slice handed to a movement of R must not rest on stale tags of R only
      (a value that is also derived from a current observation - `min(chunk.len(), left)` - is bounded by it; the stale part is bookkeeping).
      (`let room = w.remaining_mut(); for s in srcs { let n = min(room, s.len()); w.put_slice(&s[..n]) }` - on the second round
      `room` describes a cursor that no longer exists: the write runs past the end and panics instead of being clamped, C12.)

 (ii) CHUNK INDEX - every bounds-checked index into `chunk(R)` / `chunk_mut(R)` is preceded by evidence that the cursor holds more
      than `index` bytes (`has_remaining()`, `remaining() > k`, `!chunk.is_empty()`, `chunk.len() > k` on an edge that dominates the
      index), with no movement of R between the observation and the index.  Without it an exhausted cursor makes the index panic
      where the contract says `None` / `Err` (C09: `IntoIter` hands out exactly the next bytes and then ends).
"""
from .base import Result
from .facts import callee
from .flow import ExprBuilder, cfg_of, canon, walk, fmt_expr, edge_conditions, normalize_cmp, in_debug_region

OBSERVERS = ("remaining", "has_remaining", "chunk", "remaining_mut", "has_remaining_mut", "chunk_mut", "chunks_vectored")
NEUTRAL = OBSERVERS + ("get_ref", "get_mut", "as_ref", "as_mut", "deref", "deref_mut", "borrow", "borrow_mut", "len", "is_empty", "limit", "position",
                       "first_ref", "last_ref", "first_mut", "last_mut", "by_ref", "capacity", "as_slice", "as_mut_slice", "spare_capacity_mut", "clone", "fmt")
MOVERS = ("advance", "advance_mut", "copy_to_slice", "copy_to_bytes", "try_copy_to_slice", "put_slice", "put_bytes", "put", "read", "write", "consume",
          "read_exact", "write_all", "fill_buf", "set_position")
TRAITS = ("buf::buf_impl::Buf", "buf::buf_mut::BufMut")


def norm(e):
    e = canon(e)
    if not isinstance(e, tuple) or not e:
        return e
    if e[0] in ("ref", "deref"):
        return norm(e[1])
    if e[0] == "field":
        return ("field", norm(e[1]), e[2])
    if e[0] == "cast":
        return norm(e[2])
    return e


def root_local(b, op):
    """the local a value operand is a plain copy of (copy chains through single-definition temporaries followed); ("const", v) for literals"""
    from .flow import defs_of
    defs = defs_of(b)
    for _ in range(12):
        if not isinstance(op, dict):
            return None
        if op.get("k") == "const":
            return ("const", op.get("v"))
        if op.get("k") not in ("copy", "move") or op["pl"]["p"]:
            return None
        l = op["pl"]["l"]
        ds = defs.get(l, [])
        if len(ds) == 1 and ds[0][2] == "assign" and ds[0][3]["k"] == "use" and not (1 <= l <= b.arg_count):
            op = ds[0][3]["op"]
            continue
        if len(ds) == 1 and ds[0][2] == "assign" and ds[0][3]["k"] == "cast" and ds[0][3].get("ck") == "IntToInt" and not (1 <= l <= b.arg_count):
            op = ds[0][3]["op"]
            continue
        return l
    return None


def slice_range(b, op):
    """(lo, hi) root locals of a slice argument `&s[lo..hi]` (lo = ("const", 0) for `..hi`, hi = None for `lo..`); None if not such a slice"""
    from .flow import defs_of
    defs = defs_of(b)
    for _ in range(10):
        if not isinstance(op, dict) or op.get("k") not in ("copy", "move") or op["pl"]["p"]:
            return None
        ds = defs.get(op["pl"]["l"], [])
        if len(ds) != 1:
            return None
        bb, si, kind, payload = ds[0]
        if kind == "assign":
            rv = payload
            if rv["k"] == "use":
                op = rv["op"]
                continue
            if rv["k"] in ("ref", "rawptr") and rv["pl"]["p"] == ["*"]:
                op = {"k": "copy", "pl": {"l": rv["pl"]["l"], "p": []}}
                continue
            return None
        fn = callee(payload)
        if fn is None or fn["name"] not in ("index", "index_mut", "get_unchecked", "get_unchecked_mut") or len(payload["args"]) != 2:
            return None
        r = payload["args"][1]
        if r["k"] not in ("copy", "move") or r["pl"]["p"]:
            return None
        rd = defs.get(r["pl"]["l"], [])
        if len(rd) != 1 or rd[0][2] != "assign" or rd[0][3]["k"] != "agg":
            return None
        agg = rd[0][3]
        nm = str(agg.get("adt", ""))
        ops = agg["ops"]
        if nm.endswith("RangeTo") and len(ops) == 1:
            return (("const", 0), root_local(b, ops[0]))
        if nm.endswith("RangeFrom") and len(ops) == 1:
            return (root_local(b, ops[0]), None)
        if nm.endswith("Range") and len(ops) == 2:
            return (root_local(b, ops[0]), root_local(b, ops[1]))
        return None
    return None


def amount_key(b, nm, args):
    """the value (root local / literal) that says how many bytes a movement consumes; None when this rule cannot name it"""
    if nm in ("advance", "advance_mut", "copy_to_bytes", "consume") and len(args) > 1:
        return root_local(b, args[1])
    if nm == "put_bytes" and len(args) > 2:
        return root_local(b, args[2])
    if nm in ("put_slice", "copy_to_slice", "try_copy_to_slice", "read", "write", "read_exact", "write_all") and len(args) > 1:
        r = slice_range(b, args[1])
        if r is not None and r[0] == ("const", 0) and r[1] is not None:
            return r[1]
    return None


def is_mover_name(nm):
    return nm in MOVERS or nm.startswith(("get_", "try_get_", "put_")) and not nm.startswith(("get_ref", "get_mut"))


class C9:
    def __init__(self, facts):
        self.facts = facts

    def call_kind(self, b, t, eb, loc):
        """-> (kind, receiver root, fn) with kind in observe / move / None"""
        fn = callee(t)
        if fn is None or not t["args"]:
            return None, None, fn
        nm = fn["name"]
        tr = fn.get("trait") or ""
        res = fn.get("res") or fn
        path = res.get("path", "")
        buflike = tr in TRAITS or "buf::" in path or "Buf" in str(fn.get("self_ty") or "") or tr in ("std::io::Read", "std::io::Write", "std::io::BufRead")
        a0 = t["args"][0]
        r0 = norm(eb.operand(a0, loc)) if a0["k"] in ("copy", "move") else None
        if nm in OBSERVERS and (tr in TRAITS or buflike):
            return "observe", r0, fn
        if is_mover_name(nm) and (tr in TRAITS or buflike):
            return "move", r0, fn
        return None, r0, fn

    def analyse(self, b):
        facts = self.facts
        eb = ExprBuilder(b, facts, inline=False)
        cfg = cfg_of(b)
        viol = {}
        stats = {"obs": 0, "mov": 0, "idx": 0}
        movers_of = {}          # receiver root -> [block]
        observers_of = {}       # (receiver root, method) -> [block]

        def op_local(o):
            return o["pl"]["l"] if isinstance(o, dict) and o.get("k") in ("copy", "move") else None

        def tags_of(o, st):
            l = op_local(o)
            return st.get(l, frozenset()) if l is not None else frozenset()

        def transfer(bi, st, report):
            st = dict(st)
            blk = b.blocks[bi]
            for si, s in enumerate(blk["stmts"]):
                if s["k"] != "assign":
                    continue
                rv = s["rv"]
                ops = list(rv["ops"]) if rv["k"] == "agg" else [rv[k] for k in ("op", "a", "b") if isinstance(rv.get(k), dict)]
                u = frozenset()
                for o in ops:
                    u |= tags_of(o, st)
                if rv["k"] in ("ref", "rawptr", "discr", "len") and "pl" in rv:
                    u |= st.get(rv["pl"]["l"], frozenset())
                    for pe in rv["pl"]["p"]:
                        if isinstance(pe, dict) and "idx" in pe:
                            u |= st.get(pe["idx"], frozenset())
                if rv["k"] == "bin" and rv["op"] in ("Sub", "SubWithOverflow", "SubUnchecked") and u:
                    # bookkeeping that follows the cursor: `room -= n` after a movement by n makes `room` current again
                    y = root_local(b, rv["b"])
                    u = frozenset((tg[0], None) if (tg[1] is not None and tg[1][2] is not None and tg[1][2] == y and tg in tags_of(rv["a"], st)) else tg for tg in u)
                pl = s["pl"]
                if pl["p"]:
                    if u:
                        st[pl["l"]] = st.get(pl["l"], frozenset()) | u
                else:
                    if u:
                        st[pl["l"]] = u
                    elif pl["l"] in st:
                        del st[pl["l"]]
            t = blk["term"]
            if t["k"] != "call":
                return st
            loc = (bi, len(blk["stmts"]))
            kind, r0, fn = self.call_kind(b, t, eb, loc)
            d = t.get("dest")
            dl = d["l"] if isinstance(d, dict) and not d["p"] else None
            if fn is None:
                if dl is not None and dl in st:
                    del st[dl]
                return st
            nm = fn["name"]
            # (i) a movement of R whose amount / slice argument carries a stale tag of R
            moved = []
            if kind == "move" and isinstance(r0, tuple):
                moved.append(r0)
                if report:
                    stats["mov"] += 1
                    movers_of.setdefault(r0, []).append(bi)
                    if not in_debug_region(b, bi):
                        for a in t["args"][1:]:
                            tgs = tags_of(a, st)
                            if any(tg[0] == r0 and tg[1] is None for tg in tgs):
                                continue        # also bounded by an observation that is still current (`min(chunk.len(), left)`): the stale part is bookkeeping
                            sr = slice_range(b, a)
                            lo = sr[0] if sr is not None and sr[0] != ("const", 0) else None
                            for tg in tgs:
                                if tg[0] == r0 and tg[1] is not None:
                                    if lo is not None and lo == tg[1][2]:
                                        continue    # `s[k..n]` after a movement by k: what was consumed is left out of the count
                                    key = "%s|%s after %s" % (b.id, nm, tg[1][0])
                                    viol.setdefault(key, (b.loc(bi), "`%s` on %s is given a byte count / slice computed from an observation of that cursor made before `%s` "
                                                                     "moved it (bb%d), and the bytes consumed since are not taken off it: the bound no longer describes the cursor" % (
                                                                         nm, fmt_expr(r0)[:40], tg[1][0], tg[1][1])))
            # any other call that receives `&mut R` may move R (the cursor is handed to code this rule does not know)
            if kind != "observe" and nm not in NEUTRAL:
                for i, a in enumerate(t["args"]):
                    l = op_local(a)
                    if l is None or not b.locals[l]["ty"].startswith("&mut"):
                        continue
                    r = norm(eb.operand(a, loc))
                    if isinstance(r, tuple) and r not in moved and (i > 0 or kind is None):
                        if i == 0 and not (fn.get("trait") in TRAITS or (fn.get("res") or {}).get("local")):
                            continue
                        moved.append(r)
                        if report:
                            movers_of.setdefault(r, []).append(bi)
            amt = amount_key(b, nm, t["args"]) if kind == "move" else None
            for r in moved:
                for l in list(st):
                    st[l] = frozenset((tg[0], (nm, bi, amt if r == r0 else None)) if (tg[0] == r and tg[1] is None) else tg for tg in st[l])
            # result
            if dl is not None:
                if kind == "observe" and isinstance(r0, tuple):
                    st[dl] = frozenset([(r0, None)])
                    if report:
                        stats["obs"] += 1
                        observers_of.setdefault((r0, nm), []).append(bi)
                else:
                    u = frozenset()
                    for a in t["args"]:
                        u |= tags_of(a, st)
                    if u:
                        st[dl] = u
                    elif dl in st:
                        del st[dl]
            return st

        from .flow import threaded_successors
        tsucc = threaded_successors(b)
        ins = {0: {}}
        work = [0]
        outs = {}
        it = 0
        while work and it < 20000:
            it += 1
            bi = work.pop()
            out = transfer(bi, ins.get(bi, {}), False)
            if outs.get(bi) == out:
                continue
            outs[bi] = out
            for d in tsucc.get(bi, ()):
                cur = ins.get(d)
                if cur is None:
                    ins[d] = dict(out)
                    work.append(d)
                else:
                    # join: "moved since observed" on any incoming path wins; "current" only if current on every incoming path
                    ch = False
                    for l in set(out) | set(cur):
                        a, c_ = out.get(l, frozenset()), cur.get(l, frozenset())
                        stale = frozenset(tg for tg in a | c_ if tg[1] is not None)
                        fresh = frozenset(tg for tg in a & c_ if tg[1] is None)
                        new = stale | fresh
                        if new != c_:
                            if new:
                                cur[l] = new
                            else:
                                cur.pop(l, None)
                            ch = True
                    if ch:
                        work.append(d)
        for bi in sorted(ins):
            if not b.blocks[bi]["cleanup"]:
                transfer(bi, ins[bi], True)

        # (ii) bounds-checked index into chunk(R)
        edges = None
        for bi, blk in enumerate(b.blocks):
            t = blk["term"]
            if blk["cleanup"] or t["k"] != "assert" or t.get("ak") != "bounds":
                continue
            loc = (bi, len(blk["stmts"]))
            ln = canon(eb.operand(t["len"], loc))
            src = None
            for x in walk(ln):
                if isinstance(x, tuple) and x and x[0] in ("call", "ucall") and str(x[1]).rsplit("::", 1)[-1] in ("chunk", "chunk_mut") and x[2]:
                    src = x
            if src is None:
                continue
            # only a direct index of the chunk (not of a sub-slice whose length was computed separately)
            inner = ln
            while isinstance(inner, tuple) and inner and inner[0] in ("un", "len", "ref", "deref", "cast"):
                inner = inner[2] if inner[0] in ("un", "cast") else inner[1]
            if norm(inner) != norm(src) and not (isinstance(inner, tuple) and inner[0] in ("call", "ucall") and str(inner[1]).rsplit("::", 1)[-1] == "len"
                                                 and norm(inner[2][0]) == norm(src)):
                continue
            R = norm(src[2][0])
            idx = canon(eb.operand(t["index"], loc))
            stats["idx"] += 1
            if edges is None:
                edges = [(s, d, normalize_cmp(c, v)) for (s, d, c, v) in edge_conditions(b, facts, inline=False)]
            chunk_blocks = [cb for (rr, m), bl in observers_of.items() if rr == R and m in ("chunk", "chunk_mut") for cb in bl if cfg.dominates(cb, bi)]
            ok = False
            why = "no dominating evidence that the cursor holds more than %s byte(s)" % fmt_expr(idx)
            for (s, d, r) in edges:
                if not cfg.dominates(d, bi) or d == s:
                    continue
                ev = self.evidence(r, R, idx)
                if not ev:
                    continue
                # no movement of R between the observation and the index
                obs_blocks = [ob for (rr, m), bl in observers_of.items() if rr == R and m == ev for ob in bl if cfg.dominates(ob, s) or ob == s]
                if not obs_blocks:
                    continue
                o = max(obs_blocks, key=lambda x: sum(1 for y in obs_blocks if cfg.dominates(y, x)))
                between = [c for c in movers_of.get(R, []) if (cfg.reaches(o, c) or o == c) and cfg.reaches(c, bi) and c != bi and c != o]
                if between:
                    why = "the evidence (%s) is older than the `%s` in bb%d that moved the cursor" % (ev, (callee(b.blocks[between[0]]["term"]) or {}).get("name"), between[0])
                    continue
                ok = True
                break
            key = "%s|chunk index" % b.id
            if not ok:
                viol.setdefault(key, (b.loc(bi), "index %s into %s(%s): %s - an exhausted cursor makes this panic" % (
                    fmt_expr(idx), str(src[1]).rsplit("::", 1)[-1], fmt_expr(R)[:40], why)))
        return viol, stats

    def evidence(self, r, R, idx):
        """does relation r say that cursor R holds more than idx bytes? -> name of the observer it rests on"""
        def obs(e, names):
            e = canon(e)
            while isinstance(e, tuple) and e and e[0] in ("cast",):
                e = e[2]
            if isinstance(e, tuple) and e and e[0] in ("call", "ucall") and str(e[1]).rsplit("::", 1)[-1] in names and e[2] and norm(e[2][0]) == R:
                return str(e[1]).rsplit("::", 1)[-1]
            # len(chunk(R))
            if isinstance(e, tuple) and e and ((e[0] in ("call", "ucall") and str(e[1]).rsplit("::", 1)[-1] == "len" and e[2]) or e[0] in ("un", "len")):
                inner = e[2][0] if e[0] in ("call", "ucall") else (e[2] if e[0] == "un" else e[1])
                inner = norm(inner)
                if isinstance(inner, tuple) and inner and inner[0] in ("call", "ucall") and str(inner[1]).rsplit("::", 1)[-1] in ("chunk", "chunk_mut") \
                        and inner[2] and norm(inner[2][0]) == R:
                    return str(inner[1]).rsplit("::", 1)[-1]
            return None
        k = idx[1] if isinstance(idx, tuple) and idx[0] == "const" and isinstance(idx[1], int) else None
        if r is None:
            return None
        if r[0] == "truth":
            e = canon(r[1])
            if isinstance(e, tuple) and e and e[0] in ("call", "ucall") and e[2]:
                nm = str(e[1]).rsplit("::", 1)[-1]
                if nm in ("has_remaining", "has_remaining_mut") and r[2] == 1 and norm(e[2][0]) == R and k == 0:
                    return nm
                if nm == "is_empty" and r[2] == 0 and k == 0:
                    inner = norm(e[2][0])
                    if isinstance(inner, tuple) and inner and inner[0] in ("call", "ucall") and str(inner[1]).rsplit("::", 1)[-1] in ("chunk", "chunk_mut") and norm(inner[2][0]) == R:
                        return str(inner[1]).rsplit("::", 1)[-1]
            return None
        names = ("remaining", "remaining_mut")
        if r[0] in ("lt", "le") and isinstance(r[1], tuple) and isinstance(r[2], tuple):
            o = obs(r[2], names)
            if o:
                a = canon(r[1])
                if a == idx and r[0] == "lt":
                    return o
                if isinstance(a, tuple) and a[0] == "const" and isinstance(a[1], int) and k is not None and (a[1] > k if r[0] == "le" else a[1] >= k):
                    return o
        if r[0] == "ne" and k == 0:
            for (x, y) in ((r[1], r[2]), (r[2], r[1])):
                o = obs(x, names)
                if o and canon(y) == ("const", 0):
                    return o
        return None


def run(facts):
    res = Result("C9", "an observation of a cursor (remaining / has_remaining / chunk) is not relied on after the cursor moved: (i) no movement of R receives a byte "
                       "count / slice derived from an observation of R made before an earlier movement of R (forward dataflow, loops included); (ii) every "
                       "bounds-checked index into chunk(R) rests on fresh evidence that R holds more than `index` bytes")
    c9 = C9(facts)
    n_fn = n_obs = n_mov = n_idx = 0
    for b in facts.fn_bodies():
        if facts.is_test(b) or b.kind not in ("fn", "assoc_fn", "closure"):
            continue
        if not any((callee(t) or {}).get("name") in OBSERVERS for _, t in b.calls()):
            continue
        viol, st = c9.analyse(b)
        if not (st["obs"] or st["idx"]):
            continue
        n_fn += 1
        n_obs += st["obs"]
        n_mov += st["mov"]
        n_idx += st["idx"]
        for key, (loc, text) in sorted(viol.items()):
            res.bad(key, loc, text)
        if not viol:
            res.ok("%s|observations fresh" % b.id, b.loc(), "%d observation(s), %d movement(s), %d chunk index(es)" % (st["obs"], st["mov"], st["idx"]),
                   nontrivial=bool(st["mov"] and st["obs"]))
    res.floor("cursor observations", n_obs, 60)
    res.floor("chunk indexes", n_idx, 3)
    return res


def run_deep(facts):
    """thorough tier: the same two checks on every function with its crate-local callees spliced in (two levels): an observation made in a
    caller and relied on in a helper after the helper moved the cursor (or the reverse) is only visible in the caller's view"""
    from .inline import inlined
    res = Result("C9+views", "C9 on the inlined views of every function (helpers spliced in, two levels)")
    c9 = C9(facts)
    n = 0
    for b in facts.fn_bodies():
        if facts.is_test(b) or b.kind not in ("fn", "assoc_fn"):
            continue
        ib = inlined(facts, b, depth=2)
        if not (ib._cache.get("inlined_from") or ()):
            continue
        if not any((callee(t) or {}).get("name") in OBSERVERS for _, t in ib.calls()):
            continue
        viol, st = c9.analyse(ib)
        if not (st["obs"] or st["idx"]):
            continue
        n += 1
        for key, (loc, text) in sorted(viol.items()):
            res.bad(key + " (in the view of %s)" % b.id.rsplit("::", 1)[-1], b.loc(), text)
        if not viol:
            res.ok("%s|observations fresh in the inlined view" % b.id, b.loc(), "%d observation(s), %d movement(s)" % (st["obs"], st["mov"]), nontrivial=bool(st["mov"] and st["obs"]))
    res.floor("inlined views analysed", n, 15)
    return res
