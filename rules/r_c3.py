"""C3 CURSOR-GUARD — every `Buf::advance` implementation in the crate rejects `cnt > remaining()`:
by a dominating guard `cnt <= <the impl's own remaining() expression>` before it changes anything, by
handing the (rest of the) count to an inner `advance` (after its own bound where it keeps one), or by
a listed std operation that panics on an out-of-range count (slice indexing, VecDeque::drain)."""
from .base import Result, RuleError
from .facts import callee
from .flow import ExprBuilder, cfg_of, canon, walk, fmt_expr, return_expr, enumerate_paths
from .logic import Ctx, is_call
from .inline import views

BUF = "buf::buf_impl::Buf"


def erase_sites(e):
    """user-trait calls compared up to their call site (remaining() and advance() evaluate the same expression)"""
    if not isinstance(e, tuple) or not e:
        return e
    if e[0] == "ucall":
        return ("ucall", e[1], tuple(erase_sites(a) for a in e[2]))
    return tuple(erase_sites(x) if isinstance(x, tuple) else x for x in e)


def advance_probs(facts, b, rb):
    eb = ExprBuilder(b, facts, inline=True)
    R = erase_sites(canon(return_expr(rb, facts, inline=True)))
    cfg = cfg_of(b)
    calls = []
    for bi, t in b.calls():
        if b.blocks[bi]["cleanup"]:
            continue
        fn = callee(t)
        if fn is None:
            continue
        loc = (bi, len(b.blocks[bi]["stmts"]))
        calls.append((bi, fn, (fn.get("res") or fn)["path"], [canon(eb.operand(a, loc)) for a in t["args"]]))
    # state-changing operations: inner advance calls, unsafe helpers, stores through self, set_position, drain
    effect_blocks = []
    for (bi, fn, p, a) in calls:
        nm = fn["name"]
        if nm in ("advance", "advance_unchecked", "inc_start", "set_position", "drain", "advance_mut") or (fn.get("unsafe") and (fn.get("res") or fn).get("local")):
            effect_blocks.append((bi, nm, a))
    for bi, blk in enumerate(b.blocks):
        if blk["cleanup"]:
            continue
        for si, s in enumerate(blk["stmts"]):
            if s["k"] == "assign" and s["pl"]["l"] == 1 and "*" in s["pl"]["p"]:
                effect_blocks.append((bi, "store", []))
    how = []
    probs = []
    if not effect_blocks:
        probs.append("advance has no effect")
    for (bi, nm, a) in effect_blocks:
        # delegation of the count to an inner buffer: the inner advance enforces its own bound
        if nm == "advance" and len(a) == 2:
            # the wrapper keeps its own bound where it narrows the inner buffer (Take: cnt <= limit)
            keeps_limit = any(x[0] == "field" and x[2] == "limit" for x in walk(R))
            if keeps_limit:
                ctx = Ctx(b, bi, facts)
                lim = [x for x in walk(R) if x[0] == "field" and x[2] == "limit"][0]
                if not ctx.le(("param", 2), lim):
                    probs.append("inner advance without the wrapper's own bound cnt <= limit")
                    continue
            how.append("delegates to inner advance")
            continue
        if nm == "drain":
            rng = a[1] if len(a) > 1 else None
            if isinstance(rng, tuple) and rng[0] == "agg" and "RangeTo" in str(rng[1]) and rng[2][0] == ("param", 2):
                how.append("VecDeque::drain(..cnt) panics beyond len")
            else:
                probs.append("drain with a range other than ..cnt")
            continue
        if nm == "store":
            # `*self = &self[cnt..]`: the re-slice panics when cnt > len
            ok = False
            for (cbi, fn2, p2, a2) in calls:
                if fn2["name"] == "index" and len(a2) == 2 and isinstance(a2[1], tuple) and a2[1][0] == "agg" and "RangeFrom" in str(a2[1][1]) \
                        and a2[1][2][0] == ("param", 2) and cfg.dominates(cbi, bi):
                    ok = True
            if ok:
                how.append("re-slice self[cnt..] panics beyond len")
                continue
            # bookkeeping after a delegated advance of the same count (Take: limit -= cnt)
            deleg = [x for x in effect_blocks if x[1] == "advance" and len(x[2]) == 2 and x[2][1] == ("param", 2) and cfg.dominates(x[0], bi)]
            if deleg and Ctx(b, bi, facts).le(("param", 2), R):
                how.append("bookkeeping after the delegated advance")
                continue
            if deleg:
                lims = [x for x in walk(R) if x[0] == "field" and x[2] == "limit"]
                if lims and Ctx(b, bi, facts).le(("param", 2), lims[0]):
                    how.append("bookkeeping after the delegated advance (cnt <= limit)")
                    continue
        ctx = Ctx(b, bi, facts, norm=erase_sites)
        # the bound may also be spelt as a call of the impl's own remaining() on self
        own_call = [r_[2] for r_ in ctx.rels if r_[0] in ("le", "lt") and r_[1] == ("param", 2) and isinstance(r_[2], tuple) and r_[2] and r_[2][0] == "call"
                    and r_[2][1] == rb.id and len(r_[2][2]) == 1 and canon(r_[2][2][0]) in (("param", 1), ("deref", ("param", 1)))]
        if ctx.le(("param", 2), R) or own_call:
            how.append("guard cnt <= %s before %s" % (fmt_expr(R)[:50], nm))
        else:
            probs.append("`%s` is reached without a dominating guard cnt <= remaining() [= %s]" % (nm, fmt_expr(R)[:60]))
    return probs, how


def run(facts):
    res = Result("C3", "every Buf::advance impl panics when cnt > remaining(): own guard against its remaining() expression, delegation to an inner "
                       "advance, or a panicking std operation")
    n = 0
    for im in facts.impls:
        if im.get("trait") != BUF:
            continue
        adv = [i for i in im["items"] if i["name"] == "advance"]
        rem = [i for i in im["items"] if i["name"] == "remaining"]
        if not adv or not rem:
            continue
        n += 1
        b = facts.by_did[adv[0]["did"]]
        rb = facts.by_did[rem[0]["did"]]
        key = "impl Buf for %s::advance" % im["self_ty"]
        probs, how = advance_probs(facts, b, rb)
        if probs:
            # a guard that moved into a private helper (`ensure_available(avail, cnt)`): judge the inlined view
            for ib in views(facts, b):
                p2, h2 = advance_probs(facts, ib, rb)
                if not p2:
                    probs, how = [], h2 + ["with helpers inlined"]
                    break
        if probs:
            res.bad(key, b.loc(), "; ".join(probs))
        else:
            res.ok(key, b.loc(), "; ".join(sorted(set(how))), nontrivial=True)
    res.floor("advance_impls", n, 8)
    return res
