"""A15 RECLAIM-TOTAL (C08, last sentence): an *empty* BytesMut that is the *only* handle on its allocation can always
take the whole allocation back.

  for every n <= allocation size:  try_reclaim(n) returns true   and   reserve(n) does not allocate

Decided on the reservation helper (fn(&mut BytesMut, usize, bool) -> bool; when it has been reshaped, on the inlined
views of try_reclaim / reserve) by abstract interpretation in the linear-inequality domain of rules/lin.py with one
state per control-flow path (the function has no loops):

  hypotheses   H1  self.len == 0
               H2  every uniqueness test on the handle's own control block answers "unique"
                   (Shared::is_unique(..) == true, a load of its reference count == 1)
               H3  additional <= A  and  A <= isize::MAX  for the allocation size A of either representation:
                   KIND_VEC  A = self.cap + get_vec_pos(self)      (the invariant A8c keeps at every pointer move,
                                                                   and the capacity rebuild_vec restores, A4)
                   KIND_ARC  A = capacity(&(*self.data).vec)
  bad exits    (a) every path that returns `false`
               (b) every path that reaches a byte-buffer allocation (Vec::with_capacity / reserve / reserve_exact / ...)

Each path to a bad exit must be *refuted*: the conjunction of the hypotheses with the relations on the edges the path takes
(evaluated along the path; only the edges taken before the first state write, after which field reads no longer denote
the values the hypotheses speak about) has no solution.  A bad exit that stays reachable is reported with the first
condition on the path that the hypotheses do not exclude.  Too strong a reclaim test (`>` for `>=`, the wrong field, a
forgotten `offset`) is exactly what leaves such a path open; too weak a test is the business of A8.
"""
from .base import Result, RuleError
from .facts import callee
from .flow import (PathExprBuilder, ExprBuilder, enumerate_paths, feasible_paths_to, canon, fmt_expr, normalize_cmp,
                   walk, cfg_of, relations_at)
from .lin import State, ISIZE_MAX
from .r_a8 import reserve_helper, reserve_roots, writes_of, HANDLE

ALLOCATING = {"with_capacity": "Vec::with_capacity", "reserve": "Vec::reserve", "reserve_exact": "Vec::reserve_exact",
              "try_reserve": "Vec::try_reserve", "try_reserve_exact": "Vec::try_reserve_exact", "to_vec": "to_vec",
              "into_boxed_slice": "Vec::into_boxed_slice", "shrink_to_fit": "Vec::shrink_to_fit", "resize": "Vec::resize",
              "extend_from_slice": None, "from_iter": "from_iter", "alloc": "alloc", "realloc": "realloc"}
WRITING_CALLS = ("copy_nonoverlapping", "copy", "set_len", "reserve", "extend_from_slice", "set_vec_pos", "release_shared",
                 "with_capacity", "promote_to_shared")


def path_rels(body, facts, path, upto=None):
    """relations on the edges of `path` (operands evaluated along the path, crate getters inlined); `upto` = number of
    leading edges to use"""
    pe = PathExprBuilder(body, facts, path, inline=True)
    out = []
    edges = list(zip(path, path[1:]))
    if upto is not None:
        edges = edges[:upto]
    for (s_, d_) in edges:
        t = body.blocks[s_]["term"]
        loc = (s_, len(body.blocks[s_]["stmts"]))
        if t["k"] == "switch":
            c = pe.operand(t["discr"], loc)
            vals = [v for v, _ in t["targets"]]
            is_int = t["discr_ty"] in ("usize", "u8", "u16", "u32", "u64", "u128", "isize", "i8", "i16", "i32", "i64", "i128")
            hit = [v for v, dst in t["targets"] if dst == d_]
            if hit and d_ != t["otherwise"]:
                out.append(normalize_cmp(c, ("eqint", hit[0]) if is_int else ("eq", hit[0])))
            elif d_ == t["otherwise"]:
                if t["discr_ty"] == "bool" and len(vals) == 1:
                    out.append(normalize_cmp(c, ("eq", 1 - vals[0])))
                elif is_int:
                    out.append(normalize_cmp(c, ("neint", tuple(vals))))
                else:
                    out.append(normalize_cmp(c, ("notin", tuple(vals))))
        elif t["k"] == "assert" and t.get("target") == d_:
            c = pe.operand(t["cond"], loc)
            out.append(normalize_cmp(c, ("eq", 1 if t["expected"] else 0)))
    return out


def mentions_self(e, depth=0):
    return any(x == ("param", 1) for x in walk(e))


def vec_allocs(b, facts):
    """allocation size of the inline-Vec form as the function itself states it: `rebuild_vec(ptr, len, cap, off)` restores a
    Vec of capacity cap + off (A4 checks that formula inside rebuild_vec)"""
    eb = ExprBuilder(b, facts, inline=True)
    out = []
    for bi, t in b.calls():
        fn = callee(t)
        if fn and fn["name"] == "rebuild_vec" and len(t["args"]) == 4 and not b.blocks[bi]["cleanup"]:
            loc = (bi, len(b.blocks[bi]["stmts"]))
            out.append(canon(("bin", "Add", eb.operand(t["args"][2], loc), eb.operand(t["args"][3], loc))))
    return out


MODE = ["empty"]


def hypotheses(rels, vec_alloc=()):
    """H1-H3 instantiated for the atoms that occur in `rels`.  MODE "empty": len == 0 and n <= A (C08, last sentence of C18).
    MODE "recycle" (C18): the dead prefix in front of the view is at least as long as the live bytes (off >= len) and
    len + n <= A - the situation a recycling loop is in whenever its buffer runs out after most of it has been consumed."""
    base = ("deref", ("param", 1))
    ln, cap, add = ("field", base, "len"), ("field", base, "cap"), ("param", 2)
    recycle = MODE[0] == "recycle"
    amortised = MODE[0] == "amortised"
    hyp = [] if (recycle or amortised) else [("eq", ln, ("const", 0))]
    offs = set()
    allocs = []
    uniq = set()
    loads = set()
    vecpos = set()
    for r in rels:
        for side in r[1:]:
            if not isinstance(side, tuple):
                continue
            for x in walk(side):
                if not (isinstance(x, tuple) and x and x[0] == "call"):
                    continue
                nm = x[1].rsplit("::", 1)[-1]
                if nm == "capacity" and "Vec" in x[1] and mentions_self(x) and any(isinstance(y, tuple) and y and y[0] == "field" and y[2] == "data" for y in walk(x)):
                    allocs.append(canon(x))
                if nm == "is_unique" and mentions_self(x):
                    uniq.add(canon(x))
                if nm == "load" and "tomic" in x[1] and mentions_self(x):
                    loads.add(canon(x))
                if nm == "get_vec_pos" and mentions_self(x):
                    vecpos.add(canon(x))
                if nm == "offset_from" and mentions_self(x):
                    offs.add(canon(x))
    if vec_alloc:
        allocs.extend(vec_alloc)
    else:
        for v in vecpos or {("call", "bytes_mut::BytesMut::get_vec_pos", (("param", 1),))}:
            allocs.append(("bin", "Add", cap, v))
    if amortised:
        allocs = []         # MODE "amortised" (C18): only H2 - the handle is alone on its allocation; nothing is assumed about sizes
    for a in allocs:
        hyp.append(("le", ("bin", "Add", ln, add), a) if recycle else ("le", add, a))
        hyp.append(("le", a, ("const", ISIZE_MAX)))
        if recycle and isinstance(a, tuple) and a[0] == "bin" and a[1] == "Add" and a[2] == cap:
            offs.add(a[3])
    if recycle:
        for o in offs | vecpos:
            hyp.append(("le", ln, o))
    for u in uniq:
        hyp.append(("truth", u, 1))
    for l in loads:
        hyp.append(("eq", l, ("const", 1)))
    return hyp


def first_open(rels, hyp):
    """the first relation on the path that the hypotheses (with the relations before it) do not exclude - for the report"""
    for i, r in enumerate(rels):
        st = State(hyp + rels[:i + 1])
        if st.refuted():
            return None
    # nothing refutes: name the last arithmetic condition
    for r in reversed(rels):
        if r[0] in ("lt", "le") or (r[0] == "truth" and not (isinstance(r[1], tuple) and r[1] and r[1][0] in ("param", "ovf", "const"))):
            return r
    return rels[-1] if rels else None


def fmt_rel(r):
    if r is None:
        return "-"
    if r[0] == "truth":
        return "%s == %s" % (fmt_expr(r[1])[:110], r[2])
    op = {"lt": "<", "le": "<=", "eq": "==", "ne": "!="}.get(r[0], r[0])
    return "%s %s %s" % (fmt_expr(r[1])[:90], op, fmt_expr(r[2])[:90] if isinstance(r[2], tuple) else r[2])


def write_blocks(b, facts):
    eb = ExprBuilder(b, facts, inline=False)
    wb = set()
    for w in writes_of(b, facts, eb):
        if w["kind"] == "write":
            wb.add(w["bb"])
    for bi, t in b.calls():
        fn = callee(t)
        if fn and fn["name"] in WRITING_CALLS:
            wb.add(bi)
    return wb


def alloc_blocks(b):
    out = []
    for bi, t in b.calls():
        if b.blocks[bi]["cleanup"]:
            continue
        fn = callee(t)
        if not fn:
            continue
        label = ALLOCATING.get(fn["name"])
        p = (fn.get("res") or fn).get("path", "")
        if label and ("Vec" in p or "vec" in p or "alloc::alloc" in p or "slice" in p):
            out.append((bi, label))
    return out


EXACT_SIZE = ("Vec::with_capacity", "to_vec", "from_iter", "alloc", "Vec::reserve_exact", "Vec::try_reserve_exact")


def who():
    if MODE[0] == "amortised":
        return "a sole owner"
    return "a sole owner whose dead prefix covers its live bytes" if MODE[0] == "recycle" else "an empty sole owner"


def who_long():
    if MODE[0] == "amortised":
        return "a BytesMut that is alone on its allocation (unshared inline Vec, or every uniqueness test answers unique)"
    return ("a BytesMut that is alone on its allocation and has at least as many consumed bytes in front of its view as live bytes in it (off >= len)"
            if MODE[0] == "recycle" else "an empty BytesMut that is alone on its allocation")


def fits():
    if MODE[0] == "amortised":
        return "a sole owner may only grow its own buffer through `Vec::reserve` (amortised doubling); an exact-size allocation per overflow makes the number of allocations grow with the history"
    return "len + n <= allocation size" if MODE[0] == "recycle" else "n <= allocation size"


def tag():
    if MODE[0] == "amortised":
        return " (amortised growth)"
    return " (recycling)" if MODE[0] == "recycle" else ""


def judge(facts, b, bid, want_false=True, want_alloc=True, ctx_false=(), ctx_alloc=()):
    """-> [(key, ok, text, extra)]; ctx_* = relations that hold whenever the helper is entered from try_reclaim / reserve"""
    out = []
    ctx_false, ctx_alloc = list(ctx_false), list(ctx_alloc)
    va = vec_allocs(b, facts)
    wb = write_blocks(b, facts)

    def usable_edges(path):
        for i, bi in enumerate(path):
            if bi in wb:
                return i            # edges leaving blocks before the first writing block
        return None
    if want_false:
        n = n_ref = 0
        for path in enumerate_paths(b, limit=8000):
            val = None
            for bi in path:
                for s_ in b.blocks[bi]["stmts"]:
                    if s_["k"] == "assign" and s_["pl"]["l"] == 0 and not s_["pl"]["p"] and s_["rv"]["k"] == "use" and s_["rv"]["op"]["k"] == "const":
                        val = s_["rv"]["op"].get("v")
            if val is None:
                e = canon(PathExprBuilder(b, facts, path).local(0, (path[-1], len(b.blocks[path[-1]]["stmts"]))))
                if isinstance(e, tuple) and e and e[0] == "const":
                    val = e[1]
            if val not in (0, False):
                continue
            n += 1
            rels = path_rels(b, facts, path, usable_edges(path))
            hyp = hypotheses(rels + ctx_false, va) + ctx_false
            if State(hyp + rels).refuted():
                n_ref += 1
                continue
            open_ = first_open(rels, hyp)
            out.append(("%s|returns false for %s|%s" % (bid, who(), fmt_rel(open_)), False,
                        "try_reclaim(n) can return false for %s although %s: "
                        "the path through `%s` is not excluded by the hypotheses" % (who_long(), fits(), fmt_rel(open_)),
                        {"path": "bb" + "->bb".join(str(x) for x in path), "relations": [fmt_rel(r) for r in rels]}))
        out.append(("%s|false paths%s" % (bid, tag()), n > 0, "%d paths return false, %d of them excluded for %s "
                    "(linear-inequality domain, one state per path)" % (n, n_ref, who()) if n else "no path returns false: nothing to decide (the helper has been reshaped beyond recognition)", None))
    if want_alloc:
        sites = alloc_blocks(b)
        if MODE[0] == "amortised":
            sites = [x for x in sites if x[1] in EXACT_SIZE]
        n_paths = n_ref = 0
        for (bi, label) in sites:
            bad = None
            for path in feasible_paths_to(b, bi, limit=4000):
                n_paths += 1
                rels = path_rels(b, facts, path, usable_edges(path[:-1]))
                hyp = hypotheses(rels + ctx_alloc, va) + ctx_alloc
                if State(hyp + rels).refuted():
                    n_ref += 1
                    continue
                bad = (path, rels, first_open(rels, hyp))
                break
            key = "%s|allocates for %s|%s" % (bid, who(), label)
            if bad:
                out.append((key + "|" + fmt_rel(bad[2]), False,
                            "reserve(n) can reach %s for %s although %s: the path through `%s` is not excluded"
                            % (label, who_long(), fits(), fmt_rel(bad[2])), {"path": "bb" + "->bb".join(str(x) for x in bad[0]), "relations": [fmt_rel(r) for r in bad[1]]}))
            else:
                out.append((key, True, "every path to this %s is excluded for %s" % (label, who()), None))
        out.append(("%s|allocation sites%s" % (bid, tag()), len(sites) > 0, "%d allocation sites, %d paths to them, %d excluded" % (len(sites), n_paths, n_ref), None))
    return out


WANTS_PROP = True


def abandoned_size_independent(res, facts):
    """C18: the fresh buffer allocated when the handle has to leave a buffer it still shares (`Vec::with_capacity` in the reservation
    helper) is sized from the request and the original-capacity hint only - never from the capacity of the buffer being left behind.
    If it grew with the abandoned buffer (`max(2 * old, needed)`), a recycling loop whose parts are retained for one round would
    replace every exhausted buffer by a larger one: peak memory grows with the number of rounds."""
    b0 = reserve_helper(facts)
    bodies = [b0] if b0 is not None else [v for (_, v) in reserve_roots(facts)]
    from .inline import views
    n = 0
    for b in bodies:
        cands = [b] + (list(views(facts, b, keep_names=("rebuild_vec", "offset_from", "is_unique", "get_vec_pos", "original_capacity_from_repr"))) if b0 is not None else [])
        verdict = None
        for v in cands:
            eb = ExprBuilder(v, facts, inline=True)
            bad = None
            sites = 0
            for bi, t in v.calls():
                fn = callee(t)
                if v.blocks[bi]["cleanup"] or fn is None or fn["name"] != "with_capacity" or not t["args"]:
                    continue
                sites += 1
                e = eb.operand(t["args"][0], (bi, len(v.blocks[bi]["stmts"])))        # raw: a phi still lists its alternatives
                for x in walk(e):
                    if isinstance(x, tuple) and x and ((x[0] == "call" and x[1].rsplit("::", 1)[-1] == "capacity") or
                                                      (x[0] == "field" and len(x) == 3 and x[2] == "cap")):
                        bad = (bi, x)
                    if isinstance(x, tuple) and x and x[0] == "call" and x[1].split("::")[0] in ("bytes_mut", "bytes") and facts.by_id.get(x[1]) \
                            and any(isinstance(a, tuple) and a and ((a[0] == "call" and a[1].rsplit("::", 1)[-1] == "capacity") or (a[0] == "field" and len(a) == 3 and a[2] == "cap")) for a in x[2]):
                        bad = (bi, x)
            if sites:
                verdict = (v, bad, sites)
                if bad is None:
                    break
        if verdict is None:
            continue
        n += 1
        v, bad, sites = verdict
        key = "%s|fresh buffer sized independently of the abandoned one" % b.id
        if bad:
            res.bad(key, b.loc(bad[0] if bad[0] < len(b.blocks) else None), "Vec::with_capacity in the reservation helper is sized from `%s`: the buffer that replaces a still-shared one grows "
                                                                       "with the buffer it leaves behind, so peak memory grows with the number of rounds" % fmt_expr(bad[1])[:70])
        else:
            res.ok(key, b.loc(), "%d with_capacity site(s), sized from the request and the original-capacity hint only" % sites, nontrivial=True)
    return n


def run(facts, prop=None):
    res = run_mode(facts, "empty")
    if prop == "C18":
        abandoned_size_independent(res, facts)
        r2 = run_mode(facts, "recycle")
        res.instances += r2.instances
        res.violations += r2.violations
        res.nontrivial += r2.nontrivial
        r3 = run_mode(facts, "amortised")
        res.instances += [i for i in r3.instances if "request handed over" not in i["key"]]
        res.violations += [v for v in r3.violations if "request handed over" not in v["key"]]
        res.nontrivial += r3.nontrivial
        res.decides += "; a sole owner never reaches an exact-size allocation (with_capacity / to_vec): its buffer grows through Vec::reserve only (amortised)"
        res.decides += "; the same for a sole owner whose consumed prefix is at least as long as its live bytes and len + n <= allocation size (the recycling case)"
    return res


def run_mode(facts, mode):
    MODE[0] = mode
    try:
        return run_one(facts)
    finally:
        MODE[0] = "empty"


def run_one(facts):
    res = Result("A15", "an empty BytesMut that is the only handle on its allocation can take all of it back: try_reclaim(n) is true and reserve(n) "
                        "does not allocate for every n up to the allocation size (linear-inequality domain over all paths of the reservation helper)")
    b0 = reserve_helper(facts)
    n_false = n_sites = 0
    if b0 is not None:
        loc = b0.loc()
        ctxs = {}
        # the public entry points hand the request over unchanged
        for name, flag in (("try_reclaim", 0), ("reserve", 1)):
            l = facts.by_id.get("bytes_mut::BytesMut::" + name, [])
            if len(l) != 1:
                raise RuleError("BytesMut::%s not found" % name)
            r = l[0]
            eb = ExprBuilder(r, facts, inline=False)
            calls = [(bi, t) for bi, t in r.calls() if (callee(t) or {}).get("res") and (callee(t)["res"] or {}).get("did") == b0.did]
            key = "%s|request handed over unchanged" % r.id
            if not calls:
                res.ok(key, r.loc(), "does not call the reservation helper directly (judged below if it reaches it)")
                continue
            okc = True
            for bi, t in calls:
                a = [canon(eb.operand(x, (bi, len(r.blocks[bi]["stmts"])))) for x in t["args"]]
                if len(a) != 3 or a[0] != ("param", 1) or a[1] != ("param", 2):
                    okc = False
            if okc and len(calls) == 1:
                # what the entry point has established when it enters the helper (its parameters are the helper's)
                ctxs[name] = [x for x in relations_at(r, calls[0][0], facts, inline=True) if x[0] in ("lt", "le", "eq", "ne")]
            (res.ok if okc else res.bad)(key, r.loc(), "calls the helper with (self, additional, _)" if okc else
                                         "the reservation helper is not called with the caller's own (self, additional): A15 cannot relate n to the request")
        wf_ = MODE[0] != "amortised"
        verdicts = judge(facts, b0, b0.id, want_false=wf_, ctx_false=ctxs.get("try_reclaim", ()), ctx_alloc=ctxs.get("reserve", ()) if wf_ else ())
        def n_sites_of(vs):
            for (k, ok, t, e) in vs:
                if "|allocation sites" in k and t[:1].isdigit():
                    return int(t.split()[0])
            return 0
        if any(not v[1] for v in verdicts) or n_sites_of(verdicts) < (1 if not wf_ else 2):
            # before reporting: the same function with its crate-local helpers inlined (a decision moved into a classifier fn, the
            # allocating tails moved into `grow_unshared_vec` / `move_to_fresh_vec`)
            from .inline import views
            for ib in views(facts, b0, keep_names=("rebuild_vec", "offset_from", "vptr", "release_shared", "is_unique", "get_vec_pos", "set_vec_pos", "kind")):
                alt = judge(facts, ib, b0.id, want_false=wf_, ctx_false=ctxs.get("try_reclaim", ()), ctx_alloc=ctxs.get("reserve", ()) if wf_ else ())
                if all(v[1] for v in alt):
                    verdicts = [(k, ok, t + " (with helpers inlined)", e) for (k, ok, t, e) in alt]
                    break
                if n_sites_of(verdicts) < (1 if not wf_ else 2) and n_sites_of(alt) > n_sites_of(verdicts):
                    # the function as written no longer contains the allocations: what the view says is the verdict
                    verdicts = [(k, ok, t + " (with helpers inlined)", e) for (k, ok, t, e) in alt]
    else:
        verdicts = []
        roots = reserve_roots(facts)
        loc = roots[0][0].loc()
        for (root, view), (wf, wa) in zip(roots, ((True, False), (False, True))):
            verdicts += judge(facts, view, root.id, want_false=wf and MODE[0] != "amortised", want_alloc=wa)
    for (key, ok, text, extra) in verdicts:
        if ok:
            res.ok(key, loc, text, nontrivial=True)
        else:
            res.bad(key, loc, text, **(extra or {}))
        if "|false paths" in key:
            n_false = int(text.split()[0]) if text[0].isdigit() else 0
        if "|allocation sites" in key:
            n_sites = int(text.split()[0]) if text[0].isdigit() else 0
    if MODE[0] != "amortised":
        res.floor("false-returning paths", n_false, 3)
        res.floor("allocation sites", n_sites, 2)
    else:
        res.floor("exact-size allocation sites", n_sites, 1)
    return res
