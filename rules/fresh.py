"""Freshness of guard facts: a branch condition that was established before a write to the state it speaks about says nothing
after that write.

The expression trees of flow.py are time-less: `(*self).cap` is one tree wherever it is read.  A relation taken from a dominating
branch (`at <= self.cap`) is therefore only usable at a later point if nothing in between can have changed the fields it mentions.
This module computes, per function,

  * which fields of which objects each block may write - direct stores `(*p).f = ..` / `x.f = ..`, and calls that receive `&mut obj`
    (crate callees through a transitive, field-sensitive summary; foreign callees: everything reachable from that reference);
  * for a guard edge (s -> d) and a use block bb: whether a writer of a field the condition mentions lies on a path d ->* w ->* bb.

flow.guards_at drops such guards, so every rule that reasons from dominating conditions (A6, A8, A13, A16, C3, C4, E1, E4, ...) stops
trusting a check that a later statement has invalidated (`assert!(n <= self.cap); self.split_off(k); unsafe { self.set_len(n) }`).
"""
from .facts import callee

PURE_NAMES = ("len", "is_empty", "capacity", "as_ptr", "as_ref", "deref", "borrow", "as_slice", "kind", "get_vec_pos", "remaining", "remaining_mut", "has_remaining",
              "has_remaining_mut", "chunk", "is_unique", "clone", "eq", "ne", "cmp", "partial_cmp", "hash", "fmt", "as_mut_ptr", "deref_mut", "as_mut", "borrow_mut",
              "as_mut_slice", "spare_capacity_mut", "chunk_mut", "as_uninit_slice_mut", "get_ref", "get_mut", "iter", "limit", "position", "load", "offset_from",
              "is_null", "add", "sub", "offset", "cast", "min", "max", "checked_add", "checked_sub", "saturating_sub", "saturating_add", "wrapping_add", "wrapping_sub",
              "unwrap", "expect", "unwrap_or", "ok", "map", "index", "index_mut", "get", "get_unchecked", "get_unchecked_mut", "first", "last", "into", "from", "try_from",
              "try_into", "new", "with_capacity", "to_vec", "to_be_bytes", "to_le_bytes", "to_ne_bytes", "from_be_bytes", "from_le_bytes", "from_ne_bytes", "fetch_add",
              "fetch_sub", "compare_exchange", "store", "swap")


BYTE_TYPES = ("u8", "[u8]", "core::mem::MaybeUninit<u8>", "[core::mem::MaybeUninit<u8>]", "buf::uninit_slice::UninitSlice", "()", "i8", "core::ffi::c_void")


def _norm(e):
    """canonical object an access path starts from / goes through: refs and derefs erased"""
    if not isinstance(e, tuple) or not e:
        return e
    if e[0] in ("ref", "deref"):
        return _norm(e[1])
    if e[0] == "cast":
        return _norm(e[2])
    if e[0] == "field" and len(e) == 3:
        return ("field", _norm(e[1]), e[2])
    return e


def split_path(e):
    """(root object, first field name or None) of a normalised access path"""
    e = _norm(e)
    first = None
    while isinstance(e, tuple) and e and e[0] == "field" and len(e) == 3:
        first = e[2]
        e = e[1]
    return e, first


class Summaries:
    """per crate function: fields of the objects behind its reference parameters that it may write: {(param index, field | "*")}"""
    def __init__(self, facts):
        self.facts = facts
        self.memo = {}

    def of(self, cb, stack=()):
        if cb.did in self.memo:
            return self.memo[cb.did]
        if cb.did in stack:
            return set()
        self.memo[cb.did] = set()
        out = set()
        from .flow import ExprBuilder
        eb = ExprBuilder(cb, self.facts, inline=False)
        for bi, blk in enumerate(cb.blocks):
            if blk["cleanup"]:
                continue
            for si, s in enumerate(blk["stmts"]):
                if s["k"] != "assign" or not s["pl"]["p"]:
                    continue
                pl = s["pl"]
                root, first = split_path(eb.place(pl, (bi, si)))
                if isinstance(root, tuple) and root and root[0] == "param" and "*" in pl["p"]:
                    out.add((root[1], first if first is not None else "*"))
            t = blk["term"]
            if t["k"] != "call":
                continue
            out |= self.call_writes(cb, bi, t, eb, stack + (cb.did,), as_params=True)
        for c in self.facts.children.get(cb.did, []):
            if c.kind == "closure":
                # a closure writes through what it captured; captured references to the parent's parameters are not tracked: assume it may
                sub = self.of(c, stack + (cb.did,))
                if sub:
                    for i in range(1, cb.arg_count + 1):
                        if cb.locals[i]["ty"].startswith(("&mut", "*mut")):
                            out.add((i, "*"))
        self.memo[cb.did] = out
        return out

    def call_writes(self, b, bi, t, eb, stack=(), as_params=False):
        """writes of one call terminator, as {(root object | param index, field | "*")}"""
        out = set()
        fn = callee(t)
        loc = (bi, len(b.blocks[bi]["stmts"]))
        muts = []
        for i, a in enumerate(t["args"]):
            if a["k"] not in ("copy", "move"):
                continue
            l = a["pl"]["l"]
            ty = b.locals[l]["ty"] if not a["pl"]["p"] else ""
            if ty.startswith("&mut") or ty.startswith("*mut"):
                pointee = ty.split("mut", 1)[1].strip()
                if pointee in BYTE_TYPES:
                    continue        # a pointer / slice of plain bytes: what is written through it is buffer contents, not anybody's bookkeeping
                muts.append((i, a))
        if not muts:
            return out
        sub = None
        if fn is not None:
            r = fn.get("res") or {}
            if r.get("local") and r.get("did") is not None:
                cb = self.facts.by_did.get(r["did"])
                if cb is not None:
                    sub = self.of(cb, stack)
            elif fn["name"] in PURE_NAMES and not (fn.get("res") is None and "res" in fn):
                sub = set()
        for (i, a) in muts:
            root, first = split_path(eb.operand(a, loc))
            if not isinstance(root, tuple):
                continue
            if as_params:
                if not (root and root[0] == "param"):
                    continue
                key = root[1]
            else:
                key = root
            if sub is None:
                out.add((key, first if first is not None else "*"))
            else:
                for (j, f) in sub:
                    if j == i + 1:
                        out.add((key, first if first is not None else f))
        return out


def writer_blocks(facts, body):
    """[(bb, {(root object, field | "*")})] for the non-cleanup blocks of `body` that may write object state"""
    k = "fresh_writers"
    if k in body._cache:
        return body._cache[k]
    sm = facts.__dict__.setdefault("_fresh_summaries", None)
    if sm is None:
        sm = Summaries(facts)
        facts.__dict__["_fresh_summaries"] = sm
    from .flow import ExprBuilder
    eb = ExprBuilder(body, facts, inline=False)
    out = []
    for bi, blk in enumerate(body.blocks):
        if blk["cleanup"]:
            continue
        w = set()
        for si, s in enumerate(blk["stmts"]):
            if s["k"] == "assign" and s["pl"]["p"] and any(isinstance(pe, dict) and "f" in pe for pe in s["pl"]["p"]):
                root, first = split_path(eb.place(s["pl"], (bi, si)))
                if isinstance(root, tuple) and first is not None:
                    w.add((root, first))
        t = blk["term"]
        if t["k"] == "call":
            w |= sm.call_writes(body, bi, t, eb)
        if w:
            out.append((bi, w))
    body._cache[k] = out
    return out


def mentions(cond):
    """{(root object, field | "*")} the truth of `cond` depends on (mutable state only: field reads and calls on objects)"""
    from .flow import walk
    out = set()
    for x in walk(cond):
        if not isinstance(x, tuple) or not x:
            continue
        if x[0] == "field" and len(x) == 3:
            root, first = split_path(x)
            if isinstance(root, tuple) and first is not None:
                out.add((root, first))
    return out


def _reaches_avoiding_edge(cfg, a, b, edge):
    """a ->+ b on a path that does not take the edge `edge`"""
    seen = set()
    st = [a]
    while st:
        x = st.pop()
        for y in cfg.succ[x]:
            if (x, y) == edge:
                continue
            if y == b:
                return True
            if y not in seen:
                seen.add(y)
                st.append(y)
    return False


def guard_survives(facts, body, cfg, d, cond, bb, s=None):
    """no writer of a field that `cond` mentions lies on a path from the guard's target block d to the use block bb.  A writer whose
    every way on to bb takes the guard edge s -> d again (the check at the top of a loop body, the write at its bottom) does not count:
    the condition is re-established after it."""
    ms = mentions(cond)
    if not ms:
        return True
    for (w, ws) in writer_blocks(facts, body):
        if w == bb:
            continue
        if not ((w == d or cfg.reaches(d, w)) and cfg.reaches(w, bb)):
            continue
        if s is not None and not _reaches_avoiding_edge(cfg, w, bb, (s, d)):
            continue
        for (root, f) in ms:
            if (root, f) in ws or (root, "*") in ws:
                return False
    return True
