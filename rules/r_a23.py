"""A23 EXTENT-EPOCH: the pointer and the lengths that make up one raw extent describe the same moment.

A raw slice / Vec is put together from a pointer into a buffer and integers read from the buffer's owner (`len()`, `capacity()`,
the handle's `len` / `cap` / vec position).  If the owner is changed between the two reads - `let cap = v.capacity(); v.reserve(64);
from_raw_parts_mut(v.as_mut_ptr().add(len), cap - len)` - the extent pairs the *new* buffer with the *old* size: too short (a full Vec
offers an empty chunk although it has room, C11) or too long (memory-unsafe, C02).  The trees of the other rules cannot see this:
`capacity(v)` is one tree before and after `reserve`.

Forward dataflow over MIR locations (gen / kill to a fixpoint; at joins "changed since" wins, "current" needs all paths):

  gen     pointer / integer observations of an owner R:  x.as_ptr() / x.as_mut_ptr() / handle.ptr  -> (R, ptr);
          x.len() / handle.len -> (R, len);  x.capacity() / handle.cap -> (R, cap);  get_vec_pos / handle.data -> (R, pos)
  copy    through moves, casts, arithmetic and calls (union of the operands' tags)
  change  a store to a handle field, a `Vec` method that changes len / capacity, a crate function that receives `&mut R` and may write
          those fields (field-sensitive transitive summary of rules/fresh.py), a foreign function that receives `&mut R`
  sink    slice::from_raw_parts(_mut)(p, n), UninitSlice::from_raw_parts_mut(p, n), Vec::from_raw_parts(p, l, c), rebuild_vec(p, l, c, o),
          ptr::copy / copy_nonoverlapping / write_bytes(.., n):   if p is a *current* pointer into R, no integer operand may rest on an
          observation of R's len / cap / pos that R has changed since (unless it also rests on a current one of the same kind).

Values captured before a change and used on their own (`self.cap += off` after `set_vec_pos(0)`) are not this rule's business: it only
asks that one extent is not assembled from two different states of its owner.
"""
from .base import Result
from .facts import callee
from .flow import ExprBuilder, cfg_of, canon, fmt_expr, in_debug_region
from . import roles
from .r_a21 import A21, is_rawptr_ty
from . import fresh

VEC_CHANGES = {"reserve": ("cap", "ptr"), "reserve_exact": ("cap", "ptr"), "try_reserve": ("cap", "ptr"), "try_reserve_exact": ("cap", "ptr"), "shrink_to_fit": ("cap", "ptr"),
               "shrink_to": ("cap", "ptr"), "push": ("len", "cap", "ptr"), "extend_from_slice": ("len", "cap", "ptr"), "extend": ("len", "cap", "ptr"),
               "resize": ("len", "cap", "ptr"), "resize_with": ("len", "cap", "ptr"), "insert": ("len", "cap", "ptr"), "append": ("len", "cap", "ptr"),
               "push_str": ("len", "cap", "ptr"), "set_len": ("len",), "truncate": ("len",), "clear": ("len",), "pop": ("len",), "remove": ("len",), "drain": ("len",),
               "split_off": ("len",), "swap_remove": ("len",), "retain": ("len",), "dedup": ("len",)}
FIELD_KIND = {"len": "len", "cap": "cap", "data": "pos", "ptr": "ptr"}
GETTER_KIND = {"len": "len", "capacity": "cap", "as_ptr": "ptr", "as_mut_ptr": "ptr", "get_vec_pos": "pos"}
PURE_OBS = ("len", "capacity", "as_ptr", "as_mut_ptr", "get_vec_pos", "kind", "is_empty", "as_ref", "deref", "as_slice", "remaining", "remaining_mut", "is_unique",
            "deref_mut", "as_mut", "spare_capacity_mut", "chunk", "chunk_mut", "as_mut_slice", "borrow", "borrow_mut", "clone", "eq", "ne", "fmt", "hash", "iter")


class A23:
    def __init__(self, facts):
        self.facts = facts
        self.a21 = A21(facts)
        self.handles = set(roles.handle_types(facts))
        self.summ = fresh.Summaries(facts)

    def analyse(self, b):
        eb = ExprBuilder(b, self.facts, inline=False)
        cfg = cfg_of(b)
        viol = {}
        stats = {"obs": 0, "chg": 0, "sinks": 0}

        def op_local(o):
            return o["pl"]["l"] if isinstance(o, dict) and o.get("k") in ("copy", "move") else None

        def tags_of(o, st):
            l = op_local(o)
            return st.get(l, frozenset()) if l is not None else frozenset()

        def change(st, own, kinds, why, bi):
            if not isinstance(own, tuple):
                return st
            out = {}
            for l, tgs in st.items():
                out[l] = frozenset((tg[0], tg[1], (why, bi)) if (tg[0] == own and tg[2] is None and (tg[1] in kinds or "*" in kinds)) else tg for tg in tgs)
            return out

        def transfer(bi, st, report):
            st = dict(st)
            blk = b.blocks[bi]
            for si, s in enumerate(blk["stmts"]):
                if s["k"] != "assign":
                    continue
                loc = (bi, si)
                rv, pl = s["rv"], s["pl"]
                ops = list(rv["ops"]) if rv["k"] == "agg" else [rv[k] for k in ("op", "a", "b") if isinstance(rv.get(k), dict)]
                u = frozenset()
                for o in ops:
                    u |= tags_of(o, st)
                if rv["k"] in ("ref", "rawptr", "discr", "len") and "pl" in rv:
                    u |= st.get(rv["pl"]["l"], frozenset())
                # an observation: a read of a handle's own field
                if rv["k"] == "use" and rv["op"]["k"] in ("copy", "move") and rv["op"]["pl"]["p"]:
                    last = rv["op"]["pl"]["p"][-1]
                    if isinstance(last, dict) and last.get("adt") in self.handles and last.get("n") in FIELD_KIND:
                        base = eb.place({"l": rv["op"]["pl"]["l"], "p": rv["op"]["pl"]["p"][:-1]}, loc)
                        u = frozenset([(self.a21.owner(base), FIELD_KIND[last["n"]], None)])
                        if report:
                            stats["obs"] += 1
                if pl["p"]:
                    last = pl["p"][-1]
                    if isinstance(last, dict) and last.get("adt") in self.handles and last.get("n") in FIELD_KIND:
                        base = eb.place({"l": pl["l"], "p": pl["p"][:-1]}, loc)
                        st = change(st, self.a21.owner(base), (FIELD_KIND[last["n"]],), "the store to .%s" % last["n"], bi)
                        if report:
                            stats["chg"] += 1
                    continue
                if u:
                    st[pl["l"]] = u
                elif pl["l"] in st:
                    del st[pl["l"]]
            t = blk["term"]
            if t["k"] != "call":
                return st
            loc = (bi, len(blk["stmts"]))
            fn = callee(t)
            d = t.get("dest")
            dl = d["l"] if isinstance(d, dict) and not d["p"] else None
            if fn is None:
                if dl is not None:
                    st.pop(dl, None)
                return st
            res = fn.get("res") or fn
            p = res.get("path", "")
            nm = fn["name"]
            # ---- sinks (before this call's own effect) ----
            if report and not in_debug_region(b, bi) and not blk["cleanup"]:
                pairs = []
                a = t["args"]
                if nm in ("from_raw_parts", "from_raw_parts_mut") and len(a) == 2:
                    pairs = [(a[0], a[1], "length")]
                elif nm in ("from_raw_parts", "from_raw_parts_in") and len(a) >= 3 and "Vec" in p:
                    pairs = [(a[0], a[1], "length"), (a[0], a[2], "capacity")]
                elif nm == "rebuild_vec" and len(a) == 4:
                    pairs = [(a[0], a[1], "length"), (a[0], a[2], "capacity"), (a[0], a[3], "offset")]
                elif nm in ("copy", "copy_nonoverlapping") and len(a) == 3 and p.startswith("core::"):
                    pairs = [(a[0], a[2], "count"), (a[1], a[2], "count")]
                elif nm == "write_bytes" and len(a) == 3 and p.startswith("core::"):
                    pairs = [(a[0], a[2], "count")]
                if pairs:
                    stats["sinks"] += 1
                for (P, N, what) in pairs:
                    cur_ptr = {tg[0] for tg in tags_of(P, st) if tg[1] == "ptr" and tg[2] is None}
                    nt = tags_of(N, st)
                    for tg in nt:
                        if tg[2] is not None and tg[1] != "ptr" and tg[0] in cur_ptr and not any(x[0] == tg[0] and x[1] == tg[1] and x[2] is None for x in nt):
                            key = "%s|%s: %s of %s read before %s" % (b.id, nm, what, tg[1], tg[2][0])
                            viol.setdefault(key, (b.loc(bi), "`%s` pairs a current pointer into %s with a %s computed from its %s as it was before %s (bb%d): the extent "
                                                             "mixes two states of its owner" % (nm, fmt_expr(tg[0])[:40], what, tg[1], tg[2][0], tg[2][1])))
            # ---- changes ----
            if t["args"] and not blk["cleanup"]:
                a0 = t["args"][0]
                a0l = op_local(a0)
                a0ty = b.locals[a0l]["ty"] if a0l is not None and not a0["pl"]["p"] else ""
                if ("alloc::vec::Vec" in p or "alloc::string::String" in p) and nm in VEC_CHANGES and a0ty.startswith("&mut"):
                    st = change(st, self.a21.owner(eb.operand(a0, loc)), VEC_CHANGES[nm], "`Vec::%s`" % nm, bi)
                    if report:
                        stats["chg"] += 1
                elif nm not in PURE_OBS or (res.get("local") and res.get("did") is not None):
                    ws = self.summ.call_writes(b, bi, t, eb)
                    for (root, f) in ws:
                        kinds = (FIELD_KIND.get(f, "*"),) if f != "*" else ("*",)
                        if f not in ("*",) and f not in FIELD_KIND:
                            # a field of something that contains the owner (`self.inner` ...): what lies behind it may have changed
                            kinds = ("*",)
                        own = self.a21.owner(root)
                        st = change(st, own, kinds, "`%s`" % nm, bi)
                        # a write below a sub-object also concerns owners rooted in it
                        if report:
                            stats["chg"] += 1
            # ---- result ----
            if dl is not None:
                kind = GETTER_KIND.get(nm)
                is_container = ("alloc::vec::Vec" in p or "alloc::string::String" in p or p.startswith(("bytes_mut::BytesMut::", "bytes::Bytes::")) or "UninitSlice" in p
                                or "slice" in p or "ManuallyDrop" in p)
                if kind and t["args"] and is_container and "NonNull" not in p and not (kind == "len" and "slice" in p and "UninitSlice" not in p):
                    own = self.a21.owner(eb.operand(t["args"][0], loc))
                    st[dl] = frozenset([(own, kind, None)])
                    if report:
                        stats["obs"] += 1
                else:
                    u = frozenset()
                    for a_ in t["args"]:
                        u |= tags_of(a_, st)
                    if u:
                        st[dl] = u
                    else:
                        st.pop(dl, None)
            return st

        from .flow import threaded_successors
        tsucc = threaded_successors(b)
        ins = {0: {}}
        work = [0]
        outs = {}
        it = 0
        while work and it < 20000:
            it += 1
            bi = work.pop()
            out = transfer(bi, ins.get(bi, {}), False)
            if outs.get(bi) == out:
                continue
            outs[bi] = out
            for d in tsucc.get(bi, ()):
                cur = ins.get(d)
                if cur is None:
                    ins[d] = dict(out)
                    work.append(d)
                    continue
                ch = False
                for l in set(out) | set(cur):
                    a, c_ = out.get(l, frozenset()), cur.get(l, frozenset())
                    new = frozenset(tg for tg in a | c_ if tg[2] is not None) | frozenset(tg for tg in a & c_ if tg[2] is None)
                    if new != c_:
                        if new:
                            cur[l] = new
                        else:
                            cur.pop(l, None)
                        ch = True
                if ch:
                    work.append(d)
        for bi in sorted(ins):
            if not b.blocks[bi]["cleanup"]:
                transfer(bi, ins[bi], True)
        return viol, stats


def run(facts):
    res = Result("A23", "one raw extent is assembled from one state of its owner: where slice::from_raw_parts(_mut) / Vec::from_raw_parts / rebuild_vec / ptr::copy* / "
                        "write_bytes receive a current pointer into R, no length / capacity / offset operand rests only on an observation of R (len, capacity, "
                        "vec position, handle fields) that R has changed since (forward must/may dataflow, field-sensitive change summaries)")
    a = A23(facts)
    n_obs = n_chg = n_sinks = n_fn = 0
    for b in facts.fn_bodies():
        if facts.is_test(b) or b.kind not in ("fn", "assoc_fn", "closure"):
            continue
        if not any(is_rawptr_ty(l["ty"]) for l in b.locals):
            continue
        viol, st = a.analyse(b)
        if not st["sinks"]:
            continue
        n_fn += 1
        n_obs += st["obs"]
        n_chg += st["chg"]
        n_sinks += st["sinks"]
        for key, (loc, text) in sorted(viol.items()):
            res.bad(key, loc, text)
        if not viol:
            res.ok("%s|extents from one state" % b.id, b.loc(), "%d extent sink(s), %d observation(s), %d change(s) of an owner" % (st["sinks"], st["obs"], st["chg"]),
                   nontrivial=bool(st["chg"] and st["obs"]))
    res.floor("extent sinks", n_sinks, 25)
    res.floor("owner observations in functions with sinks", n_obs, 40)
    return res


def run_deep(facts):
    """thorough tier: the same dataflow on every function with its crate-local callees spliced in (two levels)"""
    from .inline import inlined
    res = Result("A23+views", "A23 on the inlined views of every function (helpers spliced in, two levels)")
    a = A23(facts)
    n = 0
    for b in facts.fn_bodies():
        if facts.is_test(b) or b.kind not in ("fn", "assoc_fn"):
            continue
        ib = inlined(facts, b, depth=2)
        if not (ib._cache.get("inlined_from") or ()) or not any(is_rawptr_ty(l["ty"]) for l in ib.locals):
            continue
        viol, st = a.analyse(ib)
        if not st["sinks"]:
            continue
        n += 1
        for key, (loc, text) in sorted(viol.items()):
            res.bad(key + " (in the view of %s)" % b.id.rsplit("::", 1)[-1], b.loc(), text)
        if not viol:
            res.ok("%s|extents from one state in the inlined view" % b.id, b.loc(), "%d extent sink(s)" % st["sinks"], nontrivial=bool(st["chg"] and st["obs"]))
    res.floor("inlined views analysed", n, 8)
    return res
