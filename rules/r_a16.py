"""A16 EXPOSE-AFTER-WRITE: the length of a buffer grows only over bytes that were written just before.

`BytesMut::set_len` and `BufMut::advance_mut` are unsafe because they make bytes *visible*: their documented contract is
not only "within capacity" (the debug_assert! A6 reads) but "the bytes up to the new length are initialised".  For every
call of one of them from a *safe* function on a concrete crate target (BytesMut, `&mut [u8]`, `&mut [MaybeUninit<u8>]`)
the rule demands one of

  shrink   set_len(n) with n <= len on every path reaching the call (dominating guards; linear-inequality domain)
  fill     a raw or safe write of W bytes that starts at the first unexposed byte of the same target
           (`spare_capacity_mut()` / `chunk_mut()` start, `ptr + len`, the start of the remaining slice) dominates the call,
           and  n <= len + W  (set_len)  respectively  cnt <= W  (advance_mut)  holds there.

Calls made by `unsafe fn`s (the forwarding advance_mut impls) pass the obligation on to their callers; the three provided
loop methods of BufMut (generic receiver) are the subject of C5.  A violation means uninitialised or stale bytes become
readable through a safe API (C02), the handle shows bytes its history never put there (C01/C11), and an out-of-contract
`truncate`/`resize` argument is not the documented no-op (C13).
"""
from .base import Result, RuleError
from .facts import callee
from .flow import ExprBuilder, canon, fmt_expr, cfg_of, relations_at, walk
from .logic import uncast, is_call
from .lin import State
from .r_a6 import strip_ptr, reserve_postcondition
from .inline import resolve_sites

TARGETS = {
    "bytes_mut::BytesMut::set_len": ("set_len", "handle"),
    "<bytes_mut::BytesMut as buf::buf_mut::BufMut>::advance_mut": ("advance_mut", "handle"),
    "<&mut [u8] as buf::buf_mut::BufMut>::advance_mut": ("advance_mut", "slice"),
    "<&mut [core::mem::MaybeUninit<u8>] as buf::buf_mut::BufMut>::advance_mut": ("advance_mut", "slice"),
}
RAW_WRITES = {"write_bytes": (0, 2), "copy_nonoverlapping": (1, 2), "copy": (1, 2)}


def deref_of(recv):
    recv = canon(recv)
    if isinstance(recv, tuple) and recv and recv[0] == "ref":
        return recv[1]
    return ("deref", recv)


def starts_at_spare(dst, recv, kind):
    """dst (a pointer or a slice expression) denotes the first unexposed byte of the target `recv`"""
    d = strip_ptr(canon(dst))
    base = deref_of(recv)
    for _ in range(6):
        if not isinstance(d, tuple) or not d:
            return False
        if is_call(d, "as_mut_ptr") or is_call(d, "as_ptr") or is_call(d, "cast") or is_call(d, "uninit") or is_call(d, "as_uninit_slice_mut"):
            d = strip_ptr(d[2][0])
            continue
        if d[0] in ("ref",):
            d = d[1]
            continue
        if d[0] == "deref":
            inner = strip_ptr(d[1])
            if kind == "slice" and canon(d) == canon(base):
                return True
            d = inner
            continue
        break
    if kind == "handle":
        if is_call(d, "spare_capacity_mut") or is_call(d, "chunk_mut"):
            a = canon(d[2][0])
            return a == canon(recv) or deref_of(a) == base
        if is_call(d, "add") and len(d[2]) == 2:
            p, k = strip_ptr(d[2][0]), canon(uncast(d[2][1]))
            return p == ("field", base, "ptr") and k == ("field", base, "len")
        return False
    # slice cursor: the remaining slice itself, or its prefix `[..W]`
    if canon(d) in (canon(base), canon(recv)):
        return True
    if (is_call(d, "index_mut") or is_call(d, "get_unchecked_mut") or is_call(d, "split_at_mut")) and d[2]:
        s = strip_ptr(d[2][0])
        s = s[1] if isinstance(s, tuple) and s and s[0] == "ref" else s
        return canon(s) in (canon(base), canon(recv), ("deref", canon(recv)))
    return False


def prefix_len(dst):
    """length of `&mut s[..W]` / `s.split_at_mut(W).0`"""
    d = canon(dst)
    for x in walk(d):
        if (is_call(x, "index_mut") or is_call(x, "index")) and len(x[2]) == 2 and isinstance(x[2][1], tuple) and x[2][1][0] == "agg" and "RangeTo" in str(x[2][1][1]):
            return x[2][1][2][0]
    return None


def write_events(b, eb):
    out = []
    for bi, t in b.calls():
        if b.blocks[bi]["cleanup"]:
            continue
        fn = callee(t)
        if not fn:
            continue
        loc = (bi, len(b.blocks[bi]["stmts"]))
        nm = fn["name"]
        path = (fn.get("res") or fn).get("path", "")
        if nm in RAW_WRITES and ("ptr" in path or "intrinsics" in path):
            di, ci = RAW_WRITES[nm]
            if len(t["args"]) > max(di, ci):
                out.append((bi, nm, eb.operand(t["args"][di], loc), eb.operand(t["args"][ci], loc)))
        elif nm == "copy_from_slice" and len(t["args"]) == 2:
            src = eb.operand(t["args"][1], loc)
            out.append((bi, nm, eb.operand(t["args"][0], loc), ("call", "core::slice::<impl [T]>::len", (src,))))
        elif nm == "fill" and len(t["args"]) == 2:
            dst = eb.operand(t["args"][0], loc)
            w = prefix_len(dst)
            if w is not None:
                out.append((bi, nm, dst, w))
    return out


def judge_body(facts, b, only_blocks=None):
    out = []
    eb = ExprBuilder(b, facts, inline=True)
    cfg = cfg_of(b)
    events = None
    for bi, t in b.calls():
        if b.blocks[bi]["cleanup"] or (only_blocks is not None and bi not in only_blocks):
            continue
        fn = callee(t)
        if not fn:
            continue
        path = (fn.get("res") or fn).get("path", "")
        if path not in TARGETS or len(t["args"]) != 2:
            continue
        op, kind = TARGETS[path]
        loc = (bi, len(b.blocks[bi]["stmts"]))
        recv = canon(eb.operand(t["args"][0], loc))
        n = canon(eb.operand(t["args"][1], loc))
        base = deref_of(recv)
        ln = ("field", base, "len") if kind == "handle" else ("call", "core::slice::<impl [T]>::len", (base,))
        rels = [r for r in relations_at(b, bi, facts, inline=True) if r[0] in ("lt", "le", "eq", "ne", "truth")]
        rels = [r for r in rels if not (r[0] == "truth" and isinstance(r[1], tuple) and r[1] and r[1][0] == "ovf")]
        rels += reserve_postcondition(b, bi, facts, eb)
        site = {"bi": bi, "j": 0, "ok": False, "text": "", "what": "%s(%s)" % (op, fmt_expr(n)[:60])}
        if op == "set_len":
            if n == ("const", 0) or State(rels).entails(("le", n, ln)):
                site.update(ok=True, text="shrink: %s <= len on every path to the call" % fmt_expr(n)[:60], nontrivial=(n != ("const", 0)))
                out.append(site)
                continue
        if events is None:
            events = write_events(b, eb)
        best = None
        for (wbi, wnm, dst, W) in events:
            if not (cfg.dominates(wbi, bi)):
                continue
            if not starts_at_spare(dst, recv, kind):
                continue
            need = ("le", n, ("bin", "Add", ln, W)) if op == "set_len" else ("le", n, W)
            if canon(n) == canon(W) and op == "advance_mut" or State(rels).entails(need):
                best = (wnm, W)
                break
        if best:
            site.update(ok=True, nontrivial=True, text="fill: %s of %s bytes at the first unexposed byte dominates the call and covers %s" % (best[0], fmt_expr(best[1])[:50], fmt_expr(n)[:50]))
        else:
            site["text"] = ("%s(%s) makes bytes visible that no dominating write covers: neither `%s <= len` holds on every path nor does a write of at least that many bytes "
                            "starting at the first unexposed byte dominate the call" % (op, fmt_expr(n)[:80], fmt_expr(n)[:60]))
        out.append(site)
    return out


def run(facts):
    res = Result("A16", "the length of a BytesMut / slice cursor grows only over bytes written just before: every safe call of set_len / advance_mut on a concrete "
                        "target is a shrink (n <= len on every path) or is dominated by a write, starting at the first unexposed byte, that covers the growth")
    n_sites = 0
    n_generic = 0
    for b in facts.fn_bodies():
        if b.kind not in ("fn", "assoc_fn", "closure"):
            continue
        has = False
        for bi, t in b.calls():
            fn = callee(t)
            if fn and fn["name"] in ("set_len", "advance_mut") and not b.blocks[bi]["cleanup"]:
                path = (fn.get("res") or fn).get("path", "")
                if path in TARGETS:
                    has = True
                elif fn.get("res") is None and fn["name"] == "advance_mut" and b.safety != "unsafe":
                    n_generic += 1
        if not has or b.safety == "unsafe":
            continue
        sites = resolve_sites(facts, b, lambda v, only: judge_body(facts, v, only))
        for s in sites:
            n_sites += 1
            key = "%s|%s" % (b.id, s["what"])
            if s["ok"]:
                res.ok(key, b.loc(), s["text"], nontrivial=bool(s.get("nontrivial")))
            else:
                res.bad(key, b.loc(), s["text"])
    res.notes.append("%d advance_mut calls on a generic receiver in safe provided methods are the subject of C5 (same count copied and advanced)" % n_generic)
    res.floor("safe set_len/advance_mut sites on concrete targets", n_sites, 6)
    return res
