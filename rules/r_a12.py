"""A12 ZERO-COPY-EFFECT — no byte-buffer allocation and no byte copy is reachable (crate call graph,
vtable slot calls expanded to every function bound to that slot) from any zero-copy operation, apart
from path-qualified exemptions that are themselves verified; result pointers are derived from the
source pointer by addition only."""
from .base import Result, RuleError
from .facts import callee
from .flow import ExprBuilder, cfg_of, relations_at, canon, walk, fmt_expr
from . import roles
from .r_o3 import O3

ALLOC_CALLS = {
    "alloc::slice::<impl [T]>::to_vec": "to_vec",
    "alloc::vec::Vec::<T>::with_capacity": "Vec::with_capacity",
    "alloc::vec::Vec::<T, A>::reserve": "Vec::reserve",
    "alloc::vec::Vec::<T, A>::reserve_exact": "Vec::reserve_exact",
    "alloc::vec::Vec::<T, A>::extend_from_slice": "Vec::extend_from_slice",
    "alloc::vec::Vec::<T, A>::resize": "Vec::resize",
    "alloc::vec::Vec::<T, A>::push": "Vec::push",
    "alloc::vec::from_elem": "vec![]",
    "alloc::vec::Vec::<T, A>::into_boxed_slice": "into_boxed_slice",
    "alloc::alloc::alloc": "alloc",
    "alloc::alloc::realloc": "realloc",
    "<alloc::vec::Vec<T, A> as core::clone::Clone>::clone": "Vec::clone",
    "<alloc::vec::Vec<T> as core::iter::FromIterator<T>>::from_iter": "Vec::from_iter",
    "alloc::boxed::Box::<[T]>::from": "Box<[T]>::from",
}
COPY_CALLS = {
    "core::ptr::copy": "ptr::copy",
    "core::ptr::copy_nonoverlapping": "ptr::copy_nonoverlapping",
    "core::intrinsics::copy": "ptr::copy",
    "core::intrinsics::copy_nonoverlapping": "ptr::copy_nonoverlapping",
    "core::slice::<impl [T]>::copy_from_slice": "copy_from_slice",
    "core::ptr::write_bytes": "write_bytes",
    "core::slice::<impl [T]>::clone_from_slice": "clone_from_slice",
    # std operations that shift the remaining bytes inside the buffer (the view would no longer start at its old address)
    "alloc::vec::Vec::<T, A>::drain": "Vec::drain",
    "alloc::vec::Vec::<T, A>::remove": "Vec::remove",
    "alloc::vec::Vec::<T, A>::insert": "Vec::insert",
    "alloc::vec::Vec::<T, A>::splice": "Vec::splice",
    "alloc::vec::Vec::<T, A>::retain": "Vec::retain",
    "alloc::vec::Vec::<T, A>::split_off": "Vec::split_off",
    "core::slice::<impl [T]>::copy_within": "copy_within",
    "core::slice::<impl [T]>::rotate_left": "rotate_left",
    "core::slice::<impl [T]>::rotate_right": "rotate_right",
}

# zero-copy operations by public name (def path suffix), with the vtable slot they may dispatch to
ZERO_COPY = [
    "<bytes::Bytes as core::clone::Clone>::clone", "bytes::Bytes::slice", "bytes::Bytes::slice_ref", "bytes::Bytes::split_off",
    "bytes::Bytes::split_to", "bytes::Bytes::truncate", "bytes::Bytes::clear", "<bytes::Bytes as buf::buf_impl::Buf>::advance",
    "<bytes::Bytes as buf::buf_impl::Buf>::copy_to_bytes", "bytes::Bytes::from_static", "bytes::Bytes::from_owner",
    "bytes_mut::BytesMut::split_off", "bytes_mut::BytesMut::split_to", "bytes_mut::BytesMut::split", "bytes_mut::BytesMut::truncate",
    "bytes_mut::BytesMut::clear", "<bytes_mut::BytesMut as buf::buf_impl::Buf>::advance", "bytes_mut::BytesMut::freeze",
    "bytes_mut::BytesMut::unsplit", "bytes_mut::<impl core::convert::From<bytes_mut::BytesMut> for bytes::Bytes>::from",
    "bytes::<impl core::convert::From<bytes::Bytes> for bytes_mut::BytesMut>::from",
]


def says_shared(r):
    """the relation is the *failed* outcome of a uniqueness test: !is_unique(..), count != 1, CAS(1 -> 0) not Ok"""
    def mentions(e, what):
        return any(isinstance(y, tuple) and y and y[0] in ("call", "ucall") and y[1].rsplit("::", 1)[-1] == what for y in walk(e))

    def c(e):
        e = canon(e)
        return e[1] if isinstance(e, tuple) and e and e[0] == "const" else None
    if r[0] == "truth":
        e = canon(r[1])
        top = e[1].rsplit("::", 1)[-1] if isinstance(e, tuple) and e and e[0] in ("call", "ucall") else None
        if top == "is_unique":
            return r[2] == 0
        if top == "is_ok" and mentions(e, "compare_exchange"):
            return r[2] == 0
        if top == "is_err" and mentions(e, "compare_exchange"):
            return r[2] == 1
        if isinstance(e, tuple) and e and e[0] == "discr" and mentions(e, "compare_exchange"):
            return r[2] == 1
        return False
    if r[0] in ("ne", "eq", "lt", "le") and len(r) > 2 and isinstance(r[2], tuple):
        a, b = canon(r[1]), canon(r[2])
        for (x, k) in ((a, c(b)), (b, c(a))):
            if k is not None and isinstance(x, tuple) and x and x[0] == "call" and x[1].endswith("::load"):
                if r[0] == "ne" and k == 1:
                    return True
        if r[0] == "lt" and c(a) == 1 and isinstance(b, tuple) and b and b[0] == "call" and b[1].endswith("::load"):
            return True
    return False


def simplify_ptr(e):
    """`b.add(offset_from(p, b))` (and the integer spelling `b.add((p as usize) - (b as usize))`) is `p`"""
    if not isinstance(e, tuple) or not e:
        return e
    e = tuple(simplify_ptr(x) if isinstance(x, tuple) else x for x in e)
    if e[0] == "call" and e[1].rsplit("::", 1)[-1] == "add" and len(e[2]) == 2:
        base, off = uncast_ptr(e[2][0]), e[2][1]
        while isinstance(off, tuple) and off and off[0] == "cast":
            off = off[2]
        if isinstance(off, tuple) and off and off[0] == "call" and off[1].rsplit("::", 1)[-1] in ("offset_from", "offset_from_unsigned", "byte_offset_from") and len(off[2]) == 2 \
                and uncast_ptr(off[2][1]) == base:
            return off[2][0]
        if isinstance(off, tuple) and off and off[0] == "bin" and off[1] == "Sub":
            a_, b_ = off[2], off[3]
            while isinstance(a_, tuple) and a_ and a_[0] == "cast":
                a_ = a_[2]
            while isinstance(b_, tuple) and b_ and b_[0] == "cast":
                b_ = b_[2]
            if uncast_ptr(b_) == base:
                return a_
    return e


def uncast_ptr(e):
    while isinstance(e, tuple) and e and e[0] == "cast" and e[1] in ("PtrToPtr", "IntToInt"):
        e = e[2]
    return e


def run(facts):
    res = Result("A12", "no byte-buffer allocation / byte copy is reachable from a zero-copy operation except on verified exempt edges "
                        "(into_boxed_slice under len == cap; copies in into_mut only when the uniqueness test failed or the family is immutable; "
                        "extend_from_slice in unsplit only when the halves are not adjacent)")
    o3 = O3(facts)
    vts = roles.vtables(facts)
    slot_fns = {}
    for name, slots in vts.items():
        for sn, s in slots.items():
            if s:
                d = s.get("did") if s.get("did") is not None else (s.get("res") or {}).get("did")
                slot_fns.setdefault(sn, set()).add(d)

    def guarded_unique(b, bi):
        return o3.guard_at(b, bi) is not None

    def exempt(b, bi, t, label, root, imm=True):
        """is the allocation/copy call at block bi of b on an exempt edge?  imm: the call chain from the zero-copy operation entered
        the function through the into_mut slot of an immutable family (the only way its copying helpers are exempt)"""
        rels = relations_at(b, bi, facts, inline=True)
        if label == "into_boxed_slice":
            for r in rels:
                if r[0] == "eq":
                    x, y = canon(r[1]), canon(r[2])
                    names = {x[1].rsplit("::", 1)[-1] if isinstance(x, tuple) and x[0] == "call" else None,
                             y[1].rsplit("::", 1)[-1] if isinstance(y, tuple) and y[0] == "call" else None}
                    if names == {"len", "capacity"}:
                        return "under len == capacity (no reallocation)"
            return None
        # inside an into_mut / into_vec slot family function: copies are allowed where the buffer is NOT uniquely held
        if b.did in into_mut_family or b.parent_did in into_mut_family:
            if b.did in immutable_family_fns and imm:
                return "immutable family (static / owner-backed): is_unique is constant false, a copy is the documented behaviour"
            if not guarded_unique(b, bi):
                # must be positively on the failed edge of a uniqueness test
                for r in rels:
                    if says_shared(r):
                        return "failed edge of the uniqueness test (buffer is shared)"
                return None
            return None
        # unsplit: append only when try_unsplit reported Err
        if root.endswith("::unsplit"):
            merged_failed = any(r[0] in ("truth", "notin", "eq") and "try_unsplit" in str(canon(r[1])) for r in rels)
            if not merged_failed and b.id == root:
                # the merge written out in place (`if self.is_directly_followed_by(&other) { self.len += other.len; .. } else { copy }`): the copy
                # sits on the other side of the branch that merges (A8 decides that the merge side is taken exactly under adjacency)
                ebm = ExprBuilder(b, facts, inline=False)
                cfgm = cfg_of(b)
                for mbi, mblk in enumerate(b.blocks):
                    for msi, ms in enumerate(mblk["stmts"]):
                        if ms["k"] == "assign" and ms["pl"]["l"] == 1 and len(ms["pl"]["p"]) == 2 and ms["pl"]["p"][0] == "*" and isinstance(ms["pl"]["p"][1], dict) \
                                and str(ms["pl"]["p"][1].get("n")) == "len":
                            ev = canon(ebm.rvalue(ms["rv"], (mbi, msi), 0))
                            if isinstance(ev, tuple) and ev and ev[0] == "bin" and ev[1] == "Add" and any(
                                    isinstance(y, tuple) and y and y[0] == "field" and y[2] == "len" and ("param", 2) in list(walk(y)) for y in (ev[2], ev[3])):
                                if mbi != bi and not cfgm.reaches(mbi, bi) and not cfgm.reaches(bi, mbi):
                                    merged_failed = True
            # .. and only when `self` holds something: an empty handle takes `other` over as it is (no copy, no allocation - the documented
            # O(1) way to glue parts onto a fresh or cleared handle, which a recycling loop relies on, C18)
            def self_len(e):
                e = canon(e)
                while isinstance(e, tuple) and e and e[0] in ("ref", "deref"):
                    e = e[1]
                if isinstance(e, tuple) and e and e[0] == "field" and e[2] == "len":
                    x = e[1]
                    while isinstance(x, tuple) and x and x[0] in ("ref", "deref"):
                        x = x[1]
                    return x == ("param", 1)
                if isinstance(e, tuple) and e and e[0] == "call" and e[1].rsplit("::", 1)[-1] == "len" and e[2]:
                    x = e[2][0]
                    while isinstance(x, tuple) and x and x[0] in ("ref", "deref"):
                        x = x[1]
                    return x == ("param", 1)
                return False
            nonempty = False
            # (judged where the merge is attempted: the attempt itself takes `&mut self`, after it the guard is no fresh fact any more)
            rels_ne = list(rels)
            for cbi, ct in b.calls():
                cfn = callee(ct)
                if cfn is not None and cfn["name"] == "try_unsplit" and not b.blocks[cbi]["cleanup"] and cfg_of(b).dominates(cbi, bi):
                    rels_ne += relations_at(b, cbi, facts, inline=True)
            for r in rels_ne:
                if r[0] == "truth" and isinstance(r[1], tuple) and r[1] and r[1][0] == "call" and r[1][1].rsplit("::", 1)[-1] == "is_empty" and r[2] == 0:
                    x = canon(r[1][2][0])
                    while isinstance(x, tuple) and x and x[0] in ("ref", "deref"):
                        x = x[1]
                    nonempty = nonempty or x == ("param", 1)
                if len(r) > 2 and isinstance(r[1], tuple) and isinstance(r[2], tuple):
                    a_, b_ = canon(r[1]), canon(r[2])
                    if r[0] == "ne" and ((self_len(a_) and b_ == ("const", 0)) or (self_len(b_) and a_ == ("const", 0))):
                        nonempty = True
                    if r[0] == "lt" and a_ == ("const", 0) and self_len(b_):
                        nonempty = True
            if merged_failed and nonempty and b.id == root:
                return "Err edge of the merge (halves not adjacent), self not empty"
            if merged_failed and b.id != root:
                return "Err edge of the merge (halves not adjacent)"
            return None
        return None

    # families
    into_mut_family = set()
    immutable_family_fns = set()
    immutable_slot_fns = set()
    calls_of = {}
    for b in facts.fn_bodies():
        s = []
        for bi, t in b.calls():
            fn = callee(t)
            if fn is None:
                continue
            r = fn.get("res") or fn
            if r.get("local") and r.get("did") is not None:
                s.append((bi, r["did"]))
        calls_of[b.did] = s
    from .r_a2 import A2, get
    a2 = A2(facts)
    for name, slots in vts.items():
        fam = set()
        for sn in ("into_mut",):
            s = slots.get(sn)
            if not s:
                continue
            d = s.get("did") if s.get("did") is not None else (s.get("res") or {}).get("did")
            st = [d]
            while st:
                x = st.pop()
                if x in fam or x is None:
                    continue
                fam.add(x)
                st.extend(dd for _, dd in calls_of.get(x, []))
                st.extend(c.did for c in facts.children.get(x, []))
        into_mut_family |= fam
        s = slots.get("into_mut")
        if s:
            d = s.get("did") if s.get("did") is not None else (s.get("res") or {}).get("did")
            # immutable family (static / owner-backed memory): its is_unique slot is constant false, so a copy in into_mut is the
            # documented behaviour. (Classified by what the family *reports*, not by what its into_mut happens to do: A11 ties
            # the two together, and a reclaimable family whose into_mut starts copying must not exempt itself.)
            iu = slots.get("is_unique")
            const_false = False
            if iu:
                iud = iu.get("did") if iu.get("did") is not None else (iu.get("res") or {}).get("did")
                ib = facts.by_did.get(iud)
                if ib is not None:
                    from .flow import return_expr
                    const_false = canon(return_expr(ib, facts, inline=True)) == ("const", 0)
            if const_false:
                immutable_family_fns |= {d}
                immutable_slot_fns.add(d)
                # and its direct helper chain that is not shared with reclaimable families
    # helper functions reachable only from immutable families
    reach_from_reclaimable = set()
    for name, slots in vts.items():
        s = slots.get("into_mut")
        if not s:
            continue
        d = s.get("did") if s.get("did") is not None else (s.get("res") or {}).get("did")
        if d in immutable_family_fns:
            continue
        st = [d]
        while st:
            x = st.pop()
            if x in reach_from_reclaimable or x is None:
                continue
            reach_from_reclaimable.add(x)
            st.extend(dd for _, dd in calls_of.get(x, []))
    for d in list(immutable_family_fns):
        st = [d]
        while st:
            x = st.pop()
            if x is None:
                continue
            for _, dd in calls_of.get(x, []):
                if dd not in reach_from_reclaimable and dd not in immutable_family_fns and dd in into_mut_family:
                    immutable_family_fns.add(dd)
                    st.append(dd)

    n = 0
    # every method of `impl Clone for Bytes` is a zero-copy operation (`clone_from` must share, as `clone` does)
    more = []
    for im in facts.impls:
        if (im.get("trait") or "") == "core::clone::Clone" and im["self_ty"] == "bytes::Bytes":
            for it in im["items"]:
                bb_ = facts.by_did.get(it.get("did"))
                if bb_ is not None and bb_.id not in ZERO_COPY:
                    more.append(bb_.id)
    # .. and so is every `From<&'static ..> for Bytes` (the static data is viewed, never copied)
    for im in facts.impls:
        if im["self_ty"] == "bytes::Bytes" and (im.get("trait") or "") == "core::convert::From":
            for it in im["items"]:
                bb_ = facts.by_did.get(it.get("did"))
                if bb_ is not None and "From<&'static" in bb_.id and bb_.id not in ZERO_COPY and bb_.id not in more:
                    more.append(bb_.id)
    for z in ZERO_COPY + more:
        cands = facts.by_id.get(z, [])
        if len(cands) != 1:
            res.bad(z, "-", "zero-copy operation not found (renamed?)")
            continue
        root = cands[0]
        n += 1
        found = []
        exempted = []
        seen = set()
        st = [(root, None, False)]
        while st:
            b, via, imm = st.pop()
            imm = imm or (b.did in immutable_slot_fns)
            if (b.did, imm) in seen:
                continue
            seen.add((b.did, imm))
            for bi, t in b.calls():
                if b.blocks[bi]["cleanup"]:
                    continue
                fn = callee(t)
                if fn is None:
                    # vtable slot call -> all functions bound to that slot
                    eb = ExprBuilder(b, facts, inline=False)
                    f = eb.operand(t["func"], (bi, len(b.blocks[bi]["stmts"])))
                    x = f
                    while isinstance(x, tuple) and x[0] in ("deref", "ref"):
                        x = x[1]
                    if isinstance(x, tuple) and x[0] == "field" and x[2] in slot_fns:
                        for d in slot_fns[x[2]]:
                            cb = facts.by_did.get(d)
                            if cb is not None:
                                st.append((cb, b, imm))
                    continue
                r = fn.get("res") or fn
                p = r["path"]
                label = ALLOC_CALLS.get(p) or COPY_CALLS.get(p)
                if label is None and r.get("local") and r.get("did") is not None:
                    cb = facts.by_did.get(r["did"])
                    if cb is not None:
                        # is the *call* on an exempt edge (then nothing below it counts)?
                        ex = exempt(b, bi, t, "call", z, imm)
                        if ex:
                            exempted.append("%s -> %s: %s" % (b.id.rsplit("::", 1)[-1], cb.id.rsplit("::", 1)[-1], ex))
                            continue
                        st.append((cb, b, imm))
                        for c in facts.children.get(cb.did, []):
                            st.append((c, cb, imm))
                    continue
                if label is None:
                    continue
                # Vec::extend_from_slice etc. on a control-block typed thing does not exist; all are byte buffers here
                targ = " ".join(fn.get("args") or [])
                if label in ("Vec::push", "Vec::with_capacity", "Vec::reserve") and "u8" not in targ and "u8" not in r.get("full", ""):
                    continue
                ex = exempt(b, bi, t, label, z, imm)
                if ex:
                    exempted.append("%s in %s: %s" % (label, b.id.rsplit("::", 1)[-1], ex))
                else:
                    found.append("%s in %s (%s)" % (label, b.id, b.loc(bi)))
            for c in facts.children.get(b.did, []):
                st.append((c, b, imm))
        if found:
            res.bad(z, root.loc(), "byte allocation / copy reachable from a zero-copy operation: " + "; ".join(sorted(set(found))[:4]))
        else:
            res.ok(z, root.loc(), "no byte alloc/copy reachable through %d functions%s" % (len({d for d, _ in seen}), ("; exempt: " + "; ".join(sorted(set(exempted)))) if exempted else ""),
                   nontrivial=bool(exempted))
    res.floor("zero_copy_ops", n, 18)
    # the crate never wraps its own storage as an *owner*: `Bytes::from_owner` is for callers' types.  An owner-backed handle belongs to the
    # immutable family - is_unique() is constant false, into_mut / into_vec always copy - so a crate conversion that goes through it
    # (`Bytes::from_owner(bytes_mut)`) keeps the address but turns every later "unique" conversion into a copy (who-may-call: nobody inside)
    fo = facts.by_id.get("bytes::Bytes::from_owner", [])
    if len(fo) == 1:
        from .inline import callers_of
        cs = [c for c in callers_of(facts, fo[0].did) if not facts.is_test(c)]
        if cs:
            res.bad("bytes::Bytes::from_owner|not used inside the crate", cs[0].loc(), "%s wraps a value in an owner-backed handle: such a handle never reports unique and every "
                    "conversion out of it copies" % ", ".join(sorted(c.id for c in cs))[:300])
        else:
            res.ok("bytes::Bytes::from_owner|not used inside the crate", fo[0].loc(), "no crate function calls from_owner")
    else:
        res.bad("bytes::Bytes::from_owner|not used inside the crate", "-", "from_owner not found")
    # clone: the (ptr, len) given to the slot function are the (ptr, len) of every handle it can return, on every
    # path and through every helper (interprocedural role propagation: which parameters end up as a handle's ptr / len)
    role_memo = {}

    def view_params(b, stack=()):
        """(set of params of b that become a handle's ptr, set that become its len, problems)"""
        if b.did in role_memo:
            return role_memo[b.did]
        if b.did in stack:
            return (set(), set(), [])
        pp, lp, probs = set(), set(), []
        eb = ExprBuilder(b, facts, inline=False)
        for bi, blk in enumerate(b.blocks):
            if blk["cleanup"]:
                continue
            for si, s_ in enumerate(blk["stmts"]):
                if s_["k"] == "assign" and s_["rv"]["k"] == "agg" and s_["rv"].get("adt") in roles.handle_types(facts):
                    f = dict(zip(s_["rv"]["fields"], s_["rv"]["ops"]))
                    pe = uncast_ptr(canon(eb.operand(f["ptr"], (bi, si))))
                    le_ = canon(eb.operand(f["len"], (bi, si)))
                    if pe[0] == "param":
                        pp.add(pe[1])
                    elif not (pe[0] == "call" and pe[1].endswith("as_ptr")):
                        probs.append("%s builds a handle whose ptr is %s" % (b.id, fmt_expr(pe)[:60]))
                    if le_[0] == "param":
                        lp.add(le_[1])
                    elif not (le_[0] == "call" and le_[1].endswith("::len")):
                        probs.append("%s builds a handle whose len is %s" % (b.id, fmt_expr(le_)[:60]))
            t = blk["term"]
            if t["k"] != "call":
                continue
            fn = callee(t)
            if fn is None:
                continue
            r = fn.get("res") or fn
            if not r.get("local") or r.get("did") is None:
                continue
            cb = facts.by_did.get(r["did"])
            if cb is None or cb.j.get("output") not in roles.handle_types(facts):
                # from_static(slice::from_raw_parts(ptr, len)) etc.: handled through as_ptr/len forms above
                if cb is None or cb.id.rsplit("::", 1)[-1] in ("abort",):
                    continue
            cpp, clp, cprobs = view_params(cb, stack + (b.did,))
            probs.extend(cprobs)
            loc = (bi, len(blk["stmts"]))
            for (params, acc, what) in ((cpp, pp, "ptr"), (clp, lp, "len")):
                for i in params:
                    if isinstance(i, tuple):
                        # the callee's handle pointer is an expression over its parameters (`buf.add(off)`): with this call's arguments it must
                        # come back to one of our own parameters (`buf + (ptr - buf)` is `ptr`) or stay such an expression
                        from .flow import subst_params
                        e_ = simplify_ptr(canon(subst_params(i[1], [canon(eb.operand(x, loc)) for x in t["args"]])))
                        e_ = uncast_ptr(e_)
                        if e_[0] == "param":
                            acc.add(e_[1])
                        elif all(y[0] != "call" or y[1].rsplit("::", 1)[-1] in ("add", "offset_from", "cast", "sub") for y in walk(e_) if isinstance(y, tuple) and y and y[0] == "call"):
                            acc.add(("expr", e_))
                        else:
                            probs.append("%s passes %s as the %s of the handle built by %s" % (b.id.rsplit("::", 1)[-1], fmt_expr(e_)[:50], what, cb.id.rsplit("::", 1)[-1]))
                        continue
                    if i - 1 < len(t["args"]):
                        a = uncast_ptr(canon(eb.operand(t["args"][i - 1], loc)))
                        if what == "ptr" and a[0] == "call" and a[1].rsplit("::", 1)[-1] == "add" and len(a[2]) == 2 and all(
                                y[0] in ("param", "call", "cast") for y in walk(a) if isinstance(y, tuple) and y) and any(y[0] == "param" for y in walk(a)):
                            acc.add(("expr", a))
                            continue
                        if a[0] == "param":
                            acc.add(a[1])
                        elif what == "ptr" and a[0] == "call" and a[1] in ("core::slice::from_raw_parts",):
                            pass
                        elif a[0] == "call" and a[1] == "core::slice::from_raw_parts":
                            pass
                        else:
                            # a (ptr,len)-slice built from the view parameters is fine (static_clone)
                            inner = [x for x in walk(a) if x[0] == "param"]
                            if a[0] == "call" and a[1].startswith("core::slice::from_raw_parts"):
                                continue
                            probs.append("%s passes %s as the %s of the handle built by %s" % (b.id.rsplit("::", 1)[-1], fmt_expr(a)[:50], what, cb.id.rsplit("::", 1)[-1]))
        role_memo[b.did] = (pp, lp, probs)
        return role_memo[b.did]

    for name, slots in sorted(vts.items()):
        s = slots.get("clone")
        if not s:
            continue
        d = s.get("did") if s.get("did") is not None else (s.get("res") or {}).get("did")
        cb = facts.by_did[d]
        pp, lp, probs = view_params(cb)
        key = "%s.clone|view roles" % name
        # slot signature: fn(data, ptr, len)
        ex_ = [x for x in pp if isinstance(x, tuple)]
        pp = {x for x in pp if not isinstance(x, tuple)}
        for x in ex_:
            probs.append("a handle's ptr is %s, which does not come back to the slot's `ptr`" % fmt_expr(x[1])[:60])
        if pp - {2}:
            probs.append("parameter(s) %s of the slot function end up as a handle's ptr (only `ptr` may)" % sorted(pp - {2}))
        if lp - {3}:
            probs.append("parameter(s) %s of the slot function end up as a handle's len (only `len` may)" % sorted(lp - {3}))
        if probs:
            res.bad(key, cb.loc(), "; ".join(sorted(set(probs))[:3]))
        else:
            res.ok(key, cb.loc(), "on every path and through every helper the returned handle's (ptr, len) are the slot's (ptr, len)", nontrivial=True)
    # clone slot fns return their (ptr, len) parameters
    for name, slots in sorted(vts.items()):
        s = slots.get("clone")
        if not s:
            continue
        d = s.get("did") if s.get("did") is not None else (s.get("res") or {}).get("did")
        st = [facts.by_did[d]]
        seen = set()
        aggs = []
        while st:
            b = st.pop()
            if b.did in seen:
                continue
            seen.add(b.did)
            eb = ExprBuilder(b, facts, inline=False)
            for bi, blk in enumerate(b.blocks):
                for si, s_ in enumerate(blk["stmts"]):
                    if s_["k"] == "assign" and s_["rv"]["k"] == "agg" and s_["rv"].get("adt") in roles.handle_types(facts):
                        f = dict(zip(s_["rv"]["fields"], s_["rv"]["ops"]))
                        aggs.append((b, bi, canon(eb.operand(f["ptr"], (bi, si))), canon(eb.operand(f["len"], (bi, si)))))
            for bi, dd in calls_of.get(b.did, []):
                cb = facts.by_did.get(dd)
                if cb is not None and cb.id.rsplit("::", 1)[-1] not in ("abort",):
                    st.append(cb)
        bad = []
        for (b, bi, p, l) in aggs:
            okp = p[0] == "param" or (p[0] == "call" and p[1].endswith("as_ptr"))
            okl = l[0] == "param" or (l[0] == "call" and l[1].endswith("::len"))
            if not (okp and okl):
                bad.append("%s: ptr=%s len=%s" % (b.id, fmt_expr(p), fmt_expr(l)))
        key = "%s.clone|same view" % name
        if bad or not aggs:
            res.bad(key, "-", "clone does not return the (ptr, len) it was given: %s" % "; ".join(bad))
        else:
            res.ok(key, facts.by_did[d].loc(), "every handle built on a clone path carries the incoming (ptr, len)")
    return res
