"""A13 VIEW-CONSTRUCTION — the (ptr, len) of every `Bytes` that is built or re-based is that of the bytes it
is supposed to show:

 * every `Bytes{..}` aggregate takes (ptr, len) from one source: (s.as_ptr(), s.len()) of one slice,
   (v.as_mut_ptr(), v.len()) of one Vec, the slot function's own (ptr, len), a box's raw parts, or (p, 0);
 * `Bytes::slice` maps the range bounds correctly (Included n -> n / n+1, Excluded n -> n+1 / n,
   Unbounded -> 0 / len), returns len = end - begin at ptr + begin;
 * `Bytes::slice_ref` slices at (sub.ptr - self.ptr) .. (that + sub.len) (the containment asserts are redundant
   with those of `slice` for behaviour other than the panic message, so they are not demanded here);
 * empty results of split_off / split_to keep the address (`self.ptr + at` resp. `self.ptr`).
"""
from .base import Result, RuleError
from .facts import callee
from .flow import ExprBuilder, cfg_of, canon, walk, fmt_expr, relations_at, return_expr
from .logic import Ctx, uncast, is_call, const_of
from .r_a6 import strip_ptr
from .inline import views

BYTES = "bytes::Bytes"


def strip_ref(e):
    while isinstance(e, tuple) and e and e[0] in ("ref", "deref"):
        e = e[1]
    return e


def root(e):
    """the value an access path (fields, casts, references) starts from"""
    while isinstance(e, tuple) and e:
        if e[0] in ("ref", "deref", "field"):
            e = e[1]
        elif e[0] == "cast":
            e = e[2]
        else:
            break
    return e


def run(facts):
    res = Result("A13", "every Bytes aggregate takes (ptr, len) from one source; slice maps range bounds correctly; slice_ref offsets; empty split results keep the address")
    n = 0
    for b in facts.fn_bodies():
        eb = None
        cnt = 0
        for bi, blk in enumerate(b.blocks):
            for si, s in enumerate(blk["stmts"]):
                if s["k"] == "assign" and s["rv"]["k"] == "agg" and s["rv"].get("adt") == BYTES:
                    if eb is None:
                        eb = ExprBuilder(b, facts, inline=False)
                    n += 1
                    cnt += 1
                    f = {k: canon(eb.operand(v, (bi, si))) for k, v in zip(s["rv"]["fields"], s["rv"]["ops"])}
                    p, l = strip_ptr(f["ptr"]), uncast(f["len"])
                    key = "%s|Bytes{ptr,len}%s" % (b.id, "#%d" % cnt if cnt > 1 else "")
                    src_p = p[2][0] if (is_call(p, "as_ptr") or is_call(p, "as_mut_ptr") or is_call(p, "into_raw")) else None
                    src_l = l[2][0] if is_call(l, "len") else None
                    bad = None
                    if const_of(l) == 0:
                        how = "empty view"
                    elif src_p is not None:
                        # the pointer of a container: the length must be that container's len()
                        if src_l is None:
                            bad = "ptr is %s but len is %s, not the len() of the same value" % (fmt_expr(p)[:50], fmt_expr(l)[:50])
                        elif root(src_p) != root(src_l):
                            bad = "ptr and len come from different values: %s / %s" % (fmt_expr(p)[:50], fmt_expr(l)[:50])
                        else:
                            how = "(x.as_ptr(), x.len()) of one slice / Vec / Box"
                    elif p[0] == "param":
                        if l[0] == "param":
                            how = "(ptr, len) parameters passed through"
                        else:
                            bad = "ptr parameter passed through but len is %s" % fmt_expr(l)[:60]
                    else:
                        how = "derived view (extent decided by A6/A8)"
                    if bad is None:
                        res.ok(key, b.loc(bi, si), how)
                    else:
                        res.bad(key, b.loc(bi, si), "handle built from mismatched parts: " + bad)
    res.floor("bytes_aggregates", n, 7)
    check_slice(res, facts)
    check_slice_ref(res, facts)
    check_empty_splits(res, facts)
    return res


def with_fallback(res, facts, b, key, probs_fn, how, keep=()):
    """run a shape check on the function as written; before reporting, retry on the view with its crate-local
    helpers inlined (a helper extraction must not change the verdict)"""
    probs = probs_fn(b)
    note = ""
    if probs:
        for ib in views(facts, b, keep_names=keep):
            if not probs_fn(ib):
                probs, note = [], " (after inlining %s)" % ", ".join(x.rsplit("::", 1)[-1] for x in ib._cache["inlined_from"][:4])
                break
    if probs:
        res.bad(key, b.loc(), "; ".join(probs))
    else:
        res.ok(key, b.loc(), how + note, nontrivial=True)


def check_slice(res, facts):
    l = facts.by_id.get("bytes::Bytes::slice", [])
    if len(l) != 1:
        raise RuleError("Bytes::slice not found")
    with_fallback(res, facts, l[0], "bytes::Bytes::slice|bounds", lambda b: slice_probs(facts, b),
                  "bounds mapped (Included/Excluded/Unbounded) correctly; len = end - begin; ptr += begin; every result after both range checks")


def slice_probs(facts, b):
    eb = ExprBuilder(b, facts, inline=False)
    # find the two phi variables: begin and end, from the guards `begin <= end`, `end <= len`
    writes = {}
    for bi, blk in enumerate(b.blocks):
        for si, s in enumerate(blk["stmts"]):
            if s["k"] == "assign" and s["pl"]["p"] and isinstance(s["pl"]["p"][-1], dict) and s["pl"]["p"][-1].get("adt") == BYTES:
                writes[s["pl"]["p"][-1]["n"]] = (bi, si, eb.rvalue(s["rv"], (bi, si), 0))
    probs = []
    if "ptr" not in writes:
        # the clone is advanced through the crate's own primitive `inc_start(by)` (ptr += by, len -= by; the len is then overwritten): A20 decides
        # what inc_start does, here its operand is the amount the pointer moves by
        for bi, t in b.calls():
            fn = callee(t)
            if fn is not None and fn["name"] == "inc_start" and len(t["args"]) == 2 and not b.blocks[bi]["cleanup"]:
                loc = (bi, len(b.blocks[bi]["stmts"]))
                recv = eb.operand(t["args"][0], loc)
                writes["ptr"] = (bi, 0, ("call", "core::ptr::const_ptr::<impl *const T>::add", (("field", recv, "ptr"), eb.operand(t["args"][1], loc))))
    if "len" not in writes or "ptr" not in writes:
        probs.append("slice does not set len and ptr of the clone")
    else:
        ln = writes["len"][2]
        if not (ln[0] == "bin" and ln[1].startswith("Sub")) and not (ln[0] == "field"):
            probs.append("len is not end - begin: %s" % fmt_expr(ln)[:80])
        lnn = ln
        if lnn[0] == "field" and isinstance(lnn[1], tuple) and lnn[1][0] == "bin":
            lnn = ("bin", lnn[1][1].replace("WithOverflow", ""), lnn[1][2], lnn[1][3])
        if lnn[0] == "bin":
            end, begin = lnn[2], lnn[3]

            def alts(e):
                return list(e[1]) if e[0] == "phi" else [e]

            def classify(a):
                """(bound kind, plus_one?)"""
                a0 = a
                plus = False
                for x in walk(a):
                    if is_call(x, "checked_add") and canon(x[2][1]) == ("const", 1):
                        plus = True
                for x in walk(a):
                    if x[0] == "variant" and x[2] in ("Included", "Excluded"):
                        return x[2], plus
                if canon(a) == ("const", 0):
                    return "zero", False
                if any(x[0] == "field" and x[2] == "len" for x in walk(a)) or any(is_call(x, "len") for x in walk(a)):
                    return "len", False
                return "?", plus
            cb = sorted(classify(a) for a in alts(begin))
            ce = sorted(classify(a) for a in alts(end))
            want_b = sorted([("Included", False), ("Excluded", True), ("zero", False)])
            want_e = sorted([("Included", True), ("Excluded", False), ("len", False)])
            if cb != want_b:
                probs.append("start bound mapping is %s, must be Included n -> n, Excluded n -> n + 1, Unbounded -> 0" % cb)
            if ce != want_e:
                probs.append("end bound mapping is %s, must be Included n -> n + 1, Excluded n -> n, Unbounded -> len" % ce)
            # which bound method feeds which variable
            sb = any(x[0] == "ucall" and x[1].endswith("start_bound") for x in walk(begin))
            se = any(x[0] == "ucall" and x[1].endswith("end_bound") for x in walk(end))
            if not (sb and se) or any(x[0] == "ucall" and x[1].endswith("end_bound") for x in walk(begin)):
                probs.append("begin/end are not read from start_bound()/end_bound() respectively")
            pe = strip_ptr(canon(writes["ptr"][2]))
            if not (is_call(pe, "add") and canon(pe[2][1]) == canon(begin)):
                probs.append("ptr is not advanced by `begin`")
            # every result (also the empty one) is produced only after both range checks
            from .flow import defs_of
            lenx = ("field", ("deref", ("param", 1)), "len")
            for (bi, si, k, pay) in defs_of(b).get(0, []):
                if b.blocks[bi]["cleanup"]:
                    continue
                ctx = Ctx(b, bi, facts)
                if not ctx.le(begin, end):
                    probs.append("a result is returned (bb%d) without the check begin <= end" % bi)
                if not (ctx.le(end, lenx) or any(ctx.le(end, x) for x in walk(end) if is_call(x, "len"))):
                    probs.append("a result is returned (bb%d) without the check end <= len: an out-of-range (empty) range is accepted silently" % bi)
    return probs


def check_slice_ref(res, facts):
    l = facts.by_id.get("bytes::Bytes::slice_ref", [])
    if len(l) != 1:
        raise RuleError("Bytes::slice_ref not found")
    b = l[0]
    eb = ExprBuilder(b, facts, inline=True)
    key = "bytes::Bytes::slice_ref|offsets"
    probs = []
    calls = [(bi, t) for bi, t in b.calls() if callee(t) and (callee(t).get("res") or callee(t))["path"] == "bytes::Bytes::slice"]
    tail = False
    if not calls:
        # `slice` may have been split into bound resolution + a `(begin, end)` tail that `slice_ref` calls directly: the tail is the
        # crate function that `Bytes::slice` itself ends in (judged there, helpers inlined)
        sl = facts.by_id.get("bytes::Bytes::slice", [])
        tails = set()
        if len(sl) == 1:
            for _, t2 in sl[0].calls():
                f2 = callee(t2)
                r2 = (f2.get("res") or {}) if f2 else {}
                if r2.get("local") and r2.get("did") is not None and len(t2["args"]) == 3:
                    tails.add(r2["did"])
        calls = [(bi, t) for bi, t in b.calls() if callee(t) and ((callee(t).get("res") or {}).get("did") in tails) and len(t["args"]) == 3]
        tail = bool(calls)
    if len(calls) != 1:
        probs.append("expected one call of self.slice(..)")
    else:
        bi, t = calls[0]
        loc = (bi, len(b.blocks[bi]["stmts"]))
        if tail:
            rng = ("agg", "Range(tail)", (canon(eb.operand(t["args"][1], loc)), canon(eb.operand(t["args"][2], loc))))
        else:
            rng = canon(eb.operand(t["args"][1], loc))
        recv = strip_ref(canon(eb.operand(t["args"][0], loc)))
        if recv != ("param", 1):
            probs.append("slices something other than self")
        if not (isinstance(rng, tuple) and rng[0] == "agg" and "Range" in str(rng[1]) and len(rng[2]) == 2):
            probs.append("argument is not a start..end range")
        else:
            start, end = rng[2]

            def addr(e, root):
                e = uncast(e)
                while isinstance(e, tuple) and e[0] == "cast":
                    e = e[2]
                if is_call(e, "as_ptr"):
                    x = strip_ref(e[2][0])
                    while is_call(x, "deref") or is_call(x, "as_ref") or is_call(x, "as_slice"):
                        x = strip_ref(x[2][0])
                    return x == ("param", root)
                return False
            ok_start = isinstance(start, tuple) and ((start[0] == "bin" and start[1] == "Sub" and addr(start[2], 2) and addr(start[3], 1))
                                                     or (any(is_call(start, n) for n in ("wrapping_sub", "offset_from", "offset_from_unsigned", "byte_offset_from"))
                                                         and addr(start[2][0], 2) and addr(start[2][1], 1)))
            ok_end = isinstance(end, tuple) and end[0] == "bin" and end[1] == "Add" and canon(end[2]) == canon(start) and is_call(end[3], "len") and strip_ref(end[3][2][0]) == ("param", 2)
            if not ok_start:
                probs.append("start is not subset.as_ptr() - self.as_ptr(): %s" % fmt_expr(start)[:80])
            if not ok_end:
                probs.append("end is not start + subset.len(): %s" % fmt_expr(end)[:80])
    # the only way round the slicing is the documented one: an empty `subset` is a sub-slice of anything.  A shortcut taken on any
    # other ground (`|| self.is_empty()`) answers out-of-contract calls with a value instead of the documented panic (C13)
    if len(calls) == 1:
        from .flow import enumerate_paths, path_relations
        from .r_c7 import emptiness
        sb = calls[0][0]
        for path in enumerate_paths(b, limit=400):
            if sb in path:
                continue
            rels = [r for r in path_relations(b, facts, path) if r]
            if not emptiness(rels, lambda y: strip_ref(canon(y)) == ("param", 2), 1):
                probs.append("the path bb%s returns without slicing although `subset` is not known to be empty: a foreign or out-of-range subset gets an answer instead of the panic"
                             % "->bb".join(str(x) for x in path))
                break
    if probs:
        res.bad(key, b.loc(), "; ".join(probs))
    else:
        res.ok(key, b.loc(), "self.slice(off .. off + sub.len()) with off = sub.ptr - self.ptr (containment is asserted by slice itself); the only shortcut is the empty subset", nontrivial=True)


def check_empty_splits(res, facts):
    check_mut_splits(res, facts)
    for name in ("split_off", "split_to"):
        l = facts.by_id.get("bytes::Bytes::" + name, [])
        if len(l) != 1:
            raise RuleError("Bytes::%s not found" % name)
        with_fallback(res, facts, l[0], "bytes::Bytes::%s|empty results keep the address" % name, lambda b: empty_split_probs(facts, b),
                      "at == len -> empty at self.ptr + at; at == 0 -> empty at self.ptr", keep=("new_empty_with_ptr",))


def check_mut_splits(res, facts):
    """BytesMut::{split_off, split_to, split}: every returned handle is cut out of `self` (a shallow clone of it), never a fresh one"""
    from .flow import PathExprBuilder, enumerate_paths
    for name in ("split_off", "split_to", "split"):
        l = facts.by_id.get("bytes_mut::BytesMut::" + name, [])
        if len(l) != 1:
            continue
        b = l[0]
        key = "bytes_mut::BytesMut::%s|result is cut out of self" % name

        def probs_of(v):
            for path in enumerate_paths(v, limit=400):
                pe = PathExprBuilder(v, facts, path, inline=False)
                r = canon(pe.local(0, (path[-1], len(v.blocks[path[-1]]["stmts"]))))
                if not any(x == ("param", 1) for x in walk(r)):
                    return ["a path returns a handle that is not derived from self (%s): the result does not keep the address" % fmt_expr(r)[:60]]
                # ... and derived by sharing, not by copying: no constructor that allocates takes part in it
                for x in walk(r):
                    if isinstance(x, tuple) and x and x[0] == "call" and x[1].rsplit("::", 1)[-1] in ("from", "to_vec", "with_capacity", "from_vec", "copy_from_slice", "zeroed", "to_owned", "clone", "from_iter") \
                            and ("BytesMut" in x[1] or "Bytes" in x[1] or "Vec" in x[1] or "slice" in x[1]):
                        return ["a path returns a handle built by `%s` (%s): a copy of the bytes in a new buffer, not a part cut out of self" % (x[1].rsplit("::", 2)[-2] + "::" + x[1].rsplit("::", 1)[-1] if "::" in x[1] else x[1], fmt_expr(r)[:60])]
            return []
        with_fallback(res, facts, b, key, probs_of, "every return path yields a handle derived from self")


def empty_split_probs(facts, b):
    eb = ExprBuilder(b, facts, inline=True)
    probs = []
    sites = []
    selfptr = ("field", ("deref", ("param", 1)), "ptr")
    selflen = ("field", ("deref", ("param", 1)), "len")
    at = ("param", 2)
    for bi, t in b.calls():
        fn = callee(t)
        if fn and fn["name"] == "new_empty_with_ptr" and not b.blocks[bi]["cleanup"]:
            loc = (bi, len(b.blocks[bi]["stmts"]))
            arg = strip_ptr(canon(eb.operand(t["args"][0], loc)))
            ctx = Ctx(b, bi, facts)
            sites.append((bi, arg, ctx, ctx.eq(at, selflen), ctx.eq(at, ("const", 0))))
    if len(sites) != 2:
        probs.append("expected two empty-result sites (at == len, at == 0), found %d" % len(sites))
    # every returned handle comes out of `self` (its clone, an empty handle at an address derived from self.ptr, or the old
    # `*self` swapped out): a fresh handle (`Bytes::new()`, `from_static(..)`) would sit at an unrelated address
    from .flow import PathExprBuilder, enumerate_paths
    for path in enumerate_paths(b, limit=400):
        pe = PathExprBuilder(b, facts, path, inline=False)
        r = canon(pe.local(0, (path[-1], len(b.blocks[path[-1]]["stmts"]))))
        if not any(x == ("param", 1) for x in walk(r)):
            probs.append("a path returns a handle that is not derived from self (%s): the result does not keep the address" % fmt_expr(r)[:60])
            break
    # a part cut with `self.slice(range)`: `slice` answers an empty range with `Bytes::new()`, a handle at a static address - so the
    # range must be known non-empty where it is used (split_off: at < len; split_to: 0 < at)
    for bi, t in b.calls():
        fn = callee(t)
        if fn is None or b.blocks[bi]["cleanup"] or fn["name"] != "slice" or "bytes::Bytes" not in (fn.get("res") or fn).get("path", ""):
            continue
        ctx = Ctx(b, bi, facts)
        nonempty = ctx.lt(at, selflen) if b.id.endswith("split_off") else ctx.lt(("const", 0), at)
        if not nonempty:
            probs.append("a part is cut with self.slice(..) where the range may be empty (%s): slice returns Bytes::new() for it, not an empty handle at self.ptr + at" % (
                "at == len not excluded" if b.id.endswith("split_off") else "at == 0 not excluded"))
    for (bi, arg, ctx, at_len, at_zero) in sites:
        if arg == selfptr:
            off = ("const", 0)
        elif (is_call(arg, "wrapping_add") or is_call(arg, "add")) and strip_ptr(arg[2][0]) == selfptr:
            off = canon(uncast(arg[2][1]))
        else:
            probs.append("the empty part is not placed relative to self.ptr: %s" % fmt_expr(arg)[:60])
            continue
        if at_len:
            if not (off == at or off == selflen or ctx.eq(off, at)):
                probs.append("at == len: the empty part must sit at self.ptr + at, found offset %s" % fmt_expr(off)[:40])
        elif at_zero:
            if not (const_of(off) == 0 or off == at):
                probs.append("at == 0: the empty part must sit at self.ptr, found offset %s" % fmt_expr(off)[:40])
        else:
            probs.append("empty result built outside the at == len / at == 0 cases")
    return probs
