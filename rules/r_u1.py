"""U1 UNINIT-REF: the crate never makes a reference to (or a value of) a non-byte type out of uninitialised storage.

`MaybeUninit<u8>` is the crate's currency for spare capacity and is only ever reached through `UninitSlice` / raw byte pointers.
Storage for anything else - a scratch array of `IoSlice`, a handle, a control block - obtained from `MaybeUninit::<T>::uninit()`,
`uninit_array`, `mem::uninitialized()` (or `zeroed` for a type with a validity invariant) and then viewed as `&T` / `&mut T` / `T`
(`&mut *m.as_mut_ptr()`, `assume_init*`, `transmute`) is undefined behaviour as soon as a slot is read that was not written, and
whether it is written is, in the adapters, up to a caller-supplied trait impl (`Take::chunks_vectored` hands the scratch array to the inner
`Buf`, which reports how many slots it filled: C17).

Expected count today: zero.  So that the scan cannot go blind silently, the rule counts what it looks at (functions with `MaybeUninit`
locals; the floor fails when none are seen) and a control (`controls/controls.json`: u1-*) keeps a positive example.
"""
from .base import Result
from .facts import callee
from .fresh import BYTE_TYPES

MAKERS = ("uninit", "uninit_array", "uninitialized", "zeroed")
VIEWS = ("assume_init", "assume_init_mut", "assume_init_ref", "assume_init_read", "assume_init_drop", "array_assume_init", "slice_assume_init_mut", "slice_assume_init_ref")


def is_bytes(t):
    t = (t or "").strip()
    if t in BYTE_TYPES or t in ("u8", "i8"):
        return True
    if t.startswith("[") and t.endswith("]"):
        return is_bytes(t[1:-1].split(";")[0])
    if t.startswith("core::mem::MaybeUninit<") and t.endswith(">"):
        return is_bytes(t[len("core::mem::MaybeUninit<"):-1])
    return False


def run(facts):
    res = Result("U1", "no reference to / value of a non-byte type is made out of uninitialised storage (MaybeUninit::<T>::uninit / uninit_array / "
                        "mem::uninitialized viewed through as_mut_ptr + deref, assume_init*, transmute)")
    n_seen = 0
    for b in facts.fn_bodies():
        if facts.is_test(b):
            continue
        if any("MaybeUninit" in l["ty"] for l in b.locals):
            n_seen += 1
        makers = []
        for bi, t in b.calls():
            fn = callee(t)
            if fn is None or b.blocks[bi]["cleanup"]:
                continue
            p = (fn.get("res") or fn).get("path", "")
            nm = fn["name"]
            targ = (fn.get("args") or [""])[0] if fn.get("args") else ""
            if nm in MAKERS and ("MaybeUninit" in p or p.startswith("core::mem::")) and not is_bytes(targ) and targ:
                if nm == "zeroed" and not any(k in targ for k in ("&", "NonNull", "fn(", "IoSlice", "Box<", "Vec<", "Bytes")):
                    continue        # all-zero is a valid value of plain integers / raw pointers
                d = t.get("dest")
                makers.append((bi, nm, targ, d["l"] if isinstance(d, dict) and not d["p"] else None))
        for (bi, nm, targ, dl) in makers:
            key = "%s|%s::<%s>" % (b.id, nm, targ[:40])
            # how is the storage looked at?
            viewed = None
            if nm == "uninitialized":
                viewed = "mem::uninitialized produces the value itself"
            for bj, t2 in b.calls():
                f2 = callee(t2)
                if f2 is None:
                    continue
                if f2["name"] in VIEWS and "MaybeUninit" in (f2.get("res") or f2).get("path", ""):
                    viewed = "`%s`" % f2["name"]
                if f2["name"] == "transmute" and any(b.locals[a["pl"]["l"]]["ty"].startswith("core::mem::MaybeUninit<") for a in t2["args"] if a["k"] in ("copy", "move") and not a["pl"]["p"]):
                    viewed = "`transmute`"
            for blk in b.blocks:
                for s in blk["stmts"]:
                    if s["k"] == "assign" and s["rv"]["k"] in ("ref", "rawptr") and s["rv"]["pl"]["p"] and s["rv"]["pl"]["p"][0] == "*":
                        src = b.locals[s["rv"]["pl"]["l"]]["ty"]
                        dst = b.locals[s["pl"]["l"]]["ty"] if not s["pl"]["p"] else ""
                        if s["rv"]["k"] == "ref" and src.startswith(("*mut ", "*const ")) and dst.startswith("&") and not is_bytes(dst.lstrip("&").replace("mut ", "").strip()) \
                                and targ.split("<")[0].split(";")[0].strip("[ ") in dst:
                            viewed = "a reference `%s` made from the raw pointer to the storage" % dst[:50]
            if viewed:
                res.bad(key, b.loc(bi), "uninitialised storage for `%s` is viewed as initialised through %s: reading a slot that was never written is undefined "
                                        "behaviour, and in an adapter whether it was written is up to a caller-supplied impl" % (targ[:50], viewed))
            else:
                res.ok(key, b.loc(bi), "only ever written through raw pointers", nontrivial=True)
    res.floor("functions with MaybeUninit locals scanned", n_seen, 10)
    return res
