"""D2 FMT-TABLE — Debug output is a valid Rust byte-string literal that decodes to the contents, and
{:x}/{:X} print exactly two hex digits per byte: decided for all 256 byte values by propagating the
*set of byte values* through the comparisons on the loop variable (a finite domain touched only by
comparisons) and decoding each branch's format template with the byte-string-literal grammar.
Nothing is formatted or executed: templates come from the expanded AST, guards from MIR."""
from .base import Result, RuleError
from .facts import callee
from .flow import ExprBuilder, cfg_of, canon, walk, fmt_expr, return_expr
from . import roles

ALL = frozenset(range(256))


def applies(facts, cfg):
    return True


def byte_var_test(e, isb):
    """interpret a boolean expression over the byte variable: returns the set of byte values for which
    it is TRUE, or None if it does not (only) test the byte"""
    e = canon(e)
    if not isinstance(e, tuple):
        return None
    if e[0] == "bin" and e[1] in ("Eq", "Ne", "Lt", "Le", "Gt", "Ge"):
        a, b = e[2], e[3]
        flip = False
        if isb(b) and not isb(a):
            a, b = b, a
            flip = True
        if isb(a) and isinstance(b, tuple) and b[0] == "const" and isinstance(b[1], int):
            c = b[1]
            op = e[1]
            if flip:
                op = {"Lt": "Gt", "Le": "Ge", "Gt": "Lt", "Ge": "Le"}.get(op, op)
            f = {"Eq": lambda v: v == c, "Ne": lambda v: v != c, "Lt": lambda v: v < c, "Le": lambda v: v <= c,
                 "Gt": lambda v: v > c, "Ge": lambda v: v >= c}[op]
            return frozenset(v for v in range(256) if f(v))
        return None
    if e[0] == "call" and e[1].endswith("::contains") and len(e[2]) == 2:
        rng, x = e[2]
        while isinstance(x, tuple) and x[0] in ("ref", "deref"):
            x = x[1]
        if not (isb(x) or isb(("deref", x))):
            return None
        while isinstance(rng, tuple) and rng[0] in ("ref", "deref"):
            rng = rng[1]
        if isinstance(rng, tuple) and rng[0] == "call" and "RangeInclusive" in rng[1] and rng[1].endswith("::new") and len(rng[2]) == 2:
            ops = [o[1] if (isinstance(o, tuple) and o[0] == "const") else None for o in rng[2]]
            if None not in ops:
                return frozenset(range(ops[0], ops[1] + 1))
        if isinstance(rng, tuple) and rng[0] == "agg" and isinstance(rng[1], tuple):
            name = rng[1][1]
            ops = [o[1] if (isinstance(o, tuple) and o[0] == "const") else None for o in rng[2]]
            if "core::ops::Range::Range" in name and len(ops) == 2 and None not in ops:
                return frozenset(range(ops[0], ops[1]))
            if "RangeInclusive" in name and len(ops) >= 2 and None not in ops[:2]:
                return frozenset(range(ops[0], ops[1] + 1))
        return None
    return None


def decode_literal_body(s):
    """decode the inside of a Rust byte-string literal; returns list of bytes or None if invalid"""
    out = []
    i = 0
    while i < len(s):
        ch = s[i]
        if ch == "\\":
            if i + 1 >= len(s):
                return None
            n = s[i + 1]
            simple = {"n": 10, "r": 13, "t": 9, "\\": 92, "0": 0, '"': 34, "'": 39}
            if n in simple:
                out.append(simple[n])
                i += 2
            elif n == "x":
                h = s[i + 2:i + 4]
                if len(h) != 2 or any(c not in "0123456789abcdefABCDEF" for c in h):
                    return None
                out.append(int(h, 16))
                i += 4
            else:
                return None
        else:
            o = ord(ch)
            # Rust reference, BYTE_STRING_LITERAL: any ASCII character except `"`, `\` and an isolated CR
            if o > 0x7f or ch == '"' or o == 0x0d:
                return None
            out.append(o)
            i += 1
    return out


def render(template, args, v):
    """instantiate a format template for byte value v; None if an argument form is unknown"""
    s = ""
    for p in template:
        if "lit" in p:
            s += p["lit"]
            continue
        a = args[p["arg"]] if p.get("arg") is not None and p["arg"] < len(args) else None
        tr = p["trait"]
        if a in ("b as char", "(b as char)") and tr == "Display" and p["width"] is None and not p["zero_pad"]:
            s += chr(v)
        elif a in ("b", "*b") and tr in ("LowerHex", "UpperHex") and p["precision"] is None and not p["alternate"]:
            w = p["width"] or 0
            h = ("%x" if tr == "LowerHex" else "%X") % v
            if isinstance(w, int) and len(h) < w:
                h = (("0" if p["zero_pad"] else (p["fill"] or " ")) * (w - len(h))) + h
            s += h
        else:
            return None
    return s


def loop_byte(b, facts, eb):
    """the loop variable: the u8 copied out of Iterator::next()'s Some payload"""
    for bi, blk in enumerate(b.blocks):
        for si, s in enumerate(blk["stmts"]):
            if s["k"] == "assign" and not s["pl"]["p"] and b.locals[s["pl"]["l"]]["ty"] == "u8":
                e = canon(eb.rvalue(s["rv"], (bi, si), 0))
                if any(x[0] == "call" and x[1].endswith("::next") for x in walk(e)):
                    return s["pl"]["l"], bi, e
    return None, None, None


def analyse_fmt(b, facts, byte=None):
    """returns (sites, frame, problems): sites = list of (bb, line, frozenset of byte values reaching the write).
    byte=None: the byte is the variable of an explicit loop over the slice; otherwise `b` is the body run once per byte
    (the closure of `iter().try_for_each(..)`, helpers inlined) and `byte` is the expression of the byte in it"""
    eb = ExprBuilder(b, facts, inline=False)
    cfg = cfg_of(b)
    if byte is None:
        bl, bbb, bexpr = loop_byte(b, facts, eb)
        if bl is None:
            return None, None, ["loop over the bytes not found"]
    else:
        bl, bbb, bexpr = -1, 0, byte

    def isb(e):
        e = canon(e)
        return e == canon(bexpr) or e == ("deref", canon(bexpr)) or ("deref", e) == canon(bexpr)
    state = {bbb: ALL}
    work = [bbb]
    # the loop head is the block that calls next(): do not propagate through it again
    heads = {bi for bi, t in b.calls() if callee(t) and callee(t)["name"] == "next"}
    while work:
        x = work.pop()
        S = state[x]
        t = b.blocks[x]["term"]
        outs = []
        if t["k"] == "switch":
            c = eb.operand(t["discr"], (x, len(b.blocks[x]["stmts"])))
            T = byte_var_test(c, isb)
            if t["discr_ty"] == "u8" and (isb(c) or isb(("deref", canon(c)))):
                # `match b { b'\n' => .., .. }`: a switch on the byte itself
                vals = set()
                for val, dst in t["targets"]:
                    outs.append((dst, S & frozenset([val])))
                    vals.add(val)
                outs.append((t["otherwise"], S - frozenset(vals)))
            elif T is not None and t["discr_ty"] == "bool":
                for val, dst in t["targets"]:
                    outs.append((dst, S & T if val == 1 else S - T))
                # otherwise edge: the remaining truth value
                vals = [v for v, _ in t["targets"]]
                if vals == [0]:
                    outs.append((t["otherwise"], S & T))
                elif vals == [1]:
                    outs.append((t["otherwise"], S - T))
            else:
                cb = canon(bexpr)
                if any(y == cb for y in walk(canon(c))) and t["discr_ty"] == "bool":
                    # a test on the byte that this rule cannot interpret: undecidable here, not a violation
                    raise RuleError("unrecognised test on the byte value at %s: %s" % (b.loc(x), fmt_expr(c)[:120]))
                outs = [(d, S) for d in cfg.succ[x]]
        else:
            outs = [(d, S) for d in cfg.succ[x]]
        for d, S2 in outs:
            if d in heads or not S2:
                continue
            old = state.get(d, frozenset())
            new = old | S2
            if new != old:
                state[d] = new
                work.append(d)
    sites = []
    for bi, t in b.calls():
        fn = callee(t)
        if fn and fn["name"] == "write_fmt" and bi in state:
            sites.append((bi, t["span"]["line"], state[bi]))
    frame = [(bi, t["span"]["line"]) for bi, t in b.calls() if callee(t) and callee(t)["name"] == "write_fmt" and bi not in state]
    return sites, frame, []


def internal_iteration(facts, b0):
    """(closure view, byte expression, block of the call) for `self.0.iter()[.copied()].try_for_each(closure)` / for_each"""
    from .inline import inlined
    eb = ExprBuilder(b0, facts, inline=False)
    hits = []
    for bi, t in b0.calls():
        fn = callee(t)
        if fn is None or fn["name"] not in ("try_for_each", "for_each") or b0.blocks[bi]["cleanup"] or len(t["args"]) != 2:
            continue
        loc = (bi, len(b0.blocks[bi]["stmts"]))
        it = canon(eb.operand(t["args"][0], loc))
        cl = eb.operand(t["args"][1], loc)
        while isinstance(cl, tuple) and cl and cl[0] in ("ref", "deref"):
            cl = cl[1]
        if not (isinstance(cl, tuple) and cl and cl[0] == "closure" and cl[1] is not None):
            continue
        # the iterator is iter() over the wrapped slice, possibly .copied()/.cloned(); nothing that skips or reorders
        x = it
        by_value = False
        while isinstance(x, tuple) and x and x[0] in ("ref", "deref"):
            x = x[1]
        if isinstance(x, tuple) and x and x[0] == "call" and x[1].rsplit("::", 1)[-1] in ("copied", "cloned"):
            by_value = True
            x = x[2][0]
        if not (isinstance(x, tuple) and x and x[0] == "call" and x[1].rsplit("::", 1)[-1] in ("iter", "into_iter")):
            continue
        src = x[2][0]
        while isinstance(src, tuple) and src and src[0] in ("ref", "deref"):
            src = src[1]
        if not (isinstance(src, tuple) and src and src[0] == "field" and str(src[2]) in ("0",) and src[1] in (("param", 1), ("deref", ("param", 1)))):
            continue
        cb = facts.by_did.get(cl[1])
        if cb is None:
            continue
        view = inlined(facts, cb)
        bexpr = ("param", 2) if by_value or cb.locals[2]["ty"] == "u8" else ("deref", ("param", 2))
        hits.append((view, bexpr, bi))
    return hits[0] if len(hits) == 1 else None


def run(facts):
    res = Result("D2", "Debug: the byte-value sets reaching each write partition 0..=255 and each template decodes (byte-string-literal grammar) to the "
                       "guarded byte, framed by b\" and \"; hex: one {:02x}/{:02X} per byte in order; the six fmt impls pass self.as_ref()")
    fa = {}
    for x in facts.ast["format_args"]:
        fa.setdefault(x["in_did"], []).append(x)
    impls = [im for im in facts.impls if im["self_ty"].startswith("fmt::BytesRef") and im.get("trait") in ("core::fmt::Debug", "core::fmt::LowerHex", "core::fmt::UpperHex")]
    if len(impls) != 3:
        raise RuleError("expected Debug/LowerHex/UpperHex impls for BytesRef, found %d" % len(impls))
    for im in impls:
        tr = im["trait"].rsplit("::", 1)[-1]
        it = [i for i in im["items"] if i["name"] == "fmt"][0]
        b = facts.by_did[it["did"]]
        key = "%s for BytesRef" % tr
        b0 = b
        sites, frame, probs = analyse_fmt(b, facts)
        covers = lambda ss: frozenset().union(*[x[2] for x in ss]) == ALL if ss else False
        if probs or not covers(sites):
            # the loop (or the write) may live in a private helper / a closure handed to it: judge the inlined views
            from .inline import views
            for ib in views(facts, b0):
                s2, f2, p2 = analyse_fmt(ib, facts)
                if not p2 and (covers(s2) or probs):
                    b, sites, frame, probs = ib, s2, f2, []
                    break
        anchors = None
        if probs:
            # internal iteration: `self.0.iter()[.copied()].try_for_each(|b| ..)` runs the closure once per byte, in order,
            # and stops at the first error - the closure (helpers inlined) is the loop body
            ii = internal_iteration(facts, b0)
            if ii is not None:
                cview, bexpr, cbi = ii
                s2, f2, p2 = analyse_fmt(cview, facts, byte=bexpr)
                if not p2 and not f2:
                    b, sites, probs = cview, s2, []
                    frame = [(bi, t["span"]["line"]) for bi, t in b0.calls() if callee(t) and callee(t)["name"] == "write_fmt"]
                    anchors = [cbi]
        if probs:
            res.bad(key, b0.loc(), "; ".join(probs))
            continue
        tmpl = {}
        dids = {b0.did} | {blk.get("origin") for blk in b.blocks if blk.get("origin") is not None}
        for x in [y for d in sorted(dids) for y in fa.get(d, [])]:
            ln = x["span"]["line"]
            if ln in tmpl:
                probs.append("two format strings on line %d: cannot attribute templates" % ln)
            tmpl[ln] = x
        covered = {}
        n_checked = 0
        for (bi, line, S) in sites:
            x = tmpl.get(line)
            if x is None:
                probs.append("write at line %d has no format template in the expanded AST" % line)
                continue
            for v in sorted(S):
                n_checked += 1
                if v in covered:
                    probs.append("byte 0x%02x reaches two writes (lines %d and %d)" % (v, covered[v], line))
                    break
                covered[v] = line
                s = render(x["template"], x["args"], v)
                if s is None:
                    probs.append("line %d: unknown argument form %r" % (line, x["args"]))
                    break
                if tr == "Debug":
                    dec = decode_literal_body(s)
                    if dec != [v]:
                        probs.append("line %d prints %r for byte 0x%02x, which %s" % (
                            line, s, v, "is not valid inside a byte-string literal" if dec is None else "decodes to %s" % dec))
                        break
                else:
                    want = ("%02x" if tr == "LowerHex" else "%02X") % v
                    if s != want:
                        probs.append("line %d prints %r for byte 0x%02x, expected %r" % (line, s, v, want))
                        break
        missing = sorted(ALL - set(covered))
        if missing and not probs:
            probs.append("byte value(s) %s reach no write" % ", ".join("0x%02x" % m for m in missing[:6]))
        if tr == "Debug":
            fl = sorted(frame, key=lambda z: z[1])
            lits = ["".join(p.get("lit", "?") for p in tmpl[l]["template"]) if l in tmpl else None for _, l in fl]
            if lits != ['b"', '"']:
                probs.append("literal is not framed by b\" ... \": %r" % lits)
            else:
                cfg = cfg_of(b0 if anchors else b)
                first, last = fl[0][0], fl[1][0]
                if not all(cfg.dominates(first, bi) for bi in (anchors or [x[0] for x in sites])) or not cfg.dominates(first, last) \
                        or (anchors and not all(cfg.dominates(a, last) for a in anchors)):
                    probs.append("opening b\" does not dominate the per-byte writes")
        else:
            if frame:
                probs.append("hex output has extra writes outside the per-byte loop")
            if len(sites) != 1:
                probs.append("expected exactly one write per byte")
        if probs:
            res.bad(key, b.loc(), "; ".join(probs[:3]))
        else:
            res.ok(key, b.loc(), "%d write sites; %d (byte value, template) pairs decoded; partition of 0..=255 complete" % (len(sites), n_checked), nontrivial=True)
            res.notes.append("%s: byte sets per line: %s" % (key, {l: len(S) for _, l, S in sites}))
    # fmt_impl!: the handle impls delegate to BytesRef(self.as_ref()) with the same trait
    from .r_d1 import D1
    d1 = D1(facts)
    n = 0
    for im in facts.impls:
        if im.get("trait") not in ("core::fmt::Debug", "core::fmt::LowerHex", "core::fmt::UpperHex") or im["self_ty"] not in d1.handles:
            continue
        n += 1
        tr = im["trait"].rsplit("::", 1)[-1]
        it = [i for i in im["items"] if i["name"] == "fmt"][0]
        b = facts.by_did[it["did"]]
        key = "%s for %s" % (tr, im["self_ty"])
        e = return_expr(b, facts, inline=False)
        ok = False
        why = ""
        if e[0] == "call" and e[5] == im["trait"] + "::fmt" and "BytesRef" in e[3]:
            a0 = e[2][0]
            while isinstance(a0, tuple) and a0[0] in ("ref", "deref"):
                a0 = a0[1]
            if isinstance(a0, tuple) and a0[0] == "agg" and d1.root(a0[2][0]) == 1 and canon(e[2][1]) == ("param", 2):
                ok = True
            else:
                why = "argument is not BytesRef(view of self): %s" % fmt_expr(e[2][0])
        else:
            why = "does not delegate to <BytesRef as %s>::fmt: %s" % (tr, fmt_expr(e)[:100])
        if ok:
            res.ok(key, b.loc(), "<BytesRef as %s>::fmt(&BytesRef(self.as_ref()), f)" % tr)
        else:
            res.bad(key, b.loc(), why)
    res.floor("handle_fmt_impls", n, 6)
    return res
