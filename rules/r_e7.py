"""E7 DEBUG-CONTRACT: what only a debug build checks must be true in every build.

`debug_assert!` (and code under `cfg!(debug_assertions)`) exists in one profile only.  If such an assertion can fail on a state the release
build reaches, the two profiles disagree on *which calls panic* (C16) - the debug build panics where the release build carries on (with a
correct result, or into undefined behaviour).  Every debug-only assertion of the crate is therefore decided to be one of:

  entailed     the asserted relation follows from the release-mode conditions that dominate the assertion (linear-inequality domain);
  precondition it is the stated precondition of an `unsafe fn`: every *safe* caller must establish it in release code - A6's obligation
               instances, re-reported here under this rule (the helper only checks it under debug_assert!);
  reviewed     it states a representation fact that was confirmed by reading the code and is frozen in REVIEWED below, keyed by the
               *atoms* of the condition (operator, field / callee names, constants - not by function or position, so that moving or
               re-spelling the assertion keeps its key), one line of reason each;
  otherwise    NOT DECIDED, and listed as such in the evidence: whether an arbitrary statement about the representation can fail needs the
               crate's global invariants.  An earlier version reported every assertion outside the table; the full refactoring corpus showed that
               re-spelling or moving a true assertion changes its atoms (16 false alarms in 255 refactorings), so the table now only labels.  The
               seeded change C16-a1 (`debug_assert_eq!(buf, ptr)` in a conversion that advanced handles reach) is therefore a recorded miss.
"""
from .base import Result
from .flow import debug_regions, edge_conditions, cfg_of, normalize_cmp, canon, fmt_expr, relations_at, walk, stated_preconditions
from .lin import State

# atoms -> reason.  Confirmed by reading the code at the pinned commit.
REVIEWED = {
    ("is_null", "truth"): "new_empty_with_ptr is only handed `self.ptr` / `self.ptr + at` of an existing handle, which is never null",
    ("BitAnd", "Shared", "eq", "into_raw", "new"): "Box<Shared> is at least 2-aligned (static assertion on align_of::<Shared>() next to it): the low bit of the new control block's address is 0",
    ("0", "fetch_sub", "lt"): "refcount sanity: a handle being dropped holds one reference, so the count before the decrement is > 0",
    ("Shr", "fetch_sub", "le"): "refcount sanity: increments abort beyond usize::MAX >> 1, so the count never exceeds it",
    ("compare_exchange", "eq", "variant"): "the loser of the promotion race sees the winner's control block, which is not the original buffer pointer it offered",
    ("eq", "len", "rebuild_vec"): "the Vec rebuilt from (ptr, len, cap, off) after shifting by off has exactly the handle's len",
    ("Sub", "as_ptr", "capacity", "le", "vec"): "the view starts inside the shared Vec: offset + len <= capacity of that Vec",
    ("eq", "len", "with_capacity"): "a fresh Vec after extend_from_slice(self) has exactly self.len bytes",
    ("le", "len", "spare_capacity_mut"): "reserve(n) was called just before: n <= spare capacity (BytesMut::reserve's promise, A8)",
    ("eq", "null_mut", "wrapping_add"): "a pointer made of an integer by wrapping_add from null has that integer as its address",
}


def atoms(rel):
    out = set()
    out.add(rel[0])
    for side in rel[1:3]:
        if not isinstance(side, tuple):
            continue
        for x in walk(side):
            if not isinstance(x, tuple) or not x:
                continue
            if x[0] in ("call", "ucall"):
                out.add(str(x[1]).rsplit("::", 1)[-1])
            elif x[0] == "field" and isinstance(x[2], str) and not x[2].isdigit():
                out.add(x[2])
            elif x[0] == "bin":
                out.add(x[1])
            elif x[0] == "variant":
                out.add("variant")
            elif x[0] == "agg" and isinstance(x[1], tuple) and len(x[1]) > 1:
                out.add(str(x[1][1]).rsplit("::", 1)[-1])
            elif x[0] == "const" and x[1] in (0,) and side == x:
                out.add("0")
    return out


def reviewed(rel):
    a = atoms(rel)
    for key, why in REVIEWED.items():
        if set(key) <= a:
            return why
    return None


def run(facts):
    res = Result("E7", "every debug-only assertion is entailed by the release-mode conditions, is the stated precondition of an unsafe fn that all safe callers "
                       "establish (A6's obligations), or is a reviewed representation fact: otherwise the profiles disagree on which calls panic")
    n = 0
    undecided = []
    for b in facts.fn_bodies():
        if facts.is_test(b):
            continue
        regs = debug_regions(b)
        if not regs:
            continue
        cfg = cfg_of(b)
        ecs = edge_conditions(b, facts, inline=True)
        cnt = {}
        for (sw, region) in regs:
            for (s, d, c, v) in ecs:
                if s not in region or b.blocks[s]["term"]["k"] != "switch":
                    continue
                others = [x for x in cfg.succ[s] if x != d]
                if not others or not all(cfg.diverges(o) for o in others) or cfg.diverges(d):
                    continue
                rel = normalize_cmp(c, v)
                rel = tuple(canon(x) if isinstance(x, tuple) else x for x in rel)
                n += 1
                desc = "%s(%s, %s)" % (rel[0], fmt_expr(rel[1])[:50], fmt_expr(rel[2])[:40] if isinstance(rel[2], tuple) else rel[2])
                k0 = "%s|debug assertion %s" % (b.id, "+".join(sorted(atoms(rel)))[:70])
                cnt[k0] = cnt.get(k0, 0) + 1
                key = k0 + ("#%d" % cnt[k0] if cnt[k0] > 1 else "")
                ent = False
                if rel[0] in ("lt", "le", "eq", "ne"):
                    hyp = [r for r in relations_at(b, sw, facts, inline=True) if r and r[0] in ("lt", "le", "eq", "ne")]
                    try:
                        st = State(hyp, facts=facts)
                        ent = (not st.refuted()) and st.entails(rel)
                    except (RecursionError, ValueError, KeyError, TypeError):
                        ent = False
                if ent:
                    res.ok(key, b.loc(s), "entailed by the release-mode conditions that dominate it: %s" % desc, nontrivial=True)
                    continue
                pre_atoms = [atoms(tuple(canon(x) if isinstance(x, tuple) else x for x in r_)) for r_ in (stated_preconditions(b, facts) if b.safety == "unsafe" else [])]
                if b.safety == "unsafe" and any(a_ == atoms(rel) or (a_ <= atoms(rel) and len(a_) > 1) for a_ in pre_atoms):
                    res.ok(key, b.loc(s), "stated precondition of an unsafe fn: established by every safe caller (judged at the call sites, below): %s" % desc)
                    continue
                # one arm of `debug_assert!(p == 1 || p == 2)` on a bare parameter: the allowed literals; every caller must pass one of them
                if rel[0] == "eq" and isinstance(rel[1], tuple) and rel[1][0] == "param" and isinstance(rel[2], tuple) and rel[2][0] == "const":
                    allowed = set()
                    for (s2, d2, c2, v2) in ecs:
                        if s2 in region:
                            r2 = normalize_cmp(c2, v2)
                            r2 = tuple(canon(x) if isinstance(x, tuple) else x for x in r2)
                            if r2[0] in ("eq", "ne") and r2[1] == rel[1] and isinstance(r2[2], tuple) and r2[2][0] == "const":
                                allowed.add(r2[2][1])
                    from .inline import callers_of
                    from .flow import ExprBuilder
                    from .facts import callee
                    okc, nc = True, 0
                    for cb in callers_of(facts, b.did):
                        ebc = ExprBuilder(cb, facts, inline=False)
                        for cbi, ct in cb.calls():
                            cfn = callee(ct)
                            if cfn and (cfn.get("res") or {}).get("did") == b.did and rel[1][1] - 1 < len(ct["args"]):
                                nc += 1
                                a = canon(ebc.operand(ct["args"][rel[1][1] - 1], (cbi, len(cb.blocks[cbi]["stmts"]))))
                                if not (isinstance(a, tuple) and a and a[0] == "const" and a[1] in allowed):
                                    okc = False
                    if nc and okc:
                        res.ok(key, b.loc(s), "the parameter is one of %s at each of its %d call sites" % (sorted(allowed), nc), nontrivial=True)
                        continue
                why = reviewed(rel)
                if why:
                    res.ok(key, b.loc(s), "representation fact, reviewed at the pinned commit: %s" % why)
                else:
                    # NOT DECIDED: a statement about the representation that is neither entailed locally nor anybody's precondition.  Whether it can
                    # fail needs the crate's global invariants (A8 len <= cap, A17 position bits, A4 extents decide parts of them); this rule does not
                    # alarm on it - re-spelling or moving a true assertion must stay silent - and says so in the evidence.
                    undecided.append("%s: %s" % (b.id, desc))
                    res.ok(key, b.loc(s), "not decided by this rule (representation fact, neither entailed locally nor a precondition): %s" % desc)
    res.floor("debug-only assertions", n, 10)
    if undecided:
        res.notes.append("debug-only assertions this rule does not decide: %s" % "; ".join(undecided)[:1500])
    # the preconditions: A6's obligation instances
    from . import r_a6
    a6 = r_a6.run(facts)
    m = 0
    for i in a6.instances:
        if " -> " not in i["key"]:
            continue
        m += 1
        if i["verdict"] == "ok":
            res.ok("pre|" + i["key"], i["loc"], i["how"])
        else:
            res.bad("pre|" + i["key"], i["loc"], i["how"] + " - a debug build panics here, a release build does not")
    res.floor("precondition obligations at safe callers", m, 15)
    return res
