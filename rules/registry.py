"""Which rules decide which property (DESIGN.md §0/§6). A rule module exposes run(facts) -> Result."""
import importlib

# property -> list of (rule module, configs it needs in quick tier)
PROPERTY_RULES = {
    "C01": ["r_a10", "r_a9", "r_a8", "r_a2", "r_o3", "r_a12", "r_a13", "r_a4", "r_a16", "r_a17", "r_a19", "r_a18", "r_a20", "r_a21", "r_a23", "r_u3"],
    "C02": ["r_a6", "r_a4", "r_a8", "r_a2", "r_o3", "r_e1", "r_b1", "r_a13", "r_a14", "r_a16", "r_a17", "r_a18", "r_a9", "r_c6", "r_a20", "r_a21", "r_a23", "r_u1", "r_a3"],
    "C03": ["r_a2", "r_a3", "r_a8", "r_a14", "r_b1", "r_a17", "r_a4"],
    "C04": ["r_a8", "r_e1", "r_a6", "r_a2", "r_b1", "r_o3", "r_a4", "r_a17", "r_a18", "r_a21", "r_a23"],
    "C05": ["r_b1", "r_o3", "r_a2", "r_a12", "r_a3"],
    "C06": ["r_b1", "r_o3", "r_a2"],
    "C07": ["r_a12", "r_a13", "r_a2", "r_a9", "r_a11", "r_a8", "r_a25"],
    "C08": ["r_a11", "r_o3", "r_a2", "r_a4", "r_a8", "r_a12", "r_e2", "r_a15", "r_a22", "r_a25"],
    "C09": ["r_c4", "r_c3", "r_c1", "r_c5", "r_c7", "r_c8", "r_c9", "r_e1"],
    "C10": ["r_c2", "r_c1", "r_e1", "r_c5", "r_c7", "r_c8", "r_c4", "r_c3", "r_c9"],
    "C11": ["r_c2", "r_c1", "r_a6", "r_c5", "r_c4", "r_e1", "r_a8", "r_a9", "r_a16", "r_a21", "r_c9", "r_a23", "r_c8", "r_u3"],
    "C12": ["r_c4", "r_e1", "r_c9"],
    "C13": ["r_e4", "r_a6", "r_c3", "r_e1", "r_a13", "r_a16", "r_c7", "r_a8", "r_a20", "r_c8"],
    "C14": ["r_d1"],
    "C15": ["r_d2", "r_d3"],
    "C16": ["r_e1", "r_e2", "r_e5", "r_b1", "r_o3", "r_a2", "r_a9", "r_e6", "r_e7"],
    "C17": ["r_c6", "r_a3", "r_c5", "r_a14", "r_a6", "r_a16", "r_u1"],
    "C18": ["r_a15", "r_a2", "r_a12", "r_a22", "r_a24", "r_a25"],
}

# build configurations analysed in the quick tier (the thorough tier analyses K1..K6 and diffs the verdict tables):
# K1 default features / debug profile and K5 the same sources without debug assertions and overflow checks, so that a fault
# that hides behind a debug-only check is seen on every change; the properties about feature sets and atomics also take the
# no_std (K2) and portable-atomic (K4) builds.
QUICK_DEFAULT = ["K1", "K2", "K5"]
QUICK_CONFIGS = {
    "C16": ["K1", "K2", "K4", "K5"],
    "C05": ["K1", "K2", "K4", "K5"],
    "C06": ["K1", "K2", "K4", "K5"],
    "C03": ["K1", "K2", "K4", "K5"],
    "C02": ["K1", "K2", "K3", "K5"],
    "C17": ["K1", "K2", "K3", "K5"],
    "C15": ["K1", "K3", "K5"],
}

LEVEL = {"C14": "proof"}

CLAUSES = {
    "C17": "no integer reported by a safe user trait (remaining, chunks_vectored count, size_hint, Cursor::position) reaches an unsafe extent (copy length, "
           "raw-slice length, pointer offset, set_len, advance_mut, array cast, handle extent fields) unsanitised, interprocedurally; copy loops use real slice "
           "lengths; from_owner calls as_ref once, after boxing, and unwinds into Drop; unchecked indexing only under a test of the indexed slice's own length; "
           "no user code runs while the destructor of a storage owner is suppressed (ManuallyDrop windows); no reference to a non-byte type is made out of uninitialised storage (U1: scratch arrays handed to a caller-supplied impl are initialised)",
    "C15": "Debug: the sets of byte values reaching each write partition 0..=255 and every branch's template decodes, by the byte-string-literal grammar, "
           "to exactly the guarded byte, framed by b\" and \"; hex: one {:02x}/{:02X} per byte; serde: each entry point passes its whole argument through "
           "content-preserving conversions, visit_seq keeps every element in order",
    "C01": "no API of Bytes can write its bytes; every place where the crate moves bytes or re-bases a view does it in the only correct order and with the "
           "right length/offset (copy-back before shrinking, offset re-applied, bytes before pointer); writes into shared storage are dominated by a "
           "uniqueness test; no handle is disposed early or twice; slices/conversions rebuild (ptr, len) / Vec lengths from the view's own extent; every handle -> Vec<u8> conversion returns a Vec of exactly the handle's length on every path (A19); the length of a BytesMut / slice cursor grows only over written bytes (A16); the Vec kept in a control block is never relied upon for its length (A9-iv); a char is narrowed to a byte only where it is known ASCII (U3)",
    "C04": "every write to BytesMut.{ptr,len,cap} is justified (bounded by the allocation, paired with its companions, bytes moved before the pointer, "
           "non-overlap guard before copy_nonoverlapping); split halves use one cut operand; merge needs all four adjacency conjuncts; Clone never shares; "
           "the reservation helper returns false only on paths without any state write and true only through a justified cap write; request arithmetic cannot wrap; "
           "the reclaiming paths take the allocation over only behind an Acquire uniqueness test on a count that is kept by atomic read-modify-writes (A2, B1, O3); allocation extents are recomputed by one formula, also through rebuild helpers judged at their callers (A4); the vec-position bits of the data word agree with the pointer (A17); every function that stores to len / cap leaves len <= cap on every path, and every true-returning path of the reservation helper ends with len + n <= cap (entailment over the state at the end of the path: A18, A8 numeric promise); no raw pointer into a buffer is used after a call that may move or free that buffer (A21: reserve / growing Vec calls / drops between obtaining a pointer and writing through it); one raw extent is assembled from one state of its owner (A23: a current pointer is never paired with a length / capacity / offset read before the owner changed)",
    "C07": "no byte-buffer allocation and no byte copy is reachable from any zero-copy operation (vtable dispatch expanded), apart from verified exempt "
           "edges; clone returns the (ptr, len) it was given; slice/slice_ref re-base by exactly the range start; empty split_off/split_to "
           "results are built at self.ptr + at / self.ptr; truncate / clear / set_len / advance never replace or release the handle they narrow, except under an established promotable vtable (A25)",
    "C08": "is_unique slot functions return constant false exactly for families whose into_mut can never hand the memory over, `count == 1` (true on the "
           "unshared branch) otherwise; try_into_mut is exactly is_unique ? Ok(into) : Err(self); every take-over re-validates uniqueness with Acquire; the reclaim helper's contract (A8), no copy on the unique conversion path (A12), parity siblings (E2); the in-place narrowing methods keep the handle attached to its storage, so a sole owner that truncated / cleared its handle still converts back to the same memory (A25); "
           "for an empty BytesMut that is alone on its allocation every path of the reservation helper that returns false or reaches an allocation is excluded when "
           "n <= allocation size (A15, linear-inequality domain)",
    "C18": "Structural clauses, not the quantitative bound. (-1) clear / truncate / set_len / advance narrow the handle in place and never replace or release it (A25: a `clear` that stores a fresh handle makes every refill allocate). (0) Every function that receives &mut BytesMut gets a new byte buffer only through the reservation helper (A22, call graph cut at the helper), "
           "and inside the helper a sole owner never reaches an exact-size allocation: its own buffer grows through Vec::reserve only (A15 'amortised' mode) - so that the number of allocations cannot grow with the history; "
           "the crate's own appending paths ask `reserve` for exactly the bytes they then commit (A24: n == k for advance_mut(k), len + n == L for set_len(L)), so a refill of a partly filled buffer never requests room it does not need. (1) A sole owner whose consumed prefix is at least as long as its live bytes (off >= len - the state a recycling "
           "loop is in whenever its buffer runs out after most of it was consumed) and whose allocation can hold len + n reserves without allocating, and try_reclaim(n) is true "
           "(A15 'recycling' mode; a reclaim test that is too strict, or keyed to the wrong quantity, leaves a path to Vec::reserve open, and the buffer then doubles at every exhaustion). "
           "(2) The statement's last sentence: a reserve(n) on an empty handle that is alone on a buffer that is large enough never allocates (and try_reclaim(n) is true) - "
           "every control-flow path of the reservation helper that reaches Vec::reserve / Vec::with_capacity or returns false is excluded under len == 0, uniqueness and "
           "n <= allocation size, in both representations (KIND_VEC: cap + vec position; KIND_ARC: capacity of the shared Vec). And the precondition of that sentence in a recycling loop: dropping "
           "a split-off part gives its reference back exactly once on every path (A2), so that the remaining handle can become the sole owner again - a leaked reference "
           "makes every later refill allocate; and a round trip through Bytes and back keeps the allocation - no byte-buffer allocation, copy or early release "
           "is reachable from the unique Bytes -> BytesMut conversion (A12). The quantitative part (peak heap and allocation counts over 10^3..10^6-round histories) is NOT decided",
    "C03": "on every CFG path of every vtable/drop/conversion/duplication function the handle's reference is disposed exactly once (minted exactly once "
           "for clone); initial counts match the number of handles; consuming slots are called only on ManuallyDrop'd handles; from_owner boxes before "
           "as_ref, calls it once, unwinds into Drop; handles are merged only when they share one control block; no user code in ManuallyDrop windows; "
           "what is handed back to the allocator is the allocation itself: base pointer and size are recomputed by one formula at every free / rebuild site (A4) from a "
           "vec position whose bit field in the data word stays in range (A17) - a buffer freed at a wrong base or with a wrong size is not released",
    "C02": "structural preconditions of the unsafe code: every safe caller establishes the stated precondition of each unsafe helper in release code; "
           "raw slices have an approved (ptr,len) shape; raw writes are bounded by the real destination length; no wrap-around feeds an extent; "
           "refcount overflow aborts; the length of a BytesMut / slice cursor grows only over bytes written just before (every safe set_len / advance_mut is a shrink or is dominated by a covering write at the first unexposed byte, A16); the tagged word in BytesMut.data keeps its bit fields in range and encodes vec position 0 whenever the pointer is the start of its Vec (A17, upper-bound analysis with control-block fields bounded at every constructor)",
    "C13": "in every safe &mut-self method with integer/range/slice arguments no state write can reach an argument-dependent panic (panic strictly before "
           "mutation); argument checks dominate the unchecked operations they protect in release builds; overflowing requests cannot wrap silently; "
           "Bytes::slice produces every result (also the empty one) only after both range checks; an over-long truncate / resize argument cannot make unwritten bytes visible (A16); every store to Bytes.len / Bytes.ptr narrows the view on every path (A20: offset + len' <= len entailed from the path's release-mode conditions); a panic for a short buffer is raised only where available < requested is known (C8); slice_ref answers without slicing only for the empty subset (A13)",
    "C09": "Chain touches its second half only on paths where the first is exhausted or fully accounted for (incl. chunks_vectored); "
           "Take truncates by min(inner, limit) and pairs every inner advance with limit -= same operand; the five leaf Bufs, the inherited defaults "
           "and IntoIter: remaining()/chunk() cut from one value, advance moves the cursor by exactly its argument, VecDeque lists front before back, "
           "IntoIter yields chunk()[0] and advances by 1 exactly while bytes remain; Chain::{advance, copy_to_bytes} take from the two halves amounts that add up to the request on every path (linear domain)",
    "C12": "Take/Limit: remaining = min(inner, limit), chunk truncated by the same min, guarded paired bookkeeping; Chain order for both traits; "
           "Reader/Writer transfer exactly min(available, requested), return it, never construct Err; accessors are plain field accessors, constructors store "
           "their arguments unchanged; Take::chunks_vectored bounds the inner count by dst.len(); in every function (so also in any further override of Read / Write / Iterator "
           "methods) a byte count handed to a cursor movement rests on an observation of that cursor that is still current, and an index into chunk() on fresh evidence of "
           "non-emptiness (C9); a has_remaining override of Take / Limit is true exactly where limit != 0 and the inner buffer has bytes left. Not decided: whether a loop of judged transfers in a new override ends at the right moment (sum of transfers = min(available, total requested))",
    "C05": "free/take-over decisions are taken on the result of the atomic RMW itself (fetch_sub == 1; CAS 1->0; publishing CAS of a fresh control block "
           "whose loser uses the winner's value); every take-over is dominated by a uniqueness test; the owner given to from_owner is `Send + 'static` (A3: the bound is what makes moving owner-backed handles to other threads sound)",
    "C06": "every atomic site has at least the ordering its role requires (decrement >= Release; Acquire before free; Acquire uniqueness test before "
           "take-over; publishing CAS Release/Acquire; dereferenced loads of a mutable data pointer >= Acquire) and every take-over event is dominated "
           "by such a test locally or at all call sites",
    "C10": "every typed getter uses the conversion/type/byte order/width its name promises, get_X and try_get_X decode identically, "
           "error fields and cursor movement use the value width; no profile-dependent arithmetic on caller-controlled integers in the decoders; "
           "the chunk-gathering slow path loops until the destination is full; the leaf cursors' remaining()/chunk() agree; a try_* reader that returns Err has consumed nothing on any path (own Err, `?` residual, fallible tail call, io::Read::read_exact & co. which consume before failing: C8); every TryGetError { requested, available } - returned or handed to panic_advance - is built under available < requested, so a request the buffer can serve (zero width at the end, an exact fit) is never refused (C8); what from_*_bytes / from_bits decoded is handed out as it is - arithmetic on it is accepted only if, evaluated for every width 0..=8, it selects exactly the bytes read (C2)",
    "C11": "every typed putter uses the conversion/type/byte order/width its name promises (be = tail, le = head slicing of the 8-byte encoding); copy loops "
           "move min(real lengths) and stop only on exhaustion; BytesMut's growth path moves the bytes in the right direction before re-basing; advance_mut after a specialised write exposes exactly bytes that a dominating write at the write cursor covered (A16); what a putter encodes is its argument through bit-preserving conversions only (C2 value flow); no raw pointer into the buffer survives a call that may move it (A21); bounds taken from a cursor are current where they are used (C9); a put that fits exactly is not refused: the TryGetError given to panic_advance is built under available < requested (C8); a char is narrowed to a byte only where it is known ASCII (U3: `write_char` fast paths); the provided put_slice / put_bytes return only when everything was written, typed putters write only their encoding on every path (C2), the slice cursors are swapped out only after the length check (C8)",
    "C16": "no profile-dependent arithmetic (overflow/shift asserts, explicit wrapping ops) on caller-controlled integers anywhere in the crate; the "
           "even/odd promotable vtables are slot-wise isomorphic modulo unmasking, the parity dispatch is consistent and vtable identity tests cover both parities; the verdict tables of every rule of the framework (not only the rules listed here) agree between the analysed "
           "configurations - default / no_std / portable-atomic / release-like in the quick tier, K1..K6 in the thorough tier (E3; only the differences are reported here); the conditions of debug_assert! are effect-free, so builds with and without debug assertions run the same state changes (E5); "
           "address differences are (pointer into a buffer) - (start of that buffer) or guarded, so no subtraction panics in debug and wraps in release (E6); every precondition an unsafe helper states under debug_assert! is established by its safe callers in release code, and debug-only assertions are classified as entailed / precondition / literal parameter set / representation fact (E7; the last kind is labelled, not decided)",
    "C14": "all comparison/hash/borrow impls delegate to the [u8] impl over content-preserving views with operands in the right order",
}

LEVEL_TEXT = {
    "C14": "Orientation analysis over resolved callees of all 56 comparison/hash/borrow impls: each delegates to the [u8] impl over "
           "content-preserving views with (self, other) in order; holds for all byte strings, representations and operand orders.",
}
LEVEL_NOTE = {
    "C14": "trusted: rustc type checking/trait resolution, std slice comparison and hash impls, std views (as_bytes, deref, [..]); views show the contents (C01).",
}
TECHNIQUE = {
    "C17": "interprocedural taint analysis over MIR expression trees (sources: results of unresolved user-trait calls; sinks: unsafe extents; sanitisers: min / dominating guards)",
    "C15": "finite-domain (0..=255) value-set propagation through the byte comparisons in MIR joined with format templates from the expanded AST; provenance flow for serde",
    "C01": "signature/impl-table scan of Bytes (effect property) + dominance rules for byte moves and re-basing over MIR provenance trees + token accounting; abstract interpretation over the state at the end of each CFG path in a linear-inequality domain (len <= cap preserved, returned Vec length exact, length grows only over written bytes); upper-bound analysis of the tagged data word",
    "C04": "per-write justification rules over MIR provenance trees and dominating guards (A8), path enumeration of the reservation helper, arithmetic taint (E1); entailment of reserve's promise and of len <= cap over the state at the end of every path (stores and Vec effects applied) in a linear-inequality domain with own Fourier-Motzkin emptiness test; forward gen/kill dataflow of raw-pointer provenance against buffer-moving calls (A21)",
    "C07": "effect reachability over the crate call graph with vtable slots expanded to all bound functions; exemptions verified by dominating guards; replacement-event reachability for the narrowing methods with dominating vtable-identity guards (A25)",
    "C08": "return-value flow of the is_unique slot functions cross-checked against the take-over paths of into_mut (path summaries) + dominating-guard analysis; "
           "abstract interpretation of the reservation helper in a linear-inequality domain (own Fourier-Motzkin emptiness test), one state per CFG path",
    "C18": "abstract interpretation of the reservation helper's MIR in a linear-inequality domain (own Fourier-Motzkin emptiness test, one state per CFG path) under the "
           "hypotheses empty + sole owner + request <= allocation size: all paths to allocation calls / `return false` must be empty; "
           "path-sensitive linear-token accounting of references (A2); who-may-allocate reachability over the resolved call graph, cut at the reservation helper (A22); replacement-event reachability for the narrowing methods (A25)",
    "C03": "path-sensitive linear-token accounting over MIR (acyclic path enumeration with constant folding and tag-feasibility pruning, interprocedural event summaries)",
    "C02": "precondition extraction from debug_assert!s of unsafe helpers + dominating-guard implication at every safe call site; shape rules for raw slices/writes; arithmetic taint; linear-inequality entailments over path end states (A16 A18); upper-bound (bit-field) analysis of the tagged data word (A17); effect analysis of debug-only regions",
    "C13": "reachability from state-write sites to argument-dependent panic sites over MIR CFGs with interprocedural summaries; dominating-guard implication; arithmetic taint; linear-inequality entailments (shrink-or-fill for set_len/advance_mut; callee panic sites judged in inlined views)",
    "C09": "path rule over MIR CFG: every entry->call path to a call on Chain.b carries an a-exhausted witness; shape rules for Take; path-sensitive conservation check (amounts taken from both halves add up) in the linear domain; Err-path atomicity of try_* readers; forward must/may dataflow of cursor observations against cursor movements (C9)",
    "C12": "shape + path rules over MIR for the adapters' arithmetic (min, truncation, paired decrement, Chain order, Reader/Writer transfer); forward must/may dataflow of cursor observations against cursor movements, loops to a fixpoint (C9)",
    "C05": "role classification of all atomic sites + dominance of free/take-over events by the deciding RMW edge (MIR CFG dominators, interprocedural over call sites)",
    "C06": "ordering-by-role conformance at all atomic sites (release/acquire recipe) + dominating Acquire-guard analysis for take-over events",
    "C14": "MIR orientation/delegation analysis over rustc-resolved callees (custom rustc_private driver)",
    "C10": "name-grammar vs decode-signature agreement over MIR callees, sibling agreement get/try_get, taint+guard analysis of overflow asserts; path rule: every Err path of a try_* reader precedes all consuming calls, every Ok path consumes exactly once",
    "C11": "name-grammar vs encode-signature agreement over MIR callees, value-flow of the encoded operand, taint+guard analysis of overflow asserts; forward gen/kill dataflows for raw-pointer freshness (A21) and cursor-observation freshness (C9)",
    "C16": "taint + dominating-guard analysis of every MIR overflow/shift assert (profile-dependent arithmetic); effect analysis of debug-only regions (E5); differential: verdict tables of all rules compared between the release-like, no_std, portable-atomic and default configurations in the quick tier (K1..K6 thorough); buffer-start provenance of address subtractions resolved through helper callers (E6); entailment of debug-only assertions from the release-mode conditions in the linear domain and re-use of the caller-side obligation analysis (E7)",
}
LEVEL_NOTE["C17"] = ("trusted: slices returned by safe user code have their real length; BufMut is an unsafe trait (its implementors are trusted). NOT decided: "
                      "leak-freedom when user code panics at arbitrary points (unwinding paths are analysed for from_owner only).")
LEVEL_NOTE["C15"] = ("trusted: core::fmt's rendering of {} for char and {:02x}/{:02X} for u8 (modelled, not executed); escapes are self-delimiting per the Rust "
                      "reference grammar, so per-byte correctness implies whole-string correctness. NOT decided: round trips through arbitrary serde (de)serializers.")
LEVEL_NOTE["C08"] = ("trusted: rustc, std atomics; arithmetic on the analysed paths is exact (overflow-checked on the path or vouched for by E1); the allocation size of the "
                      "inline-Vec form is cap + vec position (the invariant A8 checks at every pointer move). NOT decided: truthfulness of is_unique over whole histories.")
LEVEL_NOTE["C18"] = ("Decides the statement's last sentence ('a reserve on an empty handle that is alone on a buffer that is large enough never allocates') and its generalisation to "
                      "a sole owner whose dead prefix covers its live bytes; both are necessary conditions of the bound (a violating state recurs in a periodic history and the buffer grows at every exhaustion). NOT decided and not claimed: the bound on peak heap and on the number of allocations over long histories - it depends on run-time "
                      "sizes (amortisation test off >= len, doubling, original_capacity_repr) that no sound static argument in reach can bound (DESIGN.md §6 C18, §20).")
NOT_APPLICABLE = {}

TRUSTED = [
    "rustc type checker, trait resolution and MIR construction (nightly 1.97)",
    "documented behaviour of std Vec/Box/slice/str/atomics",
    "event/view classification tables in /verif/rules (printed in evidence, exercised by controls)",
]


def rules_for(prop):
    return [importlib.import_module("rules." + m) for m in PROPERTY_RULES.get(prop, [])]


def all_rules():
    """every rule module listed for some property (each once)"""
    seen, out = set(), []
    for p in sorted(PROPERTY_RULES):
        for m in PROPERTY_RULES[p]:
            if m not in seen:
                seen.add(m)
                out.append(importlib.import_module("rules." + m))
    return out
