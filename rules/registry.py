"""Which rules decide which property (DESIGN.md §0/§6). A rule module exposes run(facts) -> Result."""
import importlib

# property -> list of (rule module, configs it needs in quick tier)
PROPERTY_RULES = {
    "C14": ["r_d1"],
}

LEVEL = {"C14": "proof"}

CLAUSES = {
    "C14": "all comparison/hash/borrow impls delegate to the [u8] impl over content-preserving views with operands in the right order",
}

TRUSTED = [
    "rustc type checker, trait resolution and MIR construction (nightly 1.97)",
    "documented behaviour of std Vec/Box/slice/str/atomics",
    "event/view classification tables in /verif/rules (printed in evidence, exercised by controls)",
]


def rules_for(prop):
    return [importlib.import_module("rules." + m) for m in PROPERTY_RULES.get(prop, [])]
