"""A10 NO-MUT-API — the public surface of `Bytes` offers no way to mutate the bytes: no impl item returns or
lends &mut [u8] / &mut UninitSlice / *mut u8, and Bytes implements none of the mutation traits.
(The raw writes reachable from &Bytes / slot functions are the copy-backs checked by O3 and A9.)"""
from .base import Result, RuleError
from . import roles

FORBIDDEN_TRAITS = ("core::ops::DerefMut", "core::convert::AsMut", "core::borrow::BorrowMut", "buf::buf_mut::BufMut",
                    "std::io::Write", "core::fmt::Write", "core::iter::Extend", "core::ops::IndexMut")
MUT_TYPES = ("&mut [u8]", "*mut u8", "&mut buf::uninit_slice::UninitSlice", "&mut [core::mem::MaybeUninit<u8>]", "&'a mut [u8]")


def run(facts):
    res = Result("A10", "Bytes has no API that returns or lends mutable access to its bytes and implements no mutation trait")
    handles = roles.handle_types(facts)
    imm = [h for h in handles if h.endswith("::Bytes")]
    if len(imm) != 1:
        raise RuleError("immutable handle type not found among %r" % handles)
    H = imm[0]
    n_impls = n_items = 0
    import re
    for im in facts.impls:
        if re.sub(r"'[a-z_]+ ", "", im["self_ty"]).lstrip("&") != H and im["self_ty"] != H:
            continue
        n_impls += 1
        tr = im.get("trait")
        first = ([it["name"] for it in im["items"]] or ["-"])[0]
        key = "impl %s for %s" % (im.get("trait_ref") or tr, im["self_ty"]) if tr else "inherent impl %s {%s..}" % (im["self_ty"], first)
        loc = "%s:%s" % (im["span"]["file"], im["span"]["line"])
        if tr in FORBIDDEN_TRAITS and im["self_ty"] == H:
            res.bad(key, loc, "Bytes implements %s: its contents could be changed after creation" % tr)
            continue
        bad = []
        for it in im["items"]:
            if not it["kind"].startswith("Fn"):
                continue
            n_items += 1
            f = facts.fns_by_did.get(it.get("did"))
            if f is None:
                continue
            out = re.sub(r"'[a-z_]+ ", "", f.get("output", ""))
            if any(m in out for m in MUT_TYPES):
                # only an issue when the receiver is (a reference to) Bytes itself
                ins = [re.sub(r"'[a-z_]+ ", "", x) for x in f.get("inputs", [])]
                if any(H in x for x in ins) or not ins:
                    bad.append("%s -> %s" % (it["name"], out))
        if bad:
            res.bad(key, loc, "item(s) hand out mutable access to the bytes: %s" % "; ".join(bad))
        else:
            res.ok(key, loc, "no item returns &mut [u8] / *mut u8 / &mut UninitSlice")
    res.floor("impls_of_Bytes", n_impls, 20)
    res.floor("fn_items", n_items, 40)
    return res
