"""Loop-carried byte budgets: closed forms of integer locals of a loop over MIR definitions (template-based invariant inference).

A loop that hands out slices under a byte limit (`Take::chunks_vectored`) keeps a budget: what may still be handed out.  The cut
`slice.get(..B)` / `&slice[..B]` / `min(B, slice.len())` is right only if, in every iteration,

        B  ==  LIMIT  -  S           S = the sum of len(slice) over the earlier iterations (the slices listed whole)

The value of an integer local inside the loop is written as a linear form over { LIMIT (a field of self read outside the loop),
LEN (the length of this iteration's slice), S, 1, and V_l for locals l that have several definitions }.  For a local with
definitions outside the loop (init) and inside it (step) the template  f_l(S) = init + c*S,  c in {-1, 0, 1}  is tried: it is an
invariant iff every step definition evaluates to  V_l + c*LEN  (one more whole slice => S grows by LEN), every path round the loop
passes one step definition, and no two step definitions lie on one path.  `listed = slice.len()` (assigned, not accumulated) fits no
template, so `self.limit - listed` has no closed form and the cut is reported.
"""
from .facts import callee
from .flow import defs_of, cfg_of

S = ("S",)


def lf_add(a, b, k=1):
    if a is None or b is None:
        return None
    out = dict(a)
    for s, c in b.items():
        out[s] = out.get(s, 0) + k * c
        if out[s] == 0:
            del out[s]
    return out


class Loop:
    def __init__(self, body, facts, site):
        self.b = body
        self.facts = facts
        self.cfg = cfg_of(body)
        self.site = site
        self.defs = defs_of(body)
        self.in_loop = lambda bb: bb == site or (self.cfg.reaches(bb, site) and self.cfg.reaches(site, bb))

    # --- what a reference / slice value is a view of ------------------------------------------------------------------------------
    def chase(self, op):
        """the local a slice / reference operand ultimately views (through `&*x`, Deref::deref, transmutes, plain copies)"""
        for _ in range(16):
            if not isinstance(op, dict) or op.get("k") not in ("copy", "move"):
                return None
            pl = op["pl"]
            if pl["p"] and pl["p"] != ["*"]:
                return (pl["l"], str([(pe if isinstance(pe, str) else (pe.get("n", pe.get("f")), pe.get("vname"))) for pe in pl["p"]]))
            l = pl["l"]
            ds = self.defs.get(l, [])
            if len(ds) != 1 or 1 <= l <= self.b.arg_count:
                return (l, "")
            bb, si, kind, payload = ds[0]
            if kind == "assign":
                rv = payload
                if rv["k"] == "use":
                    op = rv["op"]
                elif rv["k"] == "cast":
                    op = rv["op"]
                elif rv["k"] in ("ref", "rawptr") and rv["pl"]["p"] in (["*"], []):
                    op = {"k": "copy", "pl": {"l": rv["pl"]["l"], "p": []}}
                else:
                    return (l, "")
            else:
                fn = callee(payload)
                if fn and fn["name"] in ("deref", "as_ref", "borrow", "deref_mut", "as_slice") and len(payload["args"]) == 1:
                    op = payload["args"][0]
                else:
                    return (l, "")
        return None

    # --- linear forms ---------------------------------------------------------------------------------------------------------------
    def operand(self, op, depth=0):
        if depth > 24 or not isinstance(op, dict):
            return None
        if op.get("k") == "const":
            v = op.get("v")
            return {1: v} if isinstance(v, int) and v != 0 else ({} if v == 0 else None)
        if op.get("k") not in ("copy", "move"):
            return None
        pl = op["pl"]
        l, p = pl["l"], pl["p"]
        if p:
            if len(p) == 1 and isinstance(p[0], dict) and p[0].get("f") == 0:
                ds = self.defs.get(l, [])
                if len(ds) == 1 and ds[0][2] == "assign" and ds[0][3]["k"] == "bin" and ds[0][3]["op"].endswith("WithOverflow"):
                    return self.bin(ds[0][3], depth + 1)
            if len(p) == 2 and p[0] == "*" and isinstance(p[1], dict) and "f" in p[1] and l == 1:
                return {("FIELD", str(p[1].get("n", p[1]["f"]))): 1}
            return None
        if 1 <= l <= self.b.arg_count:
            return {("P", l): 1}
        ds = self.defs.get(l, [])
        if len(ds) != 1:
            return {("V", l): 1} if ds else None
        bb, si, kind, payload = ds[0]
        if kind == "assign":
            return self.rvalue(payload, depth + 1)
        fn = callee(payload)
        if fn and fn["name"] == "len" and len(payload["args"]) == 1:
            r = self.chase(payload["args"][0])
            return {("LEN", r): 1} if r is not None else None
        if fn and fn["name"] in ("min", "max") and len(payload["args"]) == 2:
            return {(fn["name"].upper(), l): 1}
        return None

    def bin(self, rv, depth):
        op = rv["op"].replace("WithOverflow", "").replace("Unchecked", "")
        a, b = self.operand(rv["a"], depth), self.operand(rv["b"], depth)
        if op == "Add":
            return lf_add(a, b)
        if op == "Sub":
            return lf_add(a, b, -1)
        return None

    def rvalue(self, rv, depth):
        if rv["k"] == "use":
            return self.operand(rv["op"], depth)
        if rv["k"] == "cast" and rv.get("ck") == "IntToInt":
            return self.operand(rv["op"], depth)
        if rv["k"] == "bin":
            return self.bin(rv, depth)
        return None

    # --- closed forms of loop-carried locals ------------------------------------------------------------------------------------------
    def closed(self, l, elem):
        """(f_l as a linear form over S and loop-invariant symbols, note) or (None, why)"""
        ds = self.defs.get(l, [])
        init = [d for d in ds if not self.in_loop(d[0])]
        step = [d for d in ds if self.in_loop(d[0])]
        nm = self.b.locals[l].get("name") or "_%d" % l
        if not init or not step:
            return None, "`%s` has no %s definition" % (nm, "initial" if not init else "in-loop")
        forms = []
        for d in init:
            f = self.rvalue(d[3], 0) if d[2] == "assign" else None
            if f is None or any(isinstance(s, tuple) and s[0] in ("V", "LEN") for s in f):
                return None, "the initial value of `%s` is not a loop-invariant amount" % nm
            forms.append(f)
        if any(f != forms[0] for f in forms):
            return None, "`%s` starts from different amounts" % nm
        cs = set()
        for d in step:
            f = self.rvalue(d[3], 0) if d[2] == "assign" else None
            if f is None:
                return None, "`%s` is updated in the loop by something that is not a sum or difference of amounts" % nm
            delta = lf_add(f, {("V", l): 1}, -1)
            if delta == {}:
                cs.add(0)
            elif delta == {("LEN", elem): 1}:
                cs.add(1)
            elif delta == {("LEN", elem): -1}:
                cs.add(-1)
            else:
                return None, "`%s` is not carried from one iteration to the next: its new value is not its old value plus or minus the length of the slice just listed" % nm
        if len(cs) != 1:
            return None, "`%s` is updated differently on different paths" % nm
        c = cs.pop()
        if c != 0:
            sblocks = {d[0] for d in step}
            # every way round the loop charges once
            if self._cycle_avoiding(sblocks):
                return None, "an iteration can go round the loop without updating `%s`" % nm
            for s1 in sblocks:
                if self._reaches_without(s1, sblocks - {s1} if len(sblocks) > 1 else set(), {self.site}):
                    return None, "`%s` is updated twice on one way round the loop" % nm
        return lf_add(forms[0], {S: c}), "%s = %s%s" % (nm, fmt(forms[0]), {0: "", 1: " + S", -1: " - S"}[c])

    def _cycle_avoiding(self, avoid):
        """is there a path site ->+ site that touches no block of `avoid`"""
        seen = set()
        st = [s for s in self.cfg.succ[self.site] if s not in avoid]
        while st:
            x = st.pop()
            if x == self.site:
                return True
            if x in seen:
                continue
            seen.add(x)
            st.extend(s for s in self.cfg.succ[x] if s not in avoid)
        return False

    def _reaches_without(self, a, targets, stop):
        seen = set()
        st = [s for s in self.cfg.succ[a]]
        while st:
            x = st.pop()
            if x in targets:
                return True
            if x in seen or x in stop:
                continue
            seen.add(x)
            st.extend(self.cfg.succ[x])
        return False

    def resolve(self, f, elem):
        """substitute closed forms for the V symbols of f; -> (form, notes) or (None, why)"""
        notes = []
        for _ in range(8):
            vs = [s for s in f if isinstance(s, tuple) and s[0] == "V"]
            if not vs:
                return f, notes
            for s in vs:
                c = f.pop(s)
                g, note = self.closed(s[1], elem)
                if g is None:
                    return None, note
                notes.append(note)
                f = lf_add(f, g, c)
        return None, "no closed form"


def fmt(f):
    if not f:
        return "0"
    out = []
    for s, c in f.items():
        nm = "1" if s == 1 else ("self.%s" % s[1] if s[0] == "FIELD" else ("S" if s == S else ("len(slice)" if s[0] == "LEN" else "%s%s" % (s[0].lower(), s[1]))))
        if s == 1:
            out.append(str(c))
        else:
            out.append(("" if c == 1 else "-" if c == -1 else "%d*" % c) + nm)
    return " + ".join(out).replace("+ -", "- ")
