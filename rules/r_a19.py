"""A19 VEC-LEN-EXACT: a conversion of a handle into `Vec<u8>` returns a Vec whose length is the handle's length on EVERY path.

Instances: crate functions that return `Vec<u8>` and receive a view - a slot-style `(.., ptr: *const u8, len: usize, ..)` pair or a
`BytesMut` / `Bytes` by value (the into_vec slot functions and their helpers, `From<BytesMut> for Vec<u8>`).  For every returning
path the *state at the end of the path* (rules/pathstate.py: Vec mutations applied in order) must entail, in the linear-inequality
domain,   len(returned Vec) == view length.   What is known about the returned Vec's length:

  Vec::from_raw_parts(b, L, C)                  L            rebuild_vec(p, l, c, o)           l + o
  <[u8]>::to_vec(s), s = from_raw_parts(p, n)   n            v.set_len(e) (latest on the path) e
  a crate function of this rule's own set called with this function's own (ptr, len)            len   (it is checked itself)
  mem::replace(&mut shared.vec, ..)              unknown (the control block's Vec length is dead state, A9-iv)

A path on which the length-fixing step is skipped - an `if len != 0 { copy; set_len }` that forgets the empty view, an early
return - leaves the whole buffer's length (or a stale one) in the Vec: the caller sees bytes the handle never held (C01).
"""
from .base import Result
from .facts import callee
from .flow import enumerate_paths, canon, fmt_expr, walk
from .pathstate import StatePathBuilder, root_of
from .lin import State
from . import roles


def view_len_of(b, handles):
    """expression of the view's length in terms of b's parameters, or None"""
    tys = [b.locals[i]["ty"] for i in range(1, b.arg_count + 1)]
    for i in range(len(tys) - 1):
        if tys[i] in ("*const u8", "*mut u8") and tys[i + 1] == "usize":
            return ("param", i + 2)
    for i, t in enumerate(tys):
        if t in handles:
            return ("field", ("param", i + 1), "len")
    return None


def judge_body(facts, b, L, own):
    bad = None
    n_paths = 0
    for path in enumerate_paths(b, limit=3000):
        sp = StatePathBuilder(b, facts, path)
        end = (path[-1], len(b.blocks[path[-1]]["stmts"]))
        r = sp.local(0, end)
        root = root_of(r)
        n_paths += 1
        extra = []
        # delegation to another function of this set with the view handed over unchanged
        if isinstance(root, tuple) and root and root[0] == "call" and root[1] in own:
            cb = facts.by_id.get(root[1], [None])[0]
            Lc = own[root[1]]
            ok_args = False
            if cb is not None and Lc[0] == "param" and Lc[1] - 1 < len(root[2]):
                ok_args = canon(root[2][Lc[1] - 1]) == canon(L)
            elif cb is not None and Lc[0] == "field":
                ok_args = any(canon(a) in (("param", L[1][1]) if L[0] == "field" else None, ("deref", ("param", 1))) for a in root[2])
            if ok_args:
                continue
            bad = (path, "delegates to %s without handing its own view length on" % root[1].rsplit("::", 1)[-1])
            break
        # dispatch through the vtable's into_vec slot with the handle's own (data, ptr, len): the slot functions are judged themselves
        if isinstance(root, tuple) and root and root[0] == "icall" and "into_vec" in str(root[1]) and len(root[2]) >= 3 and canon(root[2][2]) == canon(L):
            continue
        # the rebuild helper `Vec::from_raw_parts(ptr - off, len + off, cap + off)`: not a view conversion (A4 judges its formula, and
        # every caller that returns its result is an instance of this rule)
        if isinstance(root, tuple) and root and root[0] == "call" and root[1].endswith("from_raw_parts") and len(root[2]) == 3 \
                and isinstance(canon(root[2][0]), tuple) and any(isinstance(x, tuple) and x and x[0] == "call" and x[1].rsplit("::", 1)[-1] == "sub" for x in walk(canon(root[2][0]))) \
                and all(isinstance(canon(a), tuple) and canon(a)[0] == "bin" and canon(a)[1] == "Add" for a in root[2][1:]):
            n_paths -= 1
            continue
        nver = sum(1 for m in sp.mutations if m[2] == root)
        final = ("vecprop", "len", root, nver)
        if isinstance(root, tuple) and root and root[0] == "call":
            nm = root[1].rsplit("::", 1)[-1]
            if nm == "from_raw_parts" and "Vec" in root[1] and len(root[2]) == 3:
                extra.append(("eq", ("vecprop", "len", root, 0), root[2][1]))
            elif nm == "to_vec" and root[2]:
                s_ = root_of(root[2][0])
                if isinstance(s_, tuple) and s_ and s_[0] == "call" and s_[1].rsplit("::", 1)[-1] in ("from_raw_parts", "from_raw_parts_mut") and len(s_[2]) == 2:
                    extra.append(("eq", ("vecprop", "len", root, 0), s_[2][1]))
                elif isinstance(s_, tuple) and s_ and s_[0] == "call" and s_[1].rsplit("::", 1)[-1] in ("deref", "as_ref", "as_slice", "borrow") and s_[2] \
                        and root_of(s_[2][0]) == ("param", L[1][1] if L[0] == "field" else -1):
                    extra.append(("eq", ("vecprop", "len", root, 0), L))       # the handle's own slice view: its length is the handle's len
                else:
                    extra.append(("eq", ("vecprop", "len", root, 0), ("call", "core::slice::<impl [T]>::len", (root[2][0],))))
        st = State(sp.path_relations() + sp.vec_facts() + extra)
        if not st.entails(("eq", final, L)):
            bad = (path, "the returned Vec (%s) is not given the view's length on this path" % fmt_expr(canon(root))[:70])
            break
    return bad, n_paths


def run(facts):
    res = Result("A19", "every conversion of a handle into Vec<u8> returns, on every path, a Vec whose length is exactly the handle's length "
                        "(state at the end of the path; Vec::from_raw_parts / rebuild_vec / to_vec / set_len effects; linear-inequality domain)")
    handles = set(roles.handle_types(facts))
    cands = []
    for b in facts.fn_bodies():
        if facts.is_test(b) or b.kind not in ("fn", "assoc_fn"):
            continue
        out = str(b.j.get("output", ""))
        if not out.startswith("alloc::vec::Vec<u8"):
            continue
        L = view_len_of(b, handles)
        if L is None:
            continue
        cands.append((b, L))
    own = {b.id: L for b, L in cands}
    n = 0
    verdicts = {}
    for b, L in cands:
        n += 1
        bad, n_paths = judge_body(facts, b, L, own)
        if bad:
            from .inline import views
            for ib in views(facts, b, keep_names=("rebuild_vec", "offset_from")):
                bad2, n2 = judge_body(facts, ib, L, own)
                if not bad2 and n2:
                    bad, n_paths = None, n2
                    break
        verdicts[b.did] = (b, bad, n_paths)
    from .inline import callers_of
    cand_dids = set(verdicts)
    for did, (b, bad, n_paths) in verdicts.items():
        key = "%s|returned Vec has the view's length" % b.id
        if bad and str(b.vis).startswith("Restricted"):
            # a private helper with more than one (pointer, usize) pair (`copy_back_to_vec(buf, cap, ptr, len)`): which pair is the view is only
            # known to its callers - if every caller is a conversion of this rule's own set and is fine with the helper spliced in, that decides
            cs = [c for c in callers_of(facts, did) if not facts.is_test(c)]
            if cs and all(c.did in cand_dids and verdicts[c.did][1] is None for c in cs):
                res.ok(key, b.loc(), "judged in its callers (%s), helper spliced in" % ", ".join(sorted(c.id.rsplit("::", 1)[-1] for c in cs)), nontrivial=True)
                continue
        if bad:
            res.bad(key, b.loc(), "on the path bb%s %s: the caller would see a Vec whose length is not the handle's len()" % (
                "->bb".join(str(x) for x in bad[0]), bad[1]))
        else:
            res.ok(key, b.loc(), "%d path(s), length == view length on each" % n_paths, nontrivial=True)
    res.floor("handle -> Vec<u8> conversions", n, 6)
    return res
