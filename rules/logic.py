"""Small implication engine over dominating guards (shared by E1, A6, A8, C3, E4).

Facts at a block = relations established by dominating switch/assert edges (flow.relations_at with
getter inlining), minus debug-only facts (overflow flags, conditions inside debug_assert!), plus a
few derived ones (x <= min(p,q) => x <= p, x <= q; slice.get(..n) is None => len < n; checked_sub is
Some => b <= a). `le(a, b)` decides a <= b from them with bounded transitivity and the representation
invariants that rules A5/A8 check at every write (BytesMut.len <= BytesMut.cap, Vec::len <= capacity).
"""
from .flow import canon, relations_at, walk

ISIZE_MAX = (1 << 63) - 1


def uncast(e):
    while isinstance(e, tuple) and e and e[0] == "cast" and e[1] == "IntToInt":
        e = e[2]
    return e


def is_call(e, name):
    return isinstance(e, tuple) and e and e[0] == "call" and e[1].rsplit("::", 1)[-1] == name


def const_of(e):
    e = uncast(e)
    if isinstance(e, tuple) and e and e[0] == "const" and isinstance(e[1], int):
        return e[1]
    return None


def add_terms(e):
    """additive terms of an unsigned sum: a + b, checked_add(a, b).unwrap()/expect(..)/Some-payload, (a + b).0 of an
    overflow-checked add"""
    e = uncast(e)
    if isinstance(e, tuple) and e:
        if e[0] == "bin" and e[1] in ("Add", "AddWithOverflow", "AddUnchecked"):
            return add_terms(e[2]) + add_terms(e[3])
        if e[0] == "field" and isinstance(e[1], tuple) and e[1]:
            if e[1][0] == "bin" and e[1][1] == "AddWithOverflow" and e[2] in (0, "0"):
                return add_terms(e[1][2]) + add_terms(e[1][3])
            if e[1][0] == "variant" and is_call(e[1][1], "checked_add"):
                return add_terms(e[1][1][2][0]) + add_terms(e[1][1][2][1])
        if (is_call(e, "expect") or is_call(e, "unwrap")) and is_call(e[2][0], "checked_add"):
            return add_terms(e[2][0][2][0]) + add_terms(e[2][0][2][1])
    return [e]


class Ctx:
    def __init__(self, body, bb, facts, extra=(), norm=None):
        self.body = body
        self.bb = bb
        self.facts = facts
        self.norm = norm or (lambda e: e)
        self.raw = list(relations_at(body, bb, facts, inline=True)) + list(extra)
        self.rels = self._derive(self.raw)
        if norm:
            self.rels = [tuple(norm(x) if isinstance(x, tuple) else x for x in r) if r[0] != "truth" else ("truth", norm(r[1]), r[2]) for r in self.rels]

    # ---- derivation ---------------------------------------------------------------------------
    def _derive(self, rels):
        out = []
        rels = list(rels)
        for i, r in enumerate(rels):
            if r[0] == "notin" and isinstance(r[1], tuple) and r[1][0] == "discr" and r[2] in ((0,), (1,)):
                rels[i] = ("truth", r[1], 1 - r[2][0])
        for r in rels:
            if r[0] == "truth":
                e, v = uncast(r[1]), r[2]
                if not isinstance(e, tuple) or not e:
                    continue
                if e[0] == "ovf":
                    continue
                if e[0] == "discr" and isinstance(e[1], tuple) and e[1][0] == "call":
                    c = e[1]
                    nm = c[1].rsplit("::", 1)[-1]
                    a = c[2]
                    if nm in ("get", "get_mut") and v == 0 and len(a) == 2 and isinstance(a[1], tuple) and a[1][0] == "agg" and "RangeTo" in str(a[1][1]):
                        out.append(("lt", ("call", "core::slice::<impl [T]>::len", (a[0],)), a[1][2][0]))
                    if nm in ("get", "get_mut") and v == 1 and len(a) == 2 and isinstance(a[1], tuple) and a[1][0] == "agg" and "RangeTo" in str(a[1][1]):
                        out.append(("le", a[1][2][0], ("call", "core::slice::<impl [T]>::len", (a[0],))))
                    if nm in ("first", "first_mut", "last", "last_mut", "split_first", "split_last", "split_first_mut", "split_last_mut") and len(a) == 1 and v in (0, 1):
                        # Some(..) exactly when the slice is non-empty
                        out.append(("truth", ("call", "core::slice::<impl [T]>::is_empty", (canon(a[0]),)), 1 - v))
                        if v == 1:
                            out.append(("lt", ("const", 0), ("call", "core::slice::<impl [T]>::len", (canon(a[0]),))))
                    if nm == "checked_sub" and v == 1:
                        out.append(("le", a[1], a[0]))
                    if nm == "checked_sub" and v == 0:
                        out.append(("lt", a[0], a[1]))
                out.append(("truth", canon(e), v))
                continue
            if r[0] in ("lt", "le", "eq", "ne"):
                out.append((r[0], canon(r[1]), canon(r[2])))
            else:
                out.append(r)
        out = [(r[0], canon(r[1]), canon(r[2])) if r[0] in ("lt", "le", "eq", "ne") else r for r in out]
        more = []
        for r in out:
            if r[0] in ("le", "lt"):
                y = r[2]
                if is_call(y, "min") and len(y[2]) == 2:
                    more.append((r[0], r[1], y[2][0]))
                    more.append((r[0], r[1], y[2][1]))
            if r[0] == "eq":
                more.append(("le", r[1], r[2]))
                more.append(("le", r[2], r[1]))
        return out + more

    # ---- queries ------------------------------------------------------------------------------
    def le(self, a, b, depth=0):
        """a <= b ?"""
        a, b = self.norm(canon(uncast(a))), self.norm(canon(uncast(b)))
        if a == b:
            return True
        ca, cb = const_of(a), const_of(b)
        if ca is not None and cb is not None:
            return ca <= cb
        if ca == 0:
            return True
        # a <= checked_add(a, y) payload / a <= a + y (the sum is checked or decided by E1)
        bb_ = b
        if isinstance(bb_, tuple) and bb_[0] == "field" and isinstance(bb_[1], tuple) and bb_[1][0] == "variant" and is_call(bb_[1][1], "checked_add"):
            if a in bb_[1][1][2] or (depth < 3 and any(self.le(a, x, depth + 1) for x in bb_[1][1][2])):
                return True
        if is_call(bb_, "expect") or is_call(bb_, "unwrap"):
            inner = bb_[2][0]
            if is_call(inner, "checked_add") and (a in inner[2] or (depth < 3 and any(self.le(a, x, depth + 1) for x in inner[2]))):
                return True
        # sums of unsigned terms: every term of a also occurs in b (sums are checked, or decided by E1 where they are not)
        if depth <= 2:
            ta, tb = add_terms(a), add_terms(b)
            if (len(ta) > 1 or len(tb) > 1) and ta:
                rest = list(tb)
                ok = True
                for x in ta:
                    if x in rest:
                        rest.remove(x)
                    else:
                        ok = False
                        break
                if ok:
                    return True
        # min(.., b, ..) <= b ;   a <= max(.., a, ..)
        if is_call(a, "min") and any(self.le(x, b, depth + 1) for x in a[2]) and depth < 3:
            return True
        if is_call(b, "max") and any(self.le(a, x, depth + 1) for x in b[2]) and depth < 3:
            return True
        if is_call(b, "min") and depth < 3 and all(self.le(a, x, depth + 1) for x in b[2]):
            return True
        # x - y <= x   (when the subtraction itself is in range, which E1 decides)
        if isinstance(a, tuple) and a[0] == "bin" and a[1] == "Sub" and depth < 3 and self.le(a[2], b, depth + 1):
            return True
        # saturating_sub(x, y) <= x
        if isinstance(a, tuple) and a[0] == "call" and "saturating_sub" in a[1] and depth < 3 and self.le(a[2][0], b, depth + 1):
            return True
        # representation invariants: h.len <= h.cap ; Vec::len <= Vec::capacity
        if isinstance(a, tuple) and isinstance(b, tuple) and a[0] == "field" and b[0] == "field" and a[1] == b[1] \
                and a[2] == "len" and b[2] == "cap":
            return True
        if is_call(a, "len") and is_call(b, "capacity") and a[2] == b[2]:
            return True
        for r in self.rels:
            if r[0] in ("le", "lt") and r[1] == a:
                if r[2] == b:
                    return True
                if depth < 2 and self.le(r[2], b, depth + 1):
                    return True
        for r in self.rels:
            if r[0] in ("le", "lt") and r[2] == b and depth < 2 and r[1] != a and self.le(a, r[1], depth + 1):
                return True
        return False

    def lt(self, a, b):
        a, b = canon(uncast(a)), canon(uncast(b))
        ca, cb = const_of(a), const_of(b)
        if ca is not None and cb is not None:
            return ca < cb
        if ca is not None:
            # integer reasoning on constants: c' <= b with c' > c, c' < b with c' >= c, and (unsigned) b != 0 for c == 0
            for r in self.rels:
                c2 = const_of(r[1]) if len(r) > 2 else None
                if r[0] == "le" and c2 is not None and c2 > ca and r[2] == b:
                    return True
                if r[0] == "lt" and c2 is not None and c2 >= ca and r[2] == b:
                    return True
                if ca == 0 and r[0] == "ne" and ((r[1] == b and const_of(r[2]) == 0) or (r[2] == b and const_of(r[1]) == 0)):
                    return True
        for r in self.rels:
            if r[0] == "lt" and r[1] == a and (r[2] == b or self.le(r[2], b, 1)):
                return True
            if r[0] == "le" and r[1] == a:
                for r2 in self.rels:
                    if r2[0] == "lt" and r2[1] == r[2] and r2[2] == b:
                        return True
        return False

    def eq(self, a, b):
        a, b = canon(uncast(a)), canon(uncast(b))
        if a == b:
            return True
        for r in self.rels:
            if r[0] == "eq" and ((r[1] == a and r[2] == b) or (r[1] == b and r[2] == a)):
                return True
        # one-bit tags: (x & 1) != c  <=>  (x & 1) == 1 - c
        for (x, y) in ((a, b), (b, a)):
            if isinstance(x, tuple) and x[0] == "bin" and x[1] == "BitAnd" and const_of(x[3]) == 1 and const_of(y) in (0, 1):
                for r in self.rels:
                    if r[0] == "ne" and ((r[1] == x and const_of(r[2]) == 1 - const_of(y)) or (r[2] == x and const_of(r[1]) == 1 - const_of(y))):
                        return True
        return False

    def truth(self, e, v):
        e = canon(uncast(e))
        for r in self.rels:
            if r[0] == "truth" and r[1] == e and r[2] == v:
                return True
        return False

    def holds(self, rel):
        """rel = (op, a, b) with op in le/lt/eq/ne, or ('truth', e, v)"""
        if rel[0] == "le":
            return self.le(rel[1], rel[2])
        if rel[0] == "lt":
            return self.lt(rel[1], rel[2])
        if rel[0] == "eq":
            return self.eq(rel[1], rel[2])
        if rel[0] == "ne":
            a, b = canon(uncast(rel[1])), canon(uncast(rel[2]))
            for r in self.rels:
                if r[0] == "ne" and ((r[1] == a and r[2] == b) or (r[1] == b and r[2] == a)):
                    return True
                if r[0] == "lt" and ((r[1] == a and r[2] == b) or (r[1] == b and r[2] == a)):
                    return True
            # (x & 1) != 0  <=>  (x & 1) == 1
            if isinstance(a, tuple) and a[0] == "bin" and a[1] == "BitAnd" and const_of(a[3]) == 1 and const_of(b) in (0, 1):
                return self.eq(a, ("const", 1 - const_of(b)))
            return False
        if rel[0] == "truth":
            return self.truth(rel[1], rel[2])
        return False


def subst(e, mapping):
    """substitute ('param', i) by mapping[i]"""
    if not isinstance(e, tuple) or not e:
        return e
    if e[0] == "param":
        return mapping.get(e[1], e)
    if e[0] == "deref":
        inner = subst(e[1], mapping)
        if isinstance(inner, tuple) and inner and inner[0] == "ref":
            return inner[1]
        return ("deref", inner)
    return tuple(subst(x, mapping) if isinstance(x, tuple) else x for x in e)
