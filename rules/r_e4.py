"""E4 PANIC-BEFORE-MUTATE — in every safe `&mut self` method of Bytes / BytesMut that takes an integer,
range or slice argument, no CFG path leads from a *state write* (store to a field of *self or through
a pointer loaded from one, mem::replace(self, _), a callee that writes through its self argument) to a
*contract panic* (a release-mode panic site whose controlling condition depends, by value flow, on an
argument of the method). A contract violation therefore panics before anything was modified."""
from .base import Result, RuleError
from .facts import callee
from .flow import ExprBuilder, cfg_of, canon, walk, fmt_expr, edge_conditions, normalize_cmp, in_debug_region
from .logic import Ctx, is_call
from .r_a6 import reserve_postcondition
from . import roles
from .allow import ALLOW

INT_TYS = ("usize", "u8", "u16", "u32", "u64", "isize")
PANIC_FNS = ("core::panicking::panic", "core::panicking::panic_fmt", "core::panicking::assert_failed", "panic_advance", "panic_does_not_fit",
             "core::panicking::panic_display", "core::option::expect_failed", "core::result::unwrap_failed")
# calls that panic when their (size) argument is too large
CAPACITY_PANICKERS = {"alloc::vec::Vec::<T, A>::reserve": 1, "alloc::vec::Vec::<T>::with_capacity": 0, "alloc::vec::Vec::<T, A>::extend_from_slice": 1,
                      "alloc::vec::Vec::<T, A>::resize": 1, "alloc::vec::from_elem": 1, "alloc::vec::Vec::<T, A>::reserve_exact": 1}
UNWRAPPERS = ("core::option::Option::<T>::expect", "core::option::Option::<T>::unwrap", "core::result::Result::<T, E>::expect", "core::result::Result::<T, E>::unwrap")


class E4:
    def __init__(self, facts):
        self.facts = facts
        self.handles = roles.handle_types(facts)
        self.tainted = {}         # did -> set of tainted param locals (argument-derived values)
        self.writes_memo = {}
        self.panics_memo = {}
        self.site_rel = {}
        self.callee_sites = {}
        self.stmt_writes = set()
        from .r_b1 import atomic_sites
        self.release_prims = {x["body"].did for x in atomic_sites(facts) if x["obj"] == "refcount" and x["method"] == "fetch_sub"}

    def arg_like(self, ty):
        t = ty.replace("&mut ", "&")
        return ty in INT_TYS or "RangeBounds" in ty or t in ("&[u8]", "&str") or ty.startswith("core::ops::Range")

    def in_scope(self, b):
        if b.kind != "assoc_fn" or b.safety != "safe" or b.arg_count < 2:
            return False
        im = self.facts.impl_of(b)
        if not im or im["self_ty"] not in self.handles:
            return False
        if b.locals[1]["ty"] != "&mut " + im["self_ty"]:
            return False
        hf = self.facts.hir_fn(b) or {}
        for p in hf.get("predicates", []):
            if any(x in p for x in ("buf::buf_impl::Buf", "buf::buf_mut::BufMut", "IntoIterator", "core::iter::Iterator", "AsRef")):
                return False
        return any(self.arg_like(b.locals[i]["ty"]) for i in range(2, b.arg_count + 1))

    # ---- argument dependence ------------------------------------------------------------------
    def arg_dep(self, e, b):
        for x in walk(e):
            if x[0] == "param" and b.kind != "closure" and x[1] in self.tainted.get(b.did, ()):
                return True
            if x[0] == "ucall" and "RangeBounds" in x[1]:
                return True
        return False

    def propagate(self, roots):
        facts = self.facts
        for b in roots:
            self.tainted[b.did] = {i for i in range(2, b.arg_count + 1) if self.arg_like(b.locals[i]["ty"])}
        work = list(roots)
        seen_round = 0
        while work and seen_round < 2000:
            seen_round += 1
            b = work.pop()
            eb = ExprBuilder(b, facts, inline=False)
            for bi, t in b.calls():
                fn = callee(t)
                if fn is None:
                    continue
                r = fn.get("res") or fn
                if not r.get("local") or r.get("did") is None:
                    continue
                cb = facts.by_did.get(r["did"])
                if cb is None:
                    continue
                loc = (bi, len(b.blocks[bi]["stmts"]))
                cur = self.tainted.setdefault(cb.did, set())
                new = set(cur)
                for ai, a in enumerate(t["args"]):
                    pl = ai + 1
                    if pl <= cb.arg_count and (cb.locals[pl]["ty"] in INT_TYS or self.arg_like(cb.locals[pl]["ty"])):
                        if self.arg_dep(eb.operand(a, loc), b):
                            new.add(pl)
                if new != cur or cb.did not in self.writes_memo:
                    self.tainted[cb.did] = new
                    self.writes_memo.setdefault(cb.did, None)
                    work.append(cb)

    # ---- state writes -------------------------------------------------------------------------
    def self_rooted(self, pl, b, eb, loc):
        """place is (a projection of) *self or of something loaded from it"""
        if pl["l"] == 1 and "*" in pl["p"]:
            return True
        if "*" in pl["p"]:
            base = eb.local(pl["l"], loc)
            return any(x == ("param", 1) for x in walk(base))
        return False

    def fn_writes_self(self, b, stack=()):
        k = ("w", b.did)
        if k in self.panics_memo:
            return self.panics_memo[k]
        if b.did in stack:
            return False
        self.panics_memo[k] = False
        res = False
        if b.arg_count >= 1 and (b.locals[1]["ty"].startswith("&mut ") or b.locals[1]["ty"].startswith("*mut ")):
            if self.write_blocks(b, stack + (b.did,)):
                res = True
        self.panics_memo[k] = res
        return res

    def write_blocks(self, b, stack=()):
        """blocks (with description) at which state reachable from param 1 is modified"""
        eb = ExprBuilder(b, self.facts, inline=False)
        out = {}
        for bi, blk in enumerate(b.blocks):
            if blk["cleanup"]:
                continue
            for si, s in enumerate(blk["stmts"]):
                if s["k"] == "assign" and self.self_rooted(s["pl"], b, eb, (bi, si)):
                    out.setdefault(bi, "store to %s" % describe_place(s["pl"]))
                    self.stmt_writes.add((b.did, bi))
            t = blk["term"]
            if t["k"] != "call":
                continue
            fn = callee(t)
            if fn is None:
                continue
            r = fn.get("res") or fn
            loc = (bi, len(blk["stmts"]))
            args = [eb.operand(a, loc) for a in t["args"]]
            passes_self = bool(args) and any(x == ("param", 1) for x in walk(args[0])) and not (args[0][0] == "call")
            if r["path"] in ("core::mem::replace", "core::mem::swap", "core::mem::take") and passes_self:
                out.setdefault(bi, r["path"].rsplit("::", 1)[-1] + "(self, ..)")
            elif fn["name"] == "set_len" and "Vec" in r["path"] and passes_self:
                out.setdefault(bi, "Vec::set_len on the shared Vec")
            elif r.get("local") and r.get("did") is not None and passes_self:
                cb = self.facts.by_did.get(r["did"])
                if cb is not None and cb.did in self.release_prims:
                    # giving up the handle's reference is a state change of the handle (it no longer owns what it points to)
                    out.setdefault(bi, "call %s (releases the handle's reference)" % cb.id.rsplit("::", 1)[-1])
                elif cb is not None and cb.did not in stack and self.fn_writes_self(cb, stack):
                    out.setdefault(bi, "call %s (writes through self)" % cb.id.rsplit("::", 1)[-1])
        return out

    # ---- contract panics ----------------------------------------------------------------------
    def panic_blocks(self, b, stack=()):
        """blocks at which a release-mode, argument-dependent panic can be raised (own sites and calls)"""
        eb = ExprBuilder(b, self.facts, inline=True)
        cfg = cfg_of(b)
        out = {}
        ecs = edge_conditions(b, self.facts, inline=True)
        for bi, blk in enumerate(b.blocks):
            if blk["cleanup"] or in_debug_region(b, bi):
                continue
            t = blk["term"]
            if t["k"] == "assert" and t["ak"] in ("overflow", "bounds", "div_zero"):
                continue        # profile-dependent arithmetic is E1's; bounds checks on slices panic before any write by construction of safe indexing
            if t["k"] != "call":
                continue
            fn = callee(t)
            if fn is None:
                continue
            r = fn.get("res") or fn
            p = r["path"]
            loc = (bi, len(blk["stmts"]))
            if p in PANIC_FNS or (t["target"] is None and fn["name"].startswith("panic")):
                # controlling condition: edges into the diverging region
                ctrl = self.controlling(b, bi, ecs, cfg)
                dep = [c for c in ctrl if self.arg_dep(c[1], b) or (c[0] != "truth" and self.arg_dep(c[2], b))]
                if dep:
                    # infeasible after reserve(n)?
                    sw = self.switch_of(b, bi, cfg)
                    if sw is not None:
                        ctx = Ctx(b, sw, self.facts, extra=reserve_postcondition(b, sw, self.facts, eb))
                        neg = negate(dep[0])
                        if neg and ctx.holds(neg):
                            continue
                    out[bi] = "panic when %s" % rel_str(dep[0])
                    self.site_rel[(b.did, bi)] = dep[0]
            elif p in UNWRAPPERS:
                a = eb.operand(t["args"][0], loc)
                if any(is_call(x, n) for x in walk(a) for n in ("checked_add", "checked_sub", "checked_mul", "checked_shl")) and self.arg_dep(a, b):
                    out[bi] = "%s on checked arithmetic over an argument" % fn["name"]
            elif p in CAPACITY_PANICKERS:
                i = CAPACITY_PANICKERS[p]
                if i < len(t["args"]):
                    a = eb.operand(t["args"][i], loc)
                    if self.arg_dep(a, b):
                        out[bi] = "capacity overflow in Vec::%s: size %s" % (fn["name"], fmt_expr(a)[:40])
            elif r.get("local") and r.get("did") is not None:
                cb = self.facts.by_did.get(r["did"])
                if cb is not None and cb.did not in stack and cb.did in self.tainted and self.tainted[cb.did]:
                    sub = self.fn_may_contract_panic(cb, stack + (b.did,))
                    if sub:
                        # the callee's own guard may be implied at this call (e.g. by reserve()'s post-condition):
                        # substitute the actual arguments into every panic condition of the callee and test its negation here
                        from .logic import subst
                        sites = self.callee_sites.get(cb.did, {})
                        args = {i + 1: eb.operand(a, loc) for i, a in enumerate(t["args"])}
                        ctx = Ctx(b, bi, self.facts, extra=reserve_postcondition(b, bi, self.facts, eb))
                        feasible = False
                        for sbi, desc in sites.items():
                            rel = self.site_rel.get((cb.did, sbi))
                            neg = negate(tuple(subst(x, args) if isinstance(x, tuple) else x for x in rel)) if rel else None
                            if not (neg and ctx.holds(neg)):
                                feasible = True
                        if feasible and self.panics_infeasible_in_view(b, bi, cb):
                            feasible = False
                        if feasible:
                            out[bi] = "call %s: %s" % (cb.id.rsplit("::", 1)[-1], sub)
        return out

    def panics_infeasible_in_view(self, b, bi, cb):
        """the callee's panic may hide behind a helper of its own (`match self.checked_len(n) { Err(e) => panic(e), .. }`): in the
        view of `b` with the callee and its helpers inlined, every panic site spliced in for this call must be unreachable under
        the relations that hold there together with reserve()'s post-condition (linear-inequality domain)"""
        if b.kind not in ("fn", "assoc_fn"):
            return False
        from .inline import views
        from .flow import relations_at
        from .lin import State
        for ib in views(self.facts, b, keep_names=("reserve", "reserve_inner")):
            cfg = cfg_of(ib)
            eb = ExprBuilder(ib, self.facts, inline=True)
            sites = []
            for pbi, blk in enumerate(ib.blocks):
                if pbi < len(b.blocks) or blk["cleanup"] or cb.did not in (blk.get("inl_stack") or []) or in_debug_region(ib, pbi):
                    continue
                t = blk["term"]
                if t["k"] != "call":
                    continue
                fn = callee(t)
                if fn is None:
                    continue
                r = fn.get("res") or fn
                if (r["path"] in PANIC_FNS or (t["target"] is None and fn["name"].startswith("panic"))) and cfg.reaches(bi, pbi):
                    sites.append(pbi)
                elif r["path"] in UNWRAPPERS or r["path"] in CAPACITY_PANICKERS:
                    sites.append(None)           # other kinds of panic sites are not judged here
            if not sites or any(x is None for x in sites):
                continue
            ok = True
            for pbi in sites:
                rels = [x for x in relations_at(ib, pbi, self.facts, inline=True)
                        if x[0] in ("lt", "le", "eq", "ne") or (x[0] == "truth" and not (isinstance(x[1], tuple) and x[1] and x[1][0] == "ovf"))]
                rels += reserve_postcondition(ib, pbi, self.facts, eb)
                if not State(rels).refuted():
                    ok = False
                    break
            if ok:
                return True
        return False

    def fn_may_contract_panic(self, b, stack=()):
        k = ("p", b.did, tuple(sorted(self.tainted.get(b.did, ()))))
        if k in self.panics_memo:
            return self.panics_memo[k]
        self.panics_memo[k] = None
        pb = self.panic_blocks(b, stack)
        self.callee_sites[b.did] = pb
        res = None
        if pb:
            res = sorted(pb.values())[0]
        self.panics_memo[k] = res
        return res

    def switch_of(self, b, pbi, cfg):
        """the switch block whose edge leads into the diverging region containing pbi"""
        seen = set()
        st = [pbi]
        while st:
            x = st.pop()
            if x in seen:
                continue
            seen.add(x)
            for p in cfg.pred[x]:
                if b.blocks[p]["term"]["k"] == "switch" and not cfg.diverges(p):
                    return p
                st.append(p)
        return None

    def controlling(self, b, pbi, ecs, cfg):
        """relations that hold on the edge from a non-diverging block into the diverging region of pbi"""
        out = []
        seen = set()
        st = [pbi]
        while st:
            x = st.pop()
            if x in seen:
                continue
            seen.add(x)
            for p in cfg.pred[x]:
                if cfg.diverges(p):
                    st.append(p)
                    continue
                for (s, d, c, v) in ecs:
                    if s == p and d == x:
                        out.append(normalize_cmp(c, v))
        return out


def negate(r):
    if r[0] == "lt":
        return ("le", r[2], r[1])
    if r[0] == "le":
        return ("lt", r[2], r[1])
    return None


def rel_str(r):
    if r[0] == "truth":
        return "%s == %s" % (fmt_expr(r[1])[:60], r[2])
    return "%s %s %s" % (fmt_expr(r[1])[:50], {"lt": "<", "le": "<=", "eq": "==", "ne": "!="}.get(r[0], r[0]), fmt_expr(r[2])[:50])


def describe_place(pl):
    s = "self" if pl["l"] == 1 else "_%d" % pl["l"]
    for e in pl["p"]:
        if e == "*":
            s = "(*%s)" % s
        elif isinstance(e, dict) and "n" in e:
            s += "." + str(e["n"])
    return s


def run(facts):
    res = Result("E4", "in safe &mut-self methods of Bytes/BytesMut with integer/range/slice arguments no path leads from a state write to an "
                       "argument-dependent (contract) panic")
    e4 = E4(facts)
    roots = [b for b in facts.fn_bodies() if e4.in_scope(b)]
    e4.propagate(roots)
    analysed = set()
    todo = list(roots)
    n = 0
    while todo:
        b = todo.pop()
        if b.did in analysed:
            continue
        analysed.add(b.did)
        # callees that receive self and tainted args are analysed too (their internal write -> panic order matters)
        for bi, t in b.calls():
            fn = callee(t)
            if fn and (fn.get("res") or fn).get("local"):
                cb = facts.by_did.get((fn.get("res") or fn).get("did"))
                if cb is not None and cb.did in e4.tainted and e4.tainted[cb.did] and cb.safety == "safe" and cb.arg_count >= 1 \
                        and cb.locals[1]["ty"].startswith("&mut ") and cb.locals[1]["ty"][5:] in e4.handles:
                    todo.append(cb)
        n += 1
        cfg = cfg_of(b)
        wb = e4.write_blocks(b)
        pb = e4.panic_blocks(b)
        viol = []
        for w, wdesc in sorted(wb.items()):
            for p, pdesc in sorted(pb.items()):
                if w == p and (b.did, w) not in e4.stmt_writes:
                    continue
                if w == p:
                    viol.append((w, wdesc, p, pdesc))
                elif cfg.reaches(w, p):
                    # confirm with the values the path itself fixes: `let reused = {..; true}; if !reused { may_panic() }`
                    # never runs the panicking branch after the writes of the `true` path
                    from .flow import feasible_paths_to
                    fp = feasible_paths_to(b, p, limit=3000)
                    if len(fp) >= 3000 or any(w in path for path in fp):
                        viol.append((w, wdesc, p, pdesc))
        key0 = b.id
        if not viol:
            res.ok(key0, b.loc(), "%d state-write sites, %d contract-panic sites, no write reaches a panic" % (len(wb), len(pb)), nontrivial=bool(wb and pb))
            continue
        seen = set()
        for (w, wdesc, p, pdesc) in viol:
            k = "%s|%s -> %s" % (b.id, wdesc, pdesc.split(": ")[0])
            if k in seen:
                continue
            seen.add(k)
            full = "E4|" + k
            if full not in ALLOW and b.kind in ("fn", "assoc_fn") and not str(b.vis).startswith("Public"):
                # a reviewed (write -> panic) pair that moved, unchanged, into a private function only reached from the function the entry names
                from .inline import callers_of
                seen_, cur = set(), [b]
                for _ in range(4):
                    nxt = [c_ for x_ in cur for c_ in callers_of(facts, x_.did) if c_.did not in seen_ and not facts.is_test(c_)]
                    for c_ in nxt:
                        seen_.add(c_.did)
                    if not nxt:
                        break
                    hits = [c_ for c_ in nxt if "E4|%s|%s -> %s" % (c_.id, wdesc, pdesc.split(": ")[0]) in ALLOW]
                    if hits and len(hits) == len(nxt):
                        full = "E4|%s|%s -> %s" % (hits[0].id, wdesc, pdesc.split(": ")[0])
                        break
                    cur = nxt
            if full in ALLOW:
                res.ok(k, b.loc(p), "ALLOWLISTED: " + ALLOW[full], nontrivial=True)
                res.notes.append("allowlisted: %s" % k)
            else:
                res.bad(k, b.loc(p), "a contract panic (%s) can be raised at %s after the handle was already modified (%s at %s): the handle is left changed" % (
                    pdesc, b.loc(p), wdesc, b.loc(w)))
    res.floor("methods_in_scope", len(roots), 12)
    return res
