"""A17 TAG-WORD: the integer word a KIND_VEC BytesMut keeps in `data` is composed of bit fields that stay in range, and
its vec-position field agrees with the pointer.

  data = [ vec position | original_capacity_repr (3 bits) | kind (2 bits) ]        (get_vec_pos reads `data >> P`)

Decided by an upper-bound (unsigned interval / known-width) analysis over the provenance trees:

  (i)  COMPOSE   in every word  `(A << s) | B`  written into `BytesMut.data` (field stores and aggregates), the low part
                 fits below the shifted one:  ub(B) < 2^s  - no field bleeds into its neighbour;
  (ii) POS-ZERO  whenever the handle's `ptr` on the same path is the *start* of a Vec (a fresh / rebuilt allocation:
                 `from_vec`, the non-unique branch of the reservation helper), the whole word is < 2^P: the vec position
                 it encodes is 0, which is what `ptr == vec start` means (Drop / freeze / reserve rebuild the Vec at
                 `ptr - position` with capacity `cap + position`).

Upper bounds: constants; `x & m <= m`; `x >> k`; `x << k`; `a | b < 2^bits(max)`; `min(a, c) <= c`; crate getter functions by
their return expression; a field of a control block (`Shared.original_capacity_repr`) by the maximum over **all** the
aggregates that construct that struct in the crate - so the bound of a reader is established at every writer.
P is read from the crate's own position getter (the shift in `get_vec_pos`).
"""
from .base import Result, RuleError
from .facts import callee
from .flow import ExprBuilder, canon, fmt_expr, walk, return_expr, cfg_of
from .logic import uncast, is_call, const_of
from .r_a8 import HANDLE, vec_of_ptr, writes_of
from .r_a6 import strip_ptr

WORD = (1 << 64) - 1


class Bounds:
    def __init__(self, facts):
        self.facts = facts
        self.field_memo = {}
        self.fn_memo = {}

    def ub(self, e, depth=0):
        """an upper bound of the unsigned value of e (WORD when unknown)"""
        if depth > 12 or not isinstance(e, tuple) or not e:
            return WORD
        e0 = e
        e = uncast(e)
        if not isinstance(e, tuple) or not e:
            return WORD
        c = const_of(e)
        if c is not None:
            return c if c >= 0 else WORD
        h = e[0]
        if h == "cast":
            return self.ub(e[2], depth + 1)
        if h == "bin":
            op = e[1].replace("WithOverflow", "").replace("Unchecked", "")
            a, b = e[2], e[3]
            if op == "BitAnd":
                return min(self.ub(a, depth + 1), self.ub(b, depth + 1))
            if op == "BitOr" or op == "BitXor":
                m = max(self.ub(a, depth + 1), self.ub(b, depth + 1))
                return (1 << m.bit_length()) - 1
            if op == "Shr":
                k = const_of(b)
                return self.ub(a, depth + 1) >> k if k is not None else self.ub(a, depth + 1)
            if op == "Shl":
                k = const_of(b)
                if k is None:
                    return WORD
                return min(WORD, self.ub(a, depth + 1) << k)
            if op == "Add":
                return min(WORD, self.ub(a, depth + 1) + self.ub(b, depth + 1))
            if op == "Sub":
                kb = const_of(b)
                ua = self.ub(a, depth + 1)
                return max(0, ua - kb) if (kb is not None and ua < WORD) else ua
            if op == "Mul":
                return min(WORD, self.ub(a, depth + 1) * self.ub(b, depth + 1))
            if op in ("Eq", "Ne", "Lt", "Le", "Gt", "Ge"):
                return 1
            return WORD
        if h == "phi":
            return max([self.ub(a, depth + 1) for a in e[1]] or [WORD])
        if h == "call":
            nm = e[1].rsplit("::", 1)[-1]
            if nm == "min" and len(e[2]) == 2:
                return min(self.ub(e[2][0], depth + 1), self.ub(e[2][1], depth + 1))
            if nm == "max" and len(e[2]) == 2:
                return max(self.ub(e[2][0], depth + 1), self.ub(e[2][1], depth + 1))
            if nm in ("leading_zeros", "trailing_zeros", "count_ones"):
                return 64
            cands = self.facts.by_id.get(e[1], [])
            if len(cands) == 1 and cands[0].kind in ("fn", "assoc_fn"):
                return self.fn_ub(cands[0], depth)
            return WORD
        if h == "field" and isinstance(e[2], str):
            return self.field_ub(e[2], depth)
        return WORD

    def ub_in(self, b, e, depth):
        """upper bound of e evaluated in body b: parameters of a non-public function are bounded by what every caller passes"""
        e = canon(e)
        params = sorted(set(x[1] for x in walk(e) if isinstance(x, tuple) and len(x) == 2 and x[0] == "param"))
        local = self.ub(e, depth)
        if local < WORD or not params or depth > 8 or b.kind not in ("fn", "assoc_fn") or str(b.vis).startswith("Public"):
            return local
        from .inline import callers_of
        from .flow import subst_params
        best = None
        for c in callers_of(self.facts, b.did):
            if self.facts.is_test(c):
                continue
            ebc = ExprBuilder(c, self.facts, inline=True)
            for bi, t in c.calls():
                fn = callee(t)
                r = (fn.get("res") or {}) if fn else {}
                if r.get("did") != b.did or c.blocks[bi]["cleanup"]:
                    continue
                args = tuple(ebc.operand(a, (bi, len(c.blocks[bi]["stmts"]))) for a in t["args"])
                v = self.ub_in(c, subst_params(e, args), depth + 1)
                best = v if best is None else max(best, v)
        return WORD if best is None else best

    def fn_ub(self, b, depth):
        if b.did in self.fn_memo:
            return self.fn_memo[b.did]
        self.fn_memo[b.did] = WORD
        r = return_expr(b, self.facts, inline=True)
        v = self.ub(r, depth + 1)
        self.fn_memo[b.did] = v
        return v

    def field_ub(self, name, depth):
        """max over every aggregate in the crate that constructs a control block with a field of this name"""
        if name in self.field_memo:
            return self.field_memo[name]
        self.field_memo[name] = WORD
        cbs = set(x["path"] for x in (self.facts.j["hir"].get("adts") or []) if any(f.get("name") == name for f in x.get("fields", []))) \
            if isinstance(self.facts.j.get("hir"), dict) else set()
        best = None
        for b in self.facts.fn_bodies():
            if self.facts.is_test(b):
                continue
            eb = None
            for bi, blk in enumerate(b.blocks):
                for si, s in enumerate(blk["stmts"]):
                    if s["k"] == "assign" and s["rv"]["k"] == "agg" and s["rv"].get("ak") == "adt" and name in (s["rv"].get("fields") or []) \
                            and s["rv"].get("adt") != HANDLE:
                        if eb is None:
                            eb = ExprBuilder(b, self.facts, inline=True)
                        op = s["rv"]["ops"][s["rv"]["fields"].index(name)]
                        v = self.ub_in(b, eb.operand(op, (bi, si)), depth + 1)
                        best = v if best is None else max(best, v)
                    # direct stores to the field
                    pl = s["pl"] if s["k"] == "assign" else None
                    if pl and pl["p"] and isinstance(pl["p"][-1], dict) and pl["p"][-1].get("n") == name and pl["p"][-1].get("adt") != HANDLE:
                        if eb is None:
                            eb = ExprBuilder(b, self.facts, inline=True)
                        v = self.ub(eb.rvalue(s["rv"], (bi, si), 0), depth + 1)
                        best = v if best is None else max(best, v)
        v = WORD if best is None else best
        self.field_memo[name] = v
        return v


def expand_calls(e, facts, depth=0):
    """replace calls of small crate-local functions by their return expression over the actual arguments (a helper that
    builds the data word, an `encode` method of a position newtype)"""
    from .flow import subst_params, contains
    if not isinstance(e, tuple) or not e or depth > 3:
        return e
    e = tuple(expand_calls(x, facts, depth) if isinstance(x, tuple) else x for x in e)
    if e[0] == "call":
        cands = facts.by_id.get(e[1], [])
        if len(cands) == 1 and cands[0].kind in ("fn", "assoc_fn") and len(cands[0].blocks) <= 12 and cands[0].id.rsplit("::", 1)[-1] not in ("invalid_ptr", "vptr"):
            r = return_expr(cands[0], facts, inline=True)
            if not contains(r, ("unknown", "icall")):
                return expand_calls(canon(subst_params(r, e[2])), facts, depth + 1)
    return e


def word_of(e):
    """the integer a data pointer was made from: invalid_ptr(E) / E as *mut _ / with_addr ..."""
    e = canon(e)
    for _ in range(6):
        if is_call(e, "invalid_ptr") or is_call(e, "without_provenance_mut") or is_call(e, "dangling_mut") or is_call(e, "with_addr"):
            e = e[2][-1]
            return e
        if isinstance(e, tuple) and e and e[0] == "cast" and e[1] in ("IntToPtr", "PointerExposeProvenance", "PointerWithExposedProvenance", "Transmute"):
            return e[2]
        if isinstance(e, tuple) and e and e[0] == "cast":
            e = e[2]
            continue
        break
    return None


def compose_problems(bd, E):
    probs = []
    for x in walk(E):
        if isinstance(x, tuple) and x and x[0] == "bin" and x[1] == "BitOr":
            for hi, lo in ((x[2], x[3]), (x[3], x[2])):
                hi_ = uncast(hi)
                if isinstance(hi_, tuple) and hi_ and hi_[0] == "bin" and hi_[1].startswith("Shl"):
                    s = const_of(hi_[3])
                    if s is not None and bd.ub(lo) >= (1 << s):
                        probs.append("`%s` can reach bit %d and above, where `%s` lives" % (fmt_expr(lo)[:50], s, fmt_expr(hi)[:50]))
    return probs


def pos_shift(facts):
    l = [b for b in facts.fn_bodies() if b.id.endswith("BytesMut::get_vec_pos")]
    for b in l:
        r = canon(return_expr(b, facts, inline=True))
        for x in walk(r):
            if isinstance(x, tuple) and x and x[0] == "bin" and x[1].startswith("Shr") and const_of(x[3]) is not None:
                return const_of(x[3])
    # reshaped accessor: any crate fn that shifts the handle's data word right by a constant
    for b in facts.fn_bodies():
        if "vec_pos" in b.id or b.id.endswith("::decode"):
            r = canon(return_expr(b, facts, inline=True))
            for x in walk(r):
                if isinstance(x, tuple) and x and x[0] == "bin" and x[1].startswith("Shr") and const_of(x[3]) is not None:
                    return const_of(x[3])
    return None


def run(facts):
    res = Result("A17", "the tagged word in BytesMut.data is composed of in-range bit fields (no field bleeds into its neighbour) and encodes vec position 0 "
                        "whenever the handle's pointer is the start of its Vec (upper-bound analysis; control-block fields bounded at every constructor)")
    P = pos_shift(facts)
    if P is None:
        raise RuleError("cannot find the vec-position shift (get_vec_pos)")
    bd = Bounds(facts)
    n = 0
    for b in facts.fn_bodies():
        if facts.is_test(b):
            continue
        eb = ExprBuilder(b, facts, inline=True)
        ws = writes_of(b, facts, eb)
        if not ws:
            continue
        cfg = cfg_of(b)
        cnt = {}
        for w in ws:
            if w["kind"] == "agg":
                dexpr, pexpr = w["fields"].get("data"), w["fields"].get("ptr")
            elif w["field"] == "data":
                dexpr = w["expr"]
                # the pointer written on the same path (nearest write to ptr that shares a path with this one), else unchanged
                mates = [x for x in ws if x["kind"] == "write" and x["field"] == "ptr" and x.get("base") == w.get("base")
                         and (cfg.loc_dominates((x["bb"], x["si"]), (w["bb"], w["si"])) or cfg.loc_dominates((w["bb"], w["si"]), (x["bb"], x["si"])))]
                pexpr = mates[0]["expr"] if mates else None
            else:
                continue
            if dexpr is None:
                continue
            E = word_of(dexpr)
            if E is None:
                E = word_of(expand_calls(canon(dexpr), facts))
            if E is None:
                continue            # a real control-block pointer (KIND_ARC), not a tagged word
            E = expand_calls(canon(E), facts)
            n += 1
            k0 = "%s|data word" % b.id
            c = cnt.get(k0, 0)
            cnt[k0] = c + 1
            key = k0 + ("#%d" % c if c else "")
            probs = compose_problems(bd, E)
            fresh = False
            if pexpr is not None:
                V, off = vec_of_ptr(pexpr)
                fresh = V is not None and off is None
            if fresh and bd.ub(E) >= (1 << P):
                probs.append("the pointer is the start of a Vec but the word `%s` can be >= 2^%d: it may encode a non-zero vec position (upper bound %s)" % (
                    fmt_expr(E)[:70], P, ("2^64-1" if bd.ub(E) >= WORD else bd.ub(E))))
            if probs:
                res.bad(key, b.loc(w["bb"], w["si"]), "; ".join(probs))
            else:
                res.ok(key, b.loc(w["bb"], w["si"]), ("fields in range; pointer = Vec start and word < 2^%d (position 0)" % P) if fresh else "bit fields in range", nontrivial=True)
    res.floor("tagged data words", n, 2)
    return res
