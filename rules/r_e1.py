"""E1 ARITH-TAINT — every arithmetic site whose behaviour depends on the build profile (a MIR
overflow / shift-range assert: debug builds panic there, release builds wrap) and whose operands
are caller-controlled integers is guarded, bounded, or on the reviewed allowlist."""
from .base import Result, RuleError
from .facts import callee
from .flow import ExprBuilder, relations_at, fmt_expr, walk, cfg_of, canon
from . import roles
from .allow import ALLOW

INT_TYS = ("usize", "u8", "u16", "u32", "u64", "u128", "isize", "i8", "i16", "i32", "i64", "i128")
SYM = {"Add": "+", "Sub": "-", "Mul": "*", "Shl": "<<", "Shr": ">>", "Div": "/", "Rem": "%"}
ISIZE_MAX = (1 << 63) - 1

# calls whose result is bounded by the size of a live allocation (<= isize::MAX) whatever the args
AB_CALLS = (
    "core::slice::<impl [T]>::len", "alloc::vec::Vec::<T, A>::len", "alloc::vec::Vec::<T, A>::capacity",
    "core::str::<impl str>::len", "alloc::string::String::len", "offset_from", "bytes_mut::BytesMut::get_vec_pos",
    "alloc::collections::vec_deque::VecDeque::<T, A>::len", "core::mem::size_of", "core::mem::size_of_val",
    "core::mem::align_of", "buf::uninit_slice::UninitSlice::len",
)
SMALL_CALLS = ("leading_zeros", "trailing_zeros", "count_ones")
MIN_CALLS = ("core::cmp::min", "core::cmp::Ord::min", "<usize as core::cmp::Ord>::min", "core::cmp::impls::<impl core::cmp::Ord for usize>::min")
# user traits whose integer results are *data supplied by the caller* (ranges); other user-trait
# integers (Buf::remaining ...) are behaviour of an implementation and are the subject of rule C6
# results of caller-supplied trait impls that may legitimately be any usize: the bounds of a range argument, and what a user's Buf / BufMut
# reports as remaining (an endless source reports usize::MAX; Chain and Limit saturate for exactly that reason)
ARG_LIKE_UCALLS = ("core::ops::RangeBounds::start_bound", "core::ops::RangeBounds::end_bound",
                   "buf::buf_impl::Buf::remaining", "buf::buf_mut::BufMut::remaining_mut")
USER_SETTABLE_FIELDS = ("limit",)


def strip(e):
    """comparison form (see flow.canon)"""
    return canon(e)


def uncast(e):
    while isinstance(e, tuple) and e and e[0] == "cast" and e[1] == "IntToInt":
        e = e[2]
    return e


def short(e, depth=3):
    while isinstance(e, tuple) and e and e[0] == "cast" and e[1] == "IntToInt":
        e = e[2]
    if not isinstance(e, tuple) or not e:
        return str(e)
    h = e[0]
    if depth <= 0:
        return ".."
    f = lambda x: short(x, depth - 1)
    if h == "param":
        return "arg%d" % e[1]
    if h == "const":
        return str(e[1])
    if h == "field":
        b = f(e[1])
        return ("%s.%s" % (b, e[2])) if b != ".." else "." + str(e[2])
    if h in ("deref", "ref", "nn_as_ptr", "nn_new"):
        return f(e[1])
    if h == "bin":
        return "(%s %s %s)" % (f(e[2]), SYM.get(e[1], e[1]), f(e[3]))
    if h == "cast":
        return "%s as %s" % (f(e[2]), e[3])
    if h == "call":
        n = e[1].rsplit("::", 1)[-1]
        return "%s(%s)" % (n, ", ".join(f(a) for a in e[2]))
    if h == "ucall":
        return "user:%s(..)" % e[1].rsplit("::", 1)[-1]
    if h == "phi":
        return "phi(%s)" % "|".join(sorted(f(a) for a in e[1]))
    if h == "variant":
        return f(e[1])
    if h == "unknown":
        return "?"
    return h


class E1:
    def __init__(self, facts):
        self.facts = facts
        self.handles = roles.handle_types(facts)
        self.param_taint = {}      # body did -> set of tainted param locals
        self.compute_param_taint()

    # ---- taint --------------------------------------------------------------------------------
    def int_params(self, b):
        out = []
        for i in range(1, b.arg_count + 1):
            ty = b.locals[i]["ty"]
            if ty in INT_TYS or ty.startswith("core::ops::Range") or ty.startswith("impl core::ops::RangeBounds") \
                    or "RangeBounds" in ty:
                out.append(i)
        return out

    def is_entry(self, b):
        """callable by users with arbitrary integer arguments: safe + public, or a safe method of a
        public trait / trait impl"""
        if b.kind not in ("fn", "assoc_fn") or b.safety != "safe":
            return False
        if b.vis == "Public":
            return True
        return False

    def compute_param_taint(self):
        facts = self.facts
        bodies = facts.fn_bodies()
        for b in bodies:
            self.param_taint[b.did] = set(self.int_params(b)) if self.is_entry(b) else set()
        # closures: captured variables are fields of param 1 — resolved through the parent below
        changed = True
        rounds = 0
        while changed and rounds < 10:
            changed = False
            rounds += 1
            for b in bodies:
                eb = ExprBuilder(b, facts, inline=False)
                for bi, t in b.calls():
                    fn = callee(t)
                    if fn is None:
                        continue
                    res = fn.get("res") or fn
                    if not res.get("local"):
                        continue
                    cb = facts.by_did.get(res.get("did"))
                    if cb is None or cb.safety == "unsafe":
                        continue
                    loc = (bi, len(b.blocks[bi]["stmts"]))
                    for ai, a in enumerate(t["args"]):
                        pl = ai + 1
                        if pl > cb.arg_count or cb.locals[pl]["ty"] not in INT_TYS:
                            continue
                        if pl in self.param_taint[cb.did]:
                            continue
                        e = eb.operand(a, loc)
                        if self.tainted(e, b):
                            self.param_taint[cb.did].add(pl)
                            changed = True

    def tainted(self, e, b, depth=0):
        e = uncast(e)
        if not isinstance(e, tuple) or not e or depth > 25:
            return False
        h = e[0]
        if h == "param":
            owner = b
            # closures read captured values through their environment param; be conservative:
            if b.kind == "closure":
                return False
            return e[1] in self.param_taint.get(owner.did, ())
        if h == "const":
            return False
        if h == "ucall":
            return e[1] in ARG_LIKE_UCALLS
        if h == "field":
            if e[2] in USER_SETTABLE_FIELDS:
                return True
            return self.tainted(e[1], b, depth + 1)
        if h == "call":
            p = e[1]
            name = p.rsplit("::", 1)[-1]
            if p in AB_CALLS or name in ("len", "capacity") or name in SMALL_CALLS:
                return False
            if name == "position" and "Cursor" in p:
                return True         # io::Cursor::set_position accepts any u64: the position is the caller's to choose
            if name == "min" and len(e[2]) == 2:
                return self.tainted(e[2][0], b, depth + 1) and self.tainted(e[2][1], b, depth + 1)
            return any(self.tainted(a, b, depth + 1) for a in e[2])
        if h == "bin":
            if e[1] == "BitAnd" and (strip(e[2])[0] == "const" or strip(e[3])[0] == "const"):
                return False
            return self.tainted(e[2], b, depth + 1) or self.tainted(e[3], b, depth + 1)
        if h == "phi":
            return any(self.tainted(a, b, depth + 1) for a in e[1])
        if h in ("deref", "ref", "variant", "un", "nn_as_ptr", "nn_new", "discr"):
            return self.tainted(e[1] if h != "un" else e[2], b, depth + 1)
        if h == "cast":
            return self.tainted(e[2], b, depth + 1)
        if h == "agg":
            return any(self.tainted(a, b, depth + 1) for a in e[2])
        return False

    # ---- bounds -------------------------------------------------------------------------------
    def const_of(self, e):
        e = uncast(e)
        if isinstance(e, tuple) and e and e[0] == "const" and isinstance(e[1], int):
            return e[1]
        return None

    def is_ab(self, e, rels, depth=0):
        """value is bounded by the size of a live allocation (<= isize::MAX)"""
        e = uncast(e)
        if not isinstance(e, tuple) or not e or depth > 6:
            return False
        c = self.const_of(e)
        if c is not None:
            return 0 <= c <= ISIZE_MAX
        h = e[0]
        if h == "call":
            p = e[1]
            name = p.rsplit("::", 1)[-1]
            if p in AB_CALLS or name in ("len", "capacity"):
                return True
            if name == "min" and len(e[2]) == 2:
                return self.is_ab(e[2][0], rels, depth + 1) or self.is_ab(e[2][1], rels, depth + 1)
        if h == "field" and e[2] in ("len", "cap"):
            return True
        if h == "phi":
            return all(self.is_ab(a, rels, depth + 1) for a in e[1])
        # bounded through a dominating guard  e <= Y / e < Y  with Y allocation-bounded
        for r in rels:
            if r[0] in ("le", "lt") and strip(r[1]) == strip(e) and self.is_ab(r[2], [x for x in rels if x is not r], depth + 1):
                return True
            if r[0] == "eq" and strip(r[1]) == strip(e) and self.is_ab(r[2], [x for x in rels if x is not r], depth + 1):
                return True
        return False

    def derived_relations(self, rels):
        out = []
        rels = list(rels)
        for i, r in enumerate(rels):
            # two-variant enum discriminant (Option/Result): "not 1" is 0 and vice versa
            if r[0] == "notin" and isinstance(r[1], tuple) and r[1][0] == "discr" and r[2] in ((0,), (1,)):
                rels[i] = ("truth", r[1], 1 - r[2][0])
        for r in rels:
            if r[0] == "truth":
                e, v = uncast(r[1]), r[2]
                if e[0] == "ovf":
                    continue          # overflow flags exist in checked builds only: never a fact
                # slice.get(..n) is None  =>  len(slice) < n
                if e[0] == "discr" and isinstance(e[1], tuple) and e[1][0] == "call" and e[1][1].endswith("::get") and v == 0:
                    a = e[1][2]
                    if len(a) == 2 and isinstance(a[1], tuple) and a[1][0] == "agg" and "RangeTo" in str(a[1][1]):
                        out.append(("lt", ("call", "core::slice::<impl [T]>::len", (a[0],)), a[1][2][0]))
                # checked_sub(a, b) is Some  =>  b <= a
                if e[0] == "discr" and isinstance(e[1], tuple) and e[1][0] == "call" and e[1][1].endswith("checked_sub") and v == 1:
                    a = e[1][2]
                    out.append(("le", a[1], a[0]))
                continue
            out.append(r)
        # x <= min(p, q)  =>  x <= p, x <= q
        more = []
        for r in out:
            if r[0] in ("le", "lt"):
                y = uncast(r[2])
                if isinstance(y, tuple) and y[0] == "call" and y[1].rsplit("::", 1)[-1] == "min" and len(y[2]) == 2:
                    more.append((r[0], r[1], y[2][0]))
                    more.append((r[0], r[1], y[2][1]))
        # x <= f(args) with f a crate function that is one expression of its parameters (`Self::remaining(self)` of the Cursor impl):
        # the bound is that expression
        for r in out:
            if r[0] in ("le", "lt", "eq"):
                y = uncast(r[2])
                ex = self.expand_local_call(y)
                if ex is not None:
                    more.append((r[0], r[1], ex))
        return out + more

    def expand_local_call(self, y):
        if not (isinstance(y, tuple) and y and y[0] == "call"):
            return None
        l = self.facts.by_id.get(y[1], [])
        if len(l) != 1 or l[0].arg_count != len(y[2]) or l[0].safety != "safe":
            return None
        from .flow import return_expr, contains
        from .logic import subst
        re_ = canon(return_expr(l[0], self.facts, inline=True))
        if re_ is None or contains(re_, ("unknown", "phi", "icall")):
            return None
        return canon(subst(re_, {i + 1: a for i, a in enumerate(y[2])}))

    def le_holds(self, small, big, rels):
        small, big = strip(small), strip(big)
        if small == big:
            return True
        cs, cb_ = self.const_of(small), self.const_of(big)
        if cs is not None and cb_ is not None:
            return cs <= cb_
        if cs == 0:
            return True
        # min(.., big, ..) <= big
        if isinstance(small, tuple) and small[0] == "call" and small[1].rsplit("::", 1)[-1] == "min":
            if any(a == big for a in small[2]):
                return True
        for r in rels:
            if r[0] in ("le", "lt", "eq") and strip(r[1]) == small and strip(r[2]) == big:
                return True
            if r[0] == "eq" and strip(r[2]) == small and strip(r[1]) == big:
                return True
        return False

    # ---- site verdict -------------------------------------------------------------------------
    def check_site(self, b, bi, t, eb):
        loc = (bi, len(b.blocks[bi]["stmts"]))
        op = t.get("op", t["ak"])
        a = eb.operand(t["a"], loc)
        bb = eb.operand(t["b"], loc) if "b" in t else ("const", 0)
        rels = self.derived_relations(relations_at(b, bi))
        ta, tb = self.tainted(a, b), self.tainted(bb, b)
        desc = "%s %s %s" % (short(a), SYM.get(op, op), short(bb))
        if b.safety == "unsafe":
            ta = ta and False
            tb = tb and False
        if not ta and not tb:
            return "ok", "operands not caller-controlled (%s)" % desc, desc, False
        if op == "Add":
            for (t_, o_) in ((a, bb), (bb, a)):
                t_s, o_s = strip(t_), strip(o_)
                for r in rels:
                    if r[0] in ("le", "lt") and strip(r[1]) == t_s:
                        y = strip(r[2])
                        if isinstance(y, tuple) and y[0] == "bin" and y[1] == "Sub" and strip(y[3]) == o_s:
                            return "ok", "guard %s <= %s" % (short(t_), short(y)), desc, True
                        if isinstance(y, tuple) and y[0] == "call" and "saturating_sub" in y[1] and len(y[2]) == 2 \
                                and strip(y[2][1]) == o_s and self.is_ab(y[2][0], rels):
                            return "ok", "guard %s <= saturating_sub(X, %s): sum <= max(X, %s)" % (short(t_), short(o_), short(o_)), desc, True
            if self.is_ab(a, rels) and self.is_ab(bb, rels):
                return "ok", "both operands allocation-bounded (<= isize::MAX each)", desc, True
        elif op == "Sub":
            if self.le_holds(bb, a, rels):
                return "ok", "guard %s <= %s" % (short(bb), short(a)), desc, True
            from .logic import Ctx
            if Ctx(b, bi, self.facts).le(bb, a):
                return "ok", "%s <= %s by the guards and the algebra of checked sums / min / max" % (short(bb), short(a)), desc, True
            ca = self.const_of(a)
            if ca is not None and ca >= ISIZE_MAX and self.is_ab(bb, rels):
                return "ok", "constant >= isize::MAX minus allocation-bounded value", desc, True
        elif op == "Mul":
            ca, cb_ = self.const_of(a), self.const_of(bb)
            pass
        elif op in ("Shl", "Shr"):
            cb_ = self.const_of(bb)
            bits = self.shift_bits(b, bi, t, eb)
            if cb_ is not None and bits is not None and cb_ < bits:
                return "ok", "constant shift < %d" % bits, desc, False
            if bits is not None:
                # a dominating guard on the amount itself (`if shift >= 64 { return 0 }`); the assert's own condition is the
                # outgoing edge of this block and is not among the relations that dominate it
                for r in rels:
                    k = self.const_of(r[2]) if len(r) > 2 else None
                    if k is not None and strip(canon(r[1])) == strip(canon(bb)) and ((r[0] == "lt" and k <= bits) or (r[0] == "le" and k < bits)):
                        return "ok", "guard %s %s %d (< %d bits)" % (short(bb), "<" if r[0] == "lt" else "<=", k, bits), desc, True
        if op in ("Add", "Sub"):
            # last resort before reporting: the linear-inequality domain over the release-mode guards (overflow flags exist in
            # checked builds only and are dropped), with every allocation-bounded atom <= isize::MAX
            from .lin import State, USIZE_MAX
            facts_ = [r for r in rels if r[0] in ("lt", "le", "eq", "ne") or (r[0] == "truth" and not (isinstance(uncast(r[1]), tuple) and uncast(r[1])[0] == "ovf"))]
            st = State(facts_, facts=self.facts)
            goal = ("le", bb, a) if op == "Sub" else ("le", ("bin", "Add", a, bb), ("const", USIZE_MAX))
            st.lin.relation(goal)                      # register the goal's atoms
            for e_ in list(st.lin.names):
                if self.is_ab(e_, rels):
                    st.add(("le", e_, ("const", ISIZE_MAX)))
                else:
                    st.add(("le", e_, ("const", USIZE_MAX)))        # a 64-bit value
            if st.entails(goal):
                return "ok", "%s by the dominating guards in the linear-inequality domain (allocation-bounded atoms <= isize::MAX)" % (
                    "%s <= %s" % (short(bb), short(a)) if op == "Sub" else "%s + %s <= usize::MAX" % (short(a), short(bb))), desc, True
        key = "E1|%s|%s|%s" % (b.id, op, desc)
        if key in ALLOW:
            return "allow", ALLOW[key], desc, True
        # the reviewed site may have moved, with its expression unchanged, into a private function that is only reached from the function the
        # entry names (`reserve_inner` split into `reserve_inner_shared` / `reserve_inner_unshare`): the entry travels with it
        if b.kind in ("fn", "assoc_fn") and not str(b.vis).startswith("Public"):
            from .inline import callers_of
            seen_, cur = set(), [b]
            for _ in range(4):
                nxt = []
                for x_ in cur:
                    for c_ in callers_of(self.facts, x_.did):
                        if c_.did in seen_ or self.facts.is_test(c_):
                            continue
                        seen_.add(c_.did)
                        nxt.append(c_)
                if not nxt:
                    break
                hits = [c_ for c_ in nxt if "E1|%s|%s|%s" % (c_.id, op, desc) in ALLOW]
                if hits and len(nxt) == len(hits):
                    return "allow", ALLOW["E1|%s|%s|%s" % (hits[0].id, op, desc)] + " (site moved into %s)" % b.id.rsplit("::", 1)[-1], desc, True
                cur = nxt
        what = "shift amount can reach the bit width" if op in ("Shl", "Shr") else "can overflow"
        return "bad", "caller-controlled operand, no dominating guard: `%s` %s (debug builds panic here, release builds wrap)" % (desc, what), desc, True

    def fallback(self, b, bi, how):
        """before reporting: (a) the same site with the function's crate-local helpers inlined (a guard that moved into
        `ensure_available(..)`), (b) for a site inside a non-public helper, the site in the inlined view of every caller"""
        from .inline import views, contexts, sites_in
        for ib in views(self.facts, b):
            v2, h2, _, _ = self.check_site(ib, bi, ib.blocks[bi]["term"], ExprBuilder(ib, self.facts, inline=True))
            if v2 == "ok":
                return "ok", h2 + " (with helpers inlined)", True
        if b.kind in ("fn", "assoc_fn") and not str(b.vis).startswith("Public"):
            from .inline import keep_pred
            for atoms in (True, False):
                verdicts = []
                for cb in contexts(self.facts, b, pred=keep_pred(atoms=atoms)):
                    ebc = ExprBuilder(cb, self.facts, inline=True)
                    for sbi in sites_in(cb, b.did, bi):
                        verdicts.append(self.check_site(cb, sbi, cb.blocks[sbi]["term"], ebc))
                if verdicts and all(v[0] == "ok" for v in verdicts):
                    return "ok", verdicts[0][1] + " (in the context of all %d call chains)" % len(verdicts), True
        return "bad", how, True

    def shift_bits(self, b, bi, t, eb):
        loc = (bi, len(b.blocks[bi]["stmts"]))
        c = eb.operand(t["cond"], loc)
        for x in walk(c):
            if x[0] == "bin" and x[1] == "Lt":
                v = self.const_of(x[3])
                if v is not None:
                    return v
        return None


def debug_only(t):
    m = t["span"].get("macros") or []
    return any(x.startswith("debug_assert") for x in m)


WANTS_PROP = True


def applies(facts, cfg):
    """overflow asserts exist only when the crate is compiled with overflow checks"""
    return bool(facts.j.get("overflow_checks"))


# which functions' arithmetic belongs to which property (prefix of the def path / impl self type)
SCOPE = {
    "C10": ("buf::buf_impl::",),
    "C11": ("buf::buf_mut::", "<buf::limit", "<buf::chain", "buf::uninit_slice"),
    "C12": ("<buf::take", "<buf::limit", "<buf::chain", "buf::take", "buf::limit", "buf::reader", "buf::writer", "<buf::reader", "<buf::writer"),
    "C04": ("bytes_mut::", "<bytes_mut::"),
    "C13": ("bytes_mut::", "<bytes_mut::", "bytes::", "<bytes::"),
}


def in_scope(fid, prop):
    sc = SCOPE.get(prop)
    if sc is None:
        return True
    return any(fid.startswith(p) or ("<" + p) in fid or (" for " + p.strip("<")) in fid or ("as " + p) in fid for p in sc)


def run(facts, prop=None):
    res = Result("E1", "profile-dependent arithmetic (MIR overflow/shift asserts) on caller-controlled integers is guarded, "
                       "bounded or allowlisted with a reason")
    e1 = E1(facts)
    n = 0
    n_dbg = 0
    for b in facts.fn_bodies():
        eb = ExprBuilder(b, facts, inline=True)
        seen = {}
        for bi, t in b.terms():
            if t["k"] != "assert" or t["ak"] not in ("overflow", "overflow_neg", "div_zero", "rem_zero"):
                continue
            if b.blocks[bi]["cleanup"]:
                continue
            n += 1
            if not in_scope(b.id, prop):
                continue
            if debug_only(t):
                n_dbg += 1
                res.ok("%s|debug-only#%d" % (b.id, n_dbg), b.loc(bi), "inside debug_assert!: not evaluated in release builds")
                continue
            verdict, how, desc, nt = e1.check_site(b, bi, t, eb)
            if verdict == "bad":
                verdict, how, nt = e1.fallback(b, bi, how)
            op = t.get("op", t["ak"])
            key = "%s|%s|%s" % (b.id, op, desc)
            k = seen.get(key, 0)
            seen[key] = k + 1
            if k:
                key += "#%d" % k
            if verdict == "bad":
                res.bad(key, b.loc(bi), how)
            elif verdict == "allow":
                res.ok(key, b.loc(bi), "ALLOWLISTED: " + how, nontrivial=True)
                res.notes.append("allowlisted: %s" % key)
            else:
                res.ok(key, b.loc(bi), how, nontrivial=nt)
    # explicit wrapping / overflowing integer arithmetic on caller-controlled integers wraps silently in
    # *every* profile: same obligation as an unchecked operator (pointer wrapping_add is not integer arithmetic)
    n_wrap = 0
    for b in facts.fn_bodies():
        eb = ExprBuilder(b, facts, inline=True)
        for bi, t in b.calls():
            if b.blocks[bi]["cleanup"]:
                continue
            fn = callee(t)
            if fn is None:
                continue
            r = fn.get("res") or fn
            p_ = r["path"]
            if not (p_.startswith("core::num::<impl ") and fn["name"] in ("wrapping_add", "wrapping_sub", "wrapping_mul", "wrapping_shl", "wrapping_shr",
                                                                             "overflowing_add", "overflowing_sub", "overflowing_mul", "wrapping_neg")):
                continue
            n_wrap += 1
            if not in_scope(b.id, prop):
                continue
            loc = (bi, len(b.blocks[bi]["stmts"]))
            args = [eb.operand(a, loc) for a in t["args"]]
            key = "%s|%s|%s" % (b.id, fn["name"], " , ".join(short(a) for a in args))
            tainted = b.safety != "unsafe" and any(e1.tainted(a, b) for a in args)
            if not tainted:
                res.ok(key, b.loc(bi), "operands not caller-controlled")
                continue
            rels = e1.derived_relations(relations_at(b, bi))
            ok = False
            if fn["name"] in ("wrapping_sub", "overflowing_sub") and len(args) == 2 and e1.le_holds(args[1], args[0], rels):
                ok = True
            if fn["name"] in ("wrapping_add", "overflowing_add") and len(args) == 2 and e1.is_ab(args[0], rels) and e1.is_ab(args[1], rels):
                ok = True
            fullkey = "E1|" + key
            if ok:
                res.ok(key, b.loc(bi), "guarded: cannot wrap", nontrivial=True)
            elif fullkey in ALLOW:
                res.ok(key, b.loc(bi), "ALLOWLISTED: " + ALLOW[fullkey], nontrivial=True)
            else:
                res.bad(key, b.loc(bi), "`%s` on a caller-controlled integer without a guard: the result wraps silently (no panic in any profile)" % fn["name"])
    res.floor("overflow_assert_sites", n, 60)
    return res
