"""C6 UNTRUSTED-EXTENT — no integer *reported by* a safe, user-implementable trait (Buf::remaining,
chunks_vectored count, Iterator::size_hint, ExactSizeIterator::len, SeqAccess::size_hint) or by
io::Cursor::position reaches an unsafe extent (copy length, raw-slice length, pointer offset,
set_len, unsafe advance_mut, array cast, handle extent fields) except through a sanitiser: `min`
with / a dominating guard against a value that is not user-reported, or safe indexing.
Real slices returned by user code are trusted for their own length (safe code cannot forge one).
Interprocedural over crate-local parameter binding."""
from .base import Result, RuleError
from .facts import callee
from .flow import ExprBuilder, canon, walk, fmt_expr, cfg_of
from .logic import Ctx, uncast, is_call
from . import roles

SOURCE_UCALLS = ("buf::buf_impl::Buf::remaining", "buf::buf_impl::Buf::chunks_vectored", "core::iter::Iterator::size_hint",
                 "core::iter::ExactSizeIterator::len", "serde::de::SeqAccess::size_hint", "buf::buf_impl::Buf::has_remaining")
SOURCE_CALLS = ("std::io::Cursor::<T>::position",)
INT_TYS = ("usize", "u64", "u32", "isize", "i64")

# sink: resolved callee path -> indices of extent arguments
SINKS = {
    "core::ptr::copy_nonoverlapping": (2,), "core::ptr::copy": (2,), "core::ptr::write_bytes": (2,),
    "core::intrinsics::copy_nonoverlapping": (2,), "core::intrinsics::copy": (2,), "core::intrinsics::write_bytes": (2,),
    "core::slice::from_raw_parts": (1,), "core::slice::from_raw_parts_mut": (1,),
    "buf::uninit_slice::UninitSlice::from_raw_parts_mut": (1,),
    "alloc::vec::Vec::<T>::from_raw_parts": (1, 2), "alloc::vec::Vec::<T, A>::set_len": (1,),
    "bytes_mut::BytesMut::set_len": (1,),
    "core::ptr::mut_ptr::<impl *mut T>::add": (1,), "core::ptr::mut_ptr::<impl *mut T>::sub": (1,), "core::ptr::mut_ptr::<impl *mut T>::offset": (1,),
    "core::ptr::const_ptr::<impl *const T>::add": (1,), "core::ptr::const_ptr::<impl *const T>::sub": (1,), "core::ptr::const_ptr::<impl *const T>::offset": (1,),
    "core::slice::<impl [T]>::get_unchecked": (1,), "core::slice::<impl [T]>::get_unchecked_mut": (1,),
}
SINK_TRAIT_METHODS = {"advance_mut": (1,)}     # unsafe fn of BufMut, whatever the receiver
EXTENT_FIELDS = ("len", "cap")


class C6:
    def __init__(self, facts):
        self.facts = facts
        self.handles = roles.handle_types(facts)
        self.tparams = {}
        self.fix()

    def is_source(self, x):
        if x[0] == "ucall" and x[1] in SOURCE_UCALLS:
            return True
        if x[0] == "call" and x[1] in SOURCE_CALLS:
            return True
        return False

    def tainted_subexprs(self, e, b):
        """sub-expressions that are user-reported integers, looking through arithmetic but stopping at
        sanitising combinators (min with an untainted argument) and at lengths of real slices"""
        out = []

        def rec(x):
            if not isinstance(x, tuple) or not x or not isinstance(x[0], str):
                return False
            h = x[0]
            if self.is_source(x):
                out.append(x)
                return True
            if h == "param":
                if b.kind != "closure" and x[1] in self.tparams.get(b.did, ()):
                    out.append(x)
                    return True
                return False
            if h == "call":
                nm = x[1].rsplit("::", 1)[-1]
                if nm in ("len", "capacity"):
                    return False          # a real slice / Vec knows its own length
                if nm in ("min",) and len(x[2]) == 2:
                    ts = [rec(a) for a in x[2]]
                    if all(ts):
                        return True
                    # min(tainted, trusted) is bounded by the trusted value: drop what the tainted side added
                    del out[len(out) - sum(1 for t in ts if t):]
                    return False
                if nm in ("min_u64_usize",):
                    ts = [rec(a) for a in x[2]]
                    if all(ts):
                        return True
                    del out[len(out) - sum(1 for t in ts if t):]
                    return False
                return any([rec(a) for a in x[2]])
            if h == "ucall":
                return any([rec(a) for a in x[2]])
            if h == "phi":
                return any([rec(a) for a in x[1]])
            if h in ("bin",):
                return any([rec(x[2]), rec(x[3])])
            if h in ("cast",):
                return rec(x[2])
            if h in ("un",):
                return rec(x[2])
            if h in ("field", "deref", "ref", "variant", "discr", "nn_as_ptr", "nn_new"):
                return rec(x[1])
            if h == "agg":
                return any([rec(a) for a in x[2]])
            return False
        rec(e)
        return out

    def fix(self):
        facts = self.facts
        bodies = facts.fn_bodies()
        for b in bodies:
            self.tparams[b.did] = set()
        changed = True
        rounds = 0
        while changed and rounds < 12:
            changed = False
            rounds += 1
            for b in bodies:
                eb = ExprBuilder(b, facts, inline=False)
                for bi, t in b.calls():
                    fn = callee(t)
                    if fn is None:
                        continue
                    r = fn.get("res") or fn
                    if not r.get("local") or r.get("did") is None:
                        continue
                    cb = facts.by_did.get(r["did"])
                    if cb is None:
                        continue
                    loc = (bi, len(b.blocks[bi]["stmts"]))
                    for ai, a in enumerate(t["args"]):
                        pl = ai + 1
                        if pl > cb.arg_count or cb.locals[pl]["ty"] not in INT_TYS or pl in self.tparams[cb.did]:
                            continue
                        e = eb.operand(a, loc)
                        if self.tainted_subexprs(e, b):
                            # a dominating guard against an untainted value at the call already bounds it
                            if self.sanitised(e, b, bi):
                                continue
                            self.tparams[cb.did].add(pl)
                            changed = True

    def sanitised(self, e, b, bi, ctx_body=None):
        """a dominating guard bounds the tainted value (or the operand) by an expression that carries no user-reported integer;
        ctx_body = an inlined view of `b` (same block numbering for b's own blocks) whose guards are used instead"""
        ctx = Ctx(ctx_body or b, bi, self.facts)
        cands = [canon(uncast(e))] + [canon(x) for x in self.tainted_subexprs(e, b)]
        # operands derived arithmetically from a tainted param: also try the containing additive terms
        for x in walk(e):
            if x[0] in ("bin", "field", "call") and self.tainted_subexprs(x, b):
                cands.append(canon(uncast(x)))
        for r in ctx.rels:
            if r[0] in ("le", "lt") and r[1] in cands:
                if not self.tainted_subexprs(r[2], b):
                    return "guard %s <= %s" % (fmt_expr(r[1])[:50], fmt_expr(r[2])[:60])
        return None


def _same_slice(a, b):
    while isinstance(a, tuple) and a and a[0] in ("ref", "deref"):
        a = a[1]
    return canon(a) == b


def run(facts):
    res = Result("C6", "no integer reported by a safe user trait (remaining, chunks_vectored, size_hint, Cursor::position) reaches an unsafe extent "
                       "without min / a dominating guard against a trusted bound, or safe indexing")
    c6 = C6(facts)
    n_sinks = 0
    n_flows = 0
    n_unchecked = 0
    for b in facts.fn_bodies():
        eb = ExprBuilder(b, facts, inline=True)
        cnt = {}

        def report(kind, bi, e, extra=""):
            nonlocal n_flows, n_unchecked
            ts = c6.tainted_subexprs(e, b)
            if not ts:
                return
            n_flows += 1
            k0 = "%s|%s" % (b.id, kind)
            c = cnt.get(k0, 0)
            cnt[k0] = c + 1
            key = k0 + ("#%d" % c if c else "")
            s = c6.sanitised(e, b, bi)
            if not s and b.kind in ("fn", "assoc_fn"):
                # the guard may have moved into a helper (a classifier fn, a bool-returning predicate): judge the inlined views
                from .inline import views
                for ib in views(facts, b):
                    s = c6.sanitised(e, b, bi, ctx_body=ib)
                    if s:
                        s += " (with helpers inlined)"
                        break
            src = ", ".join(sorted(set(fmt_expr(x)[:50] for x in ts)))
            if s:
                res.ok(key, b.loc(bi), "user-reported integer (%s) reaches %s only under %s" % (src, kind, s), nontrivial=True)
            else:
                res.bad(key, b.loc(bi), "user-reported integer (%s) reaches the unsafe extent `%s` without a sanitiser%s" % (src, kind, extra))
        for bi, blk in enumerate(b.blocks):
            if blk["cleanup"]:
                continue
            for si, s in enumerate(blk["stmts"]):
                if s["k"] != "assign":
                    continue
                pl = s["pl"]
                if pl["p"] and isinstance(pl["p"][-1], dict) and pl["p"][-1].get("adt") in c6.handles and pl["p"][-1].get("n") in EXTENT_FIELDS:
                    n_sinks += 1
                    e = eb.rvalue(s["rv"], (bi, si), 0)
                    report("%s.%s =" % (pl["p"][-1]["adt"].rsplit("::", 1)[-1], pl["p"][-1]["n"]), bi, e)
                if s["rv"]["k"] == "agg" and s["rv"].get("adt") in c6.handles:
                    f = dict(zip(s["rv"]["fields"], s["rv"]["ops"]))
                    for fld in EXTENT_FIELDS:
                        if fld in f:
                            n_sinks += 1
                            report("%s{%s}" % (s["rv"]["adt"].rsplit("::", 1)[-1], fld), bi, eb.operand(f[fld], (bi, si)))
                # raw array cast: *(p as *const [u8; N]) needs a source slice of at least N bytes
                if s["rv"]["k"] == "cast" and s["rv"]["ck"] == "PtrToPtr" and s["rv"]["ty"].startswith("*const [u8; ") and "std::io" not in s["rv"]["ty"]:
                    n_sinks += 1
                    src = canon(eb.operand(s["rv"]["op"], (bi, si)))
                    ok = False
                    # `match chunk.get(..SIZE) { Some(src) => *(src as *const [u8; SIZE]) .. }`: the payload of a checked re-slice
                    for x in walk(src):
                        if x[0] == "variant" and x[2] == "Some" and is_call(x[1], "get") and len(x[1][2]) == 2 \
                                and isinstance(x[1][2][1], tuple) and x[1][2][1][0] == "agg" and "RangeTo" in str(x[1][2][1][1]):
                            ok = True
                    # closure parameter `src` of `.get(..SIZE).map(|src| ..)`: the enclosing call site is checked below
                    if not ok and b.kind == "closure":
                        pb = facts.by_did.get(b.parent_did)
                        if pb is not None:
                            peb = ExprBuilder(pb, facts, inline=False)
                            for pbi, t in pb.calls():
                                fn = callee(t)
                                if fn and fn["name"] == "map":
                                    a0 = canon(peb.operand(t["args"][0], (pbi, len(pb.blocks[pbi]["stmts"]))))
                                    passes = any(isinstance(x, tuple) and x[0] == "closure" and x[1] == b.did for x in
                                                 [canon(peb.operand(a, (pbi, len(pb.blocks[pbi]["stmts"])))) for a in t["args"][1:]])
                                    if passes and is_call(a0, "get") and isinstance(a0[2][1], tuple) and a0[2][1][0] == "agg" and "RangeTo" in str(a0[2][1][1]):
                                        ok = True
                    key = "%s|array cast" % b.id
                    if ok:
                        res.ok(key, b.loc(bi, si), "the slice comes from `chunk().get(..SIZE)`: its real length is SIZE", nontrivial=True)
                    else:
                        res.bad(key, b.loc(bi, si), "a slice pointer is cast to a fixed-size array without taking the slice from `get(..SIZE)`")
            t = blk["term"]
            if t["k"] != "call":
                continue
            fn = callee(t)
            if fn is None:
                continue
            r = fn.get("res") or fn
            idxs = SINKS.get(r["path"])
            if idxs is None and fn["name"] in SINK_TRAIT_METHODS and fn.get("unsafe"):
                idxs = SINK_TRAIT_METHODS[fn["name"]]
            if idxs is None:
                continue
            loc = (bi, len(blk["stmts"]))
            if r["path"].rsplit("::", 1)[-1] in ("get_unchecked", "get_unchecked_mut") and len(t["args"]) == 2:
                # unchecked indexing is justified only by a dominating comparison with the real length of that very slice:
                # what a user trait *says* about its data (has_remaining, remaining) does not bound a slice it hands out
                n_unchecked += 1
                sl = canon(eb.operand(t["args"][0], loc))
                ix = canon(uncast(eb.operand(t["args"][1], loc)))
                while isinstance(sl, tuple) and sl and sl[0] in ("ref", "deref"):
                    sl = sl[1]
                ln = ("call", "core::slice::<impl [T]>::len", (sl,))
                ctx = Ctx(b, bi, facts)
                okx = False
                if isinstance(ix, tuple) and ix[0] == "agg":
                    ends = [x for x in ix[2]]
                    okx = bool(ends) and all(ctx.le(x, ln) or any(ctx.le(x, ("call", l[1], l[2])) for l in [y for r2 in ctx.rels for y in r2[1:] if is_call(y, "len") and _same_slice(y[2][0], sl)]) for x in ends)
                else:
                    okx = ctx.lt(ix, ln) or any(r2[0] == "lt" and r2[1] == ix and is_call(r2[2], "len") and _same_slice(r2[2][2][0], sl) for r2 in ctx.rels)
                if not okx and ix == ("const", 0):
                    okx = any(r2[0] == "truth" and r2[2] == 0 and is_call(r2[1], "is_empty") and _same_slice(r2[1][2][0], sl) for r2 in ctx.rels)
                k0 = "%s|%s" % (b.id, r["path"].rsplit("::", 1)[-1])
                c = cnt.get(k0, 0)
                cnt[k0] = c + 1
                key = k0 + ("#%d" % c if c else "")
                if okx:
                    res.ok(key, b.loc(bi), "index bounded by the real length of the indexed slice", nontrivial=True)
                else:
                    res.bad(key, b.loc(bi), "unchecked index %s into %s is not dominated by a comparison with that slice's own length" % (fmt_expr(ix)[:40], fmt_expr(sl)[:60]))
            for i in idxs:
                if i < len(t["args"]):
                    n_sinks += 1
                    report("%s(arg %d)" % (r["path"].rsplit("::", 1)[-1], i), bi, eb.operand(t["args"][i], loc))
    res.notes.append("user-tainted integer parameters: %s" % {facts.by_did[d].id: sorted(v) for d, v in c6.tparams.items() if v})
    res.floor("extent_sinks", n_sinks, 80)
    if n_flows == 0:
        res.ok("no-flow", "-", "no user-reported integer reaches any of the %d extent sinks" % n_sinks)
    return res
