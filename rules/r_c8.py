"""C8 TRY-ATOMIC: a `try_*` reader that reports `Err` has not moved the cursor.

For every function of the crate whose name starts with `try_` and whose result is `Result<_, TryGetError>` (the provided
methods of `Buf`, the overrides in the crate's impls, the forwarding impls) and every control-flow path through it:

  if the path can end in `Err` - an `Err(..)` built on the path, the residual of a `?` whose operand was `Err` on this
  path, or the unexamined result of a fallible tail call (`return self.b.try_copy_to_slice(tail)`, `.map_err(..)`) -
  then no *consuming event* lies on the path before the point of failure.

Consuming events: `advance`, `copy_to_slice`, `copy_to_bytes`, any `get_*`, on `self` or a part of it; and a `try_*` call
on `self` or a part of it that *succeeded* on this path (the `Continue` arm of its `?`).  This is the clause
"with fewer bytes remaining try_get_X returns Err{requested, available} leaving the cursor untouched" for all inputs.
"""
from .base import Result
from .facts import callee
from .flow import PathExprBuilder, enumerate_paths, canon, walk, fmt_expr

CONSUMING = ("advance", "copy_to_slice", "copy_to_bytes")
IO_PARTIAL = ("read_exact", "read_to_end", "read_to_string", "read_buf_exact")


def nosite(e):
    """two calls of a caller-supplied observer with the same arguments denote the same value here (nothing moves between the test and
    the construction of the error; C9 checks that)"""
    if not isinstance(e, tuple) or not e:
        return e
    if e[0] == "ucall":
        return ("ucall", e[1], tuple(nosite(a) for a in e[2]))
    if e[0] == "cast":
        return nosite(e[2])
    return tuple(nosite(x) if isinstance(x, tuple) else x for x in e)


def known_short(A, R, rels, facts=None):
    """is `A < R` among (or immediate from) the relations of the path?"""
    a, r = nosite(canon(A)), nosite(canon(R))
    if isinstance(a, tuple) and isinstance(r, tuple) and a[0] == "const" and r[0] == "const" and isinstance(a[1], int) and isinstance(r[1], int):
        return a[1] < r[1]
    for rel in rels:
        if not rel or len(rel) < 3 or not isinstance(rel[1], tuple) or not isinstance(rel[2], tuple):
            continue
        x, y = nosite(canon(rel[1])), nosite(canon(rel[2]))
        if rel[0] == "lt" and x == a and y == r:
            return True
        if rel[0] == "ne" and a == ("const", 0) and ((x == r and y == ("const", 0)) or (y == r and x == ("const", 0))):
            return True
        if rel[0] == "lt" and a == ("const", 0) and x == ("const", 0) and y == r:
            return True
    # arithmetic forms (`available: cap - len` in the arm where `len.checked_add(cnt)` is None or exceeds `cap`): linear-inequality entailment
    try:
        from .lin import State, USIZE_MAX
        rs = [tuple(nosite(canon(x)) if isinstance(x, tuple) else x for x in rel) for rel in rels if rel]
        for rel in list(rs):
            # `x.checked_add(y)` is None: the mathematical sum does not fit a usize
            if rel[0] in ("truth", "notin") and isinstance(rel[1], tuple) and rel[1] and rel[1][0] == "discr":
                c = rel[1][1]
                is_none = (rel[0] == "truth" and rel[2] == 0) or (rel[0] == "notin" and 1 in tuple(rel[2]) and 0 not in tuple(rel[2]))
                if isinstance(c, tuple) and c and c[0] == "call" and c[1].rsplit("::", 1)[-1] == "checked_add" and len(c[2]) == 2 and is_none:
                    rs.append(("lt", ("const", USIZE_MAX), ("bin", "Add", c[2][0], c[2][1])))
        for x in walk(a):
            if isinstance(x, tuple) and x and x[0] in ("call", "ucall", "field", "param") and x != a:
                rs.append(("le", x, ("const", USIZE_MAX)))
        st = State(rs, facts=facts)
        if not st.refuted() and st.entails(("lt", a, r)):
            return True
    except Exception:
        pass
    return False


def judge_panic_sites(facts, b, only_blocks=None):
    from .flow import relations_at, ExprBuilder
    out = []
    eb = None
    for bi, blk in enumerate(b.blocks):
        if blk["cleanup"] or (only_blocks is not None and bi not in only_blocks):
            continue
        j = 0
        for si, st_ in enumerate(blk["stmts"]):
            if st_["k"] == "assign" and st_["rv"]["k"] == "agg" and str(st_["rv"].get("adt", "")).endswith("TryGetError"):
                f = dict(zip(st_["rv"]["fields"], st_["rv"]["ops"]))
                if "requested" not in f or "available" not in f:
                    continue
                eb = eb or ExprBuilder(b, facts, inline=False)
                R = canon(eb.operand(f["requested"], (bi, si)))
                A = canon(eb.operand(f["available"], (bi, si)))
                rels = relations_at(b, bi, facts, inline=False)
                ok = known_short(A, R, rels, facts)
                if not ok:
                    # the error arm may be the join of several refusals (`match len.checked_add(cnt) { Some(n) if n <= cap => .., _ => panic }`):
                    # decided path by path
                    from .flow import feasible_paths_to, PathExprBuilder, path_relations
                    n_p = 0
                    allok = True
                    for path in feasible_paths_to(b, bi, limit=300):
                        n_p += 1
                        pe = PathExprBuilder(b, facts, path, inline=False)
                        Rp = canon(pe.operand(f["requested"], (bi, si)))
                        Ap = canon(pe.operand(f["available"], (bi, si)))
                        if not known_short(Ap, Rp, path_relations(b, facts, path), facts):
                            allok = False
                            break
                    ok = allok and n_p > 0
                out.append({"bi": bi, "j": j, "ok": ok, "nontrivial": True,
                            "text": "TryGetError { requested, available } is built under available < requested" if ok else
                                    "TryGetError { requested: %s, available: %s } is built (for a panic) although available < requested is not known there: "
                                    "a request that fits exactly is refused" % (fmt_expr(R)[:40], fmt_expr(A)[:40])})
                j += 1
    return out


def rooted_at_self(e, b=None):
    # in a closure the receiver is reached through the captured environment (param 1 of the closure)
    return isinstance(e, tuple) and any(x == ("param", 1) for x in walk(e))


def run(facts):
    res = Result("C8", "a try_* reader that returns Err has consumed nothing: on every path that can end in Err (own Err, residual of `?`, fallible tail "
                       "call) no advance / copy / get_* / successful try_* on self precedes the failure")
    n = 0
    for b in facts.fn_bodies():
        if facts.is_test(b) or b.kind not in ("fn", "assoc_fn", "closure"):
            continue
        name = b.id.rsplit("::", 1)[-1]
        out = str(b.j.get("output") or (b.locals[0]["ty"] if b.locals else ""))
        is_cl = b.kind == "closure" and "Result<" in out and "TryGetError" in out
        if not (name.startswith("try_") or is_cl) or "Result<" not in out or "TryGetError" not in out or b.arg_count < 1:
            continue
        n += 1
        bad = None
        bad_ok = None
        short_bad = None
        n_errs = 0
        n_err = 0
        # does the function consume at all by itself (or is it a pure forwarder)?
        has_consumer = False
        for _bi, _t in b.calls():
            _fn = callee(_t)
            if _fn and (_fn["name"] in CONSUMING or _fn["name"] == "try_copy_to_slice" or (_fn["name"].startswith("get_") and not _fn["name"].startswith(("get_ref", "get_mut")))
                        or _fn["name"].startswith("try_get_")):
                has_consumer = True
        from .flow import cfg_of
        _cfg = cfg_of(b)
        if any(_cfg.reaches(d_, s_) or d_ == s_ for s_ in range(_cfg.n) for d_ in _cfg.succ[s_] if not b.blocks[s_]["cleanup"] and not b.blocks[d_]["cleanup"]):
            has_consumer = False        # a copy loop: how often it consumes is the subject of C5
        for path in enumerate_paths(b, limit=4000):
            pe = PathExprBuilder(b, facts, path, inline=False)
            pos = {bb: i for i, bb in enumerate(path)}
            consumes = []           # (index in path, description)
            io_partial = []         # (index, name) of io::Read calls on self that consume also when they fail
            fallible = []           # (index, dest local, description)
            branches = {}           # dest local of the fallible call -> (index of the branch, taken arm)
            for i, pb in enumerate(path):
                t = b.blocks[pb]["term"]
                if t["k"] != "call":
                    continue
                fn = callee(t)
                if fn is None or not t["args"]:
                    continue
                loc = (pb, len(b.blocks[pb]["stmts"]))
                a0 = canon(pe.operand(t["args"][0], loc))
                nm = fn["name"]
                if nm == "branch" and "Try" in (fn.get("path") or "") + str(fn.get("trait") or ""):
                    # operand is (a move of) the result local of an earlier fallible call
                    op = t["args"][0]
                    if op["k"] in ("copy", "move") and not op["pl"]["p"]:
                        src = op["pl"]["l"]
                        # which arm does the path take? the switch on the branch result follows in the target block
                        arm = None
                        for j in range(i + 1, min(i + 4, len(path))):
                            tt = b.blocks[path[j]]["term"]
                            if tt["k"] == "switch" and j + 1 < len(path):
                                nxt = path[j + 1]
                                hit = [v for v, d in tt["targets"] if d == nxt]
                                arm = hit[0] if hit else "otherwise"
                                break
                        branches[src] = (i, arm)
                    continue
                if not rooted_at_self(a0, b):
                    continue
                if nm in CONSUMING or (nm.startswith("get_") and not nm.startswith("get_ref") and not nm.startswith("get_mut")):
                    consumes.append((i, nm))
                elif nm.startswith("try_") and t.get("dest") is not None:
                    d = t["dest"]
                    dl = d["l"] if isinstance(d, dict) and not d.get("p") else None
                    fallible.append((i, dl, nm))
                elif nm in IO_PARTIAL and "io::" in ((fn.get("res") or fn).get("path", "") + str(fn.get("trait") or "")):
                    # std's Read::read_exact & co. leave the reader wherever they stopped when they fail (io::Cursor: at the end)
                    io_partial.append((i, nm))
            # classify the fallible calls on this path
            fail_at = None          # index in path where the failure that is returned originates
            for (i, dl, nm) in fallible:
                br = None
                # the result may be moved through temporaries before `branch`
                cand = [dl]
                for _ in range(3):
                    for k, blk_i in enumerate(path):
                        for s in b.blocks[blk_i]["stmts"]:
                            if s["k"] == "assign" and not s["pl"]["p"] and s["rv"]["k"] == "use" and s["rv"]["op"]["k"] in ("move", "copy") \
                                    and not s["rv"]["op"]["pl"]["p"] and s["rv"]["op"]["pl"]["l"] in cand and s["pl"]["l"] not in cand:
                                cand.append(s["pl"]["l"])
                for c in cand:
                    if c in branches:
                        br = branches[c]
                if br is None:
                    # result not examined on this path: it is (part of) what the function returns
                    if fail_at is None:
                        fail_at = (i, "the result of `%s` is returned as it is" % nm)
                elif br[1] in (0, "otherwise") and br[1] == 0:
                    consumes.append((i, nm + " (succeeded)"))
                else:
                    if br[1] == 0:
                        consumes.append((i, nm + " (succeeded)"))
                    elif fail_at is None or br[0] < fail_at[0]:
                        fail_at = (i, "`%s` failed and its error is propagated" % nm)
            e = canon(pe.local(0, (path[-1], len(b.blocks[path[-1]]["stmts"]))))
            if io_partial and bad is None:
                # the result of the io call is what the function returns (possibly through map_err): a failure has already moved the cursor
                from .flow import walk as _walk
                if any(isinstance(x, tuple) and x and x[0] in ("call", "ucall") and str(x[1]).rsplit("::", 1)[-1] in IO_PARTIAL for x in _walk(e)):
                    bad = (path, [(io_partial[0][0], "io::Read::%s (which consumes what it could read before failing)" % io_partial[0][1])], (io_partial[0][0] + 1, "its error is handed back"))
            own_err = isinstance(e, tuple) and e and e[0] == "agg" and isinstance(e[1], tuple) and str(e[1][1]).endswith("::Err")
            if own_err and fail_at is None:
                # where was the Err built? the last block on the path that constructs it
                for i in range(len(path) - 1, -1, -1):
                    if any(s["k"] == "assign" and s["rv"]["k"] == "agg" and s["rv"].get("variant") == "Err" for s in b.blocks[path[i]]["stmts"]):
                        fail_at = (i, "an Err is constructed")
                        break
                if fail_at is None:
                    fail_at = (len(path) - 1, "an Err is returned")
            if own_err and short_bad is None:
                # the error says "requested R, only A available": on the path that builds it, A < R must be known
                for i in range(len(path) - 1, -1, -1):
                    for si, st_ in enumerate(b.blocks[path[i]]["stmts"]):
                        if st_["k"] == "assign" and st_["rv"]["k"] == "agg" and str(st_["rv"].get("adt", "")).endswith("TryGetError"):
                            f = dict(zip(st_["rv"]["fields"], st_["rv"]["ops"]))
                            if "requested" in f and "available" in f:
                                R = canon(pe.operand(f["requested"], (path[i], si)))
                                A = canon(pe.operand(f["available"], (path[i], si)))
                                from .flow import path_relations
                                rels = path_relations(b, facts, path)
                                n_errs += 1
                                if not known_short(A, R, rels, facts):
                                    short_bad = (path, A, R)
            if fail_at is None:
                # a path that hands out a value: Ok(..) built here must come after exactly one consuming step
                own_ok = isinstance(e, tuple) and e and e[0] == "agg" and isinstance(e[1], tuple) and str(e[1][1]).endswith("::Ok")
                if own_ok and has_consumer and len(consumes) != 1 and bad_ok is None:
                    bad_ok = (path, consumes)
                continue
            n_err += 1
            before = [c for c in consumes if c[0] < fail_at[0]]
            if before and bad is None:
                bad = (path, before, fail_at)
        if bad_ok and not bad:
            res.bad("%s|Ok consumes exactly once" % b.id, b.loc(), "on the path bb%s a value is returned after %d consuming steps (%s): the cursor must advance by exactly the bytes read, once" % (
                "->bb".join(str(x) for x in bad_ok[0]), len(bad_ok[1]), ", ".join(c[1] for c in bad_ok[1]) or "none"))
        if n_errs:
            k2 = "%s|Err only when short" % b.id
            if short_bad:
                res.bad(k2, b.loc(), "on the path bb%s Err(TryGetError { requested: %s, available: %s }) is built although available < requested is not known there: "
                                     "a request that the buffer can serve (e.g. a zero-width read of an exhausted buffer) is refused" % (
                                         "->bb".join(str(x) for x in short_bad[0]), fmt_expr(short_bad[2])[:40], fmt_expr(short_bad[1])[:40]))
            else:
                res.ok(k2, b.loc(), "every TryGetError is built under available < requested", nontrivial=True)
        key = "%s|Err leaves the cursor untouched" % b.id
        if bad:
            res.bad(key, b.loc(), "on the path bb%s %s after %s has already consumed bytes: the caller gets Err but the cursor has moved" % (
                "->bb".join(str(x) for x in bad[0]), bad[2][1], ", ".join(sorted(set(c[1] for c in bad[1])))))
        else:
            res.ok(key, b.loc(), "%d path(s) can end in Err, none after a consuming call" % n_err, nontrivial=n_err > 0)
    # the panicking counterparts (`get_*`, `put_*`, `advance*`, `copy_to_slice`, ..): the TryGetError handed to panic_advance says
    # "requested R, only A available" - where it is built, A < R must be known, otherwise a request that fits is refused with a panic.
    # Judged as sites (rules/inline.resolve_sites): a helper that only builds / raises the error from its parameters is judged in its callers.
    from .inline import resolve_sites
    n_pan = 0
    for b in facts.fn_bodies():
        if facts.is_test(b) or b.kind not in ("fn", "assoc_fn", "closure"):
            continue
        name = b.id.rsplit("::", 1)[-1]
        out = str(b.j.get("output") or (b.locals[0]["ty"] if b.locals else ""))
        if (name.startswith("try_") or b.kind == "closure") and "TryGetError" in out:
            continue            # judged above, path by path
        if not any(st_["k"] == "assign" and st_["rv"]["k"] == "agg" and str(st_["rv"].get("adt", "")).endswith("TryGetError")
                   for blk in b.blocks if not blk["cleanup"] for st_ in blk["stmts"]):
            continue
        cnt = 0
        for x in resolve_sites(facts, b, lambda view, only: judge_panic_sites(facts, view, only), keep_names=("panic_advance",)):
            n_pan += 1
            cnt += 1
            key = "%s|panics only when short%s" % (b.id, "#%d" % cnt if cnt > 1 else "")
            if x["ok"]:
                res.ok(key, b.loc(x["bi"]), x["text"], nontrivial=True)
            else:
                res.bad(key, b.loc(x["bi"]), x["text"])
    returns_only_when_done(res, facts)
    getters_move_once(res, facts)
    slice_cursor_swapped_after_check(res, facts)
    res.floor("try_* readers", n, 60)
    res.floor("panic sites with a TryGetError", n_pan, 3)
    return res


def returns_only_when_done(res, facts):
    """the provided `BufMut::put_slice` / `put_bytes` return normally only when everything was written: on every returning path the work
    that is left (`src`, re-sliced per round; `cnt`, counted down) is known to be empty / zero where the path leaves.  A shortcut that returns
    on another ground (`!self.has_remaining_mut()`) drops the write silently where the contract says panic (C11: exactly the bytes, within
    bounds, or a panic)."""
    from .flow import enumerate_paths, path_relations, canon, walk
    from .r_c7 import emptiness
    for (name, pi, kind) in (("buf::buf_mut::BufMut::put_slice", 2, "slice"), ("buf::buf_mut::BufMut::put_bytes", 3, "count")):
        l = facts.by_id.get(name, [])
        if len(l) != 1:
            continue
        b = l[0]
        key = "%s|returns only when done" % name
        bad = None
        n = 0
        mentions = lambda e: any(x == ("param", pi) for x in walk(canon(e))) if isinstance(e, tuple) else False
        for path in enumerate_paths(b, limit=2000):
            n += 1
            rels = [r for r in path_relations(b, facts, path) if r]
            if kind == "slice":
                ok = emptiness(rels, mentions, 1)
            else:
                ok = False
                for r in rels:
                    if len(r) > 2 and isinstance(r[1], tuple) and isinstance(r[2], tuple):
                        a_, b_ = canon(r[1]), canon(r[2])
                        if (r[0] in ("eq", "le") and mentions(a_) and b_ == ("const", 0)) or (r[0] == "eq" and mentions(b_) and a_ == ("const", 0)) \
                                or (r[0] == "lt" and mentions(a_) and b_ == ("const", 1)):
                            ok = True
            if not ok:
                bad = path
                break
        if bad:
            res.bad(key, b.loc(), "the path bb%s returns although the %s is not known to be %s there: the write is dropped without a panic" % (
                "->bb".join(str(x) for x in bad), "rest of the source" if kind == "slice" else "count left", "empty" if kind == "slice" else "zero"))
        else:
            res.ok(key, b.loc(), "%d returning path(s), each with the work left known to be empty / zero" % n, nontrivial=True)


def getters_move_once(res, facts):
    """a panicking getter of the `Buf` trait (`get_u16` .. `get_f64`, `get_uint` ..) either has the bytes or panics with the cursor where it was
    (C13: after the panic is caught every handle still has its previous contents): on every path it moves the cursor through `self` at most once
    - the delegate to its `try_` twin, one `copy_to_slice`, one `advance` - unless `remaining()` was compared with the size before the first
    move.  A getter that assembles its value with repeated `get_u8()` eats what is there and then panics."""
    from .flow import cfg_of, canon, ExprBuilder, walk
    from .logic import Ctx
    n = 0
    for b in facts.fn_bodies():
        if facts.is_test(b) or b.kind != "assoc_fn" or not b.id.startswith("buf::buf_impl::Buf::get_") or b.id.endswith(("get_ref", "get_mut")):
            continue
        eb = ExprBuilder(b, facts, inline=False)
        cfg = cfg_of(b)
        moves = []
        for bi, t in b.calls():
            fn = callee(t)
            if fn is None or b.blocks[bi]["cleanup"] or not t["args"]:
                continue
            nm = fn["name"]
            if not (nm in ("advance", "copy_to_slice", "copy_to_bytes", "try_copy_to_slice") or nm.startswith(("get_", "try_get_"))) or nm in ("get_ref", "get_mut"):
                continue
            a0 = canon(eb.operand(t["args"][0], (bi, len(b.blocks[bi]["stmts"]))))
            while isinstance(a0, tuple) and a0 and a0[0] in ("ref", "deref"):
                a0 = a0[1]
            if a0 == ("param", 1):
                moves.append(bi)
        if not moves:
            continue
        n += 1
        key = "%s|moves the cursor once or behind a remaining() check" % b.id
        multi = [m for m in moves if cfg.reaches(m, m) or any(m2 != m and cfg.reaches(m, m2) for m2 in moves)]
        bad = None
        for m in multi:
            rels = Ctx(b, m, facts).rels
            guarded = any(r and r[0] in ("le", "lt") and len(r) > 2 and isinstance(r[2], tuple) and any(
                isinstance(y, tuple) and y and y[0] in ("call", "ucall") and str(y[1]).rsplit("::", 1)[-1] == "remaining" for y in walk(canon(r[2]))) for r in rels)
            if not guarded:
                bad = m
                break
        if bad is not None:
            res.bad(key, b.loc(bad), "the cursor is moved more than once on a path (bb%d is followed by another consuming call) and no `.. <= remaining()` check comes first: "
                                     "a short buffer is eaten before the panic" % bad)
        else:
            res.ok(key, b.loc(), "%d consuming call(s), at most one per path (or guarded)" % len(moves), nontrivial=True)
    res.floor("panicking getters of Buf", n, 6)


def slice_cursor_swapped_after_check(res, facts):
    """the slice cursors (`impl BufMut for &mut [u8]` / `&mut [MaybeUninit<u8>]`) move by swapping themselves out: `mem::replace(self, &mut [])
    .split_at_mut(n)` and storing the tail back.  Between the swap and the store the cursor is empty, and `split_at_mut(n)` panics for n > len -
    so the swap must come after the length check (`n <= self.len()` dominates it); otherwise a write that is refused leaves the caller's cursor
    empty (C11: a fixed-size target loses exactly the bytes written; C13: a contract panic leaves the state as it was)."""
    from .flow import canon, ExprBuilder, walk
    from .logic import Ctx
    n = 0
    n_m = 0
    for im in facts.impls:
        if im.get("trait") != "buf::buf_mut::BufMut" or not im["self_ty"].startswith("&mut ["):
            continue
        for it in im["items"]:
            b = facts.by_did.get(it.get("did"))
            if b is None:
                continue
            n_m += 1
            eb = ExprBuilder(b, facts, inline=False)
            for bi, t in b.calls():
                fn = callee(t)
                if fn is None or b.blocks[bi]["cleanup"] or (fn.get("res") or fn)["path"] not in ("core::mem::replace", "core::mem::take") or not t["args"]:
                    continue
                a0 = canon(eb.operand(t["args"][0], (bi, len(b.blocks[bi]["stmts"]))))
                while isinstance(a0, tuple) and a0 and a0[0] in ("ref", "deref"):
                    a0 = a0[1]
                if a0 != ("param", 1):
                    continue
                n += 1
                key = "%s::%s|cursor swapped out after the length check" % (im["self_ty"], it["name"])
                ok = False
                for r in Ctx(b, bi, facts).rels:
                    if r and r[0] in ("le", "lt") and len(r) > 2 and isinstance(r[2], tuple):
                        y = canon(r[2])
                        if isinstance(y, tuple) and y and y[0] in ("call", "un") and (str(y[1]).rsplit("::", 1)[-1] == "len" or y[1] == "PtrMetadata") and any(z == ("param", 1) for z in walk(y)):
                            ok = True
                if not ok:
                    # the check may sit in a helper that panics (`check_advance(self.len(), cnt)`): read the method with its helpers spliced in
                    from .inline import views
                    for ib in views(facts, b):
                        ebi = ExprBuilder(ib, facts, inline=False)
                        for bj, tj in ib.calls():
                            fj = callee(tj)
                            if fj is None or ib.blocks[bj]["cleanup"] or (fj.get("res") or fj)["path"] not in ("core::mem::replace", "core::mem::take") or not tj["args"]:
                                continue
                            aj = canon(ebi.operand(tj["args"][0], (bj, len(ib.blocks[bj]["stmts"]))))
                            while isinstance(aj, tuple) and aj and aj[0] in ("ref", "deref"):
                                aj = aj[1]
                            if aj != ("param", 1):
                                continue
                            for r in Ctx(ib, bj, facts).rels:
                                if r and r[0] in ("le", "lt") and len(r) > 2 and isinstance(r[2], tuple):
                                    y = canon(r[2])
                                    if isinstance(y, tuple) and y and y[0] in ("call", "un") and (str(y[1]).rsplit("::", 1)[-1] == "len" or y[1] == "PtrMetadata") and any(z == ("param", 1) for z in walk(y)):
                                        ok = True
                        if ok:
                            break
                if ok:
                    res.ok(key, b.loc(bi), "n <= self.len() is established before the cursor is swapped out", nontrivial=True)
                else:
                    res.bad(key, b.loc(bi), "the cursor is swapped out (mem::replace(self, ..)) where no `n <= self.len()` check has passed: the split that follows panics for an "
                                            "over-long request and leaves the caller's cursor empty")
    # (how a cursor moves is a matter of style - mem::replace + split_at_mut, mem::take + index - so the floor counts the methods scanned, not the swaps)
    res.floor("methods of the slice BufMut impls scanned for cursor swaps", n_m, 6)
