"""B1-O3 TAKE-OVER-GUARD — every event that assumes exclusive ownership of shared storage
(re-boxing a control block, `&mut` into its contents, freeing / rebuilding / writing the buffer in a
vtable function) is dominated by a uniqueness test with Acquire semantics, in its own function or
at every call site of that function, transitively."""
from .base import Result, RuleError
from .facts import callee
from .flow import ExprBuilder, cfg_of, relations_at, walk, fmt_expr, canon
from . import roles
from .r_b1 import ordering_of, HAS_ACQUIRE, call_name, trailing_field

WRITE_CALLS = ("core::ptr::copy", "core::ptr::copy_nonoverlapping", "core::ptr::write_bytes", "core::ptr::write",
               "core::intrinsics::copy", "core::intrinsics::copy_nonoverlapping")


def is_load(e, rc_fields, want_acquire=True):
    e = uncast(e)
    if isinstance(e, tuple) and e and e[0] == "call" and e[1].endswith("::load") and "tomic" in e[1]:
        if trailing_field(e[2][0]) in rc_fields:
            o = ordering_of(e[2][1]) if len(e[2]) > 1 else None
            return (o in HAS_ACQUIRE) if want_acquire else True
    return False


def uncast(e):
    while isinstance(e, tuple) and e and e[0] == "cast":
        e = e[2]
    return e


class O3:
    def __init__(self, facts):
        self.facts = facts
        self.cbs = roles.control_blocks(facts)
        self.rc_fields = set(self.cbs.values())
        self.vts = roles.vtables(facts)
        self.slot_dids = {}
        for name, slots in self.vts.items():
            for sn, s in slots.items():
                if s:
                    d = s.get("did") if s.get("did") is not None else (s.get("res") or {}).get("did")
                    self.slot_dids[d] = "%s.%s" % (name, sn)
        # family membership (functions reachable from slot fns through crate calls and closures)
        self.family = set()
        st = list(self.slot_dids.keys())
        while st:
            d = st.pop()
            if d is None or d in self.family:
                continue
            self.family.add(d)
            b = facts.by_did.get(d)
            if b is None:
                continue
            for _, t in b.calls():
                fn = callee(t)
                if fn:
                    r = fn.get("res") or fn
                    if r.get("local") and r.get("did") is not None:
                        st.append(r["did"])
            for c in facts.children.get(d, []):
                st.append(c.did)
        # call sites per callee did
        self.callers = {}
        for b in facts.fn_bodies():
            for bi, t in b.calls():
                fn = callee(t)
                if fn:
                    r = fn.get("res") or fn
                    if r.get("local") and r.get("did") is not None:
                        self.callers.setdefault(r["did"], []).append((b, bi))
        # fn items stored into fields of crate structs (fn-pointer slots other than the vtable)
        self.stored_fns = {}     # did -> (adt, field)
        for b in facts.fn_bodies():
            for blk in b.blocks:
                for s in blk["stmts"]:
                    if s["k"] == "assign" and s["rv"]["k"] == "agg" and s["rv"].get("ak") == "adt":
                        for fname, op in zip(s["rv"]["fields"], s["rv"]["ops"]):
                            src = op
                            if op["k"] in ("copy", "move") and not op["pl"]["p"]:
                                # find the cast that defines it
                                for blk2 in b.blocks:
                                    for s2 in blk2["stmts"]:
                                        if s2["k"] == "assign" and s2["pl"]["l"] == op["pl"]["l"] and not s2["pl"]["p"] \
                                                and s2["rv"]["k"] == "cast" and "fn" in s2["rv"]["op"]:
                                            src = s2["rv"]["op"]
                            if src["k"] == "const" and "fn" in src:
                                f = src["fn"]
                                d = (f.get("res") or f).get("did")
                                if d is not None:
                                    self.stored_fns[d] = (s["rv"]["adt"], fname)

    # ---- events -------------------------------------------------------------------------------
    def events(self, b):
        facts = self.facts
        ev = []
        eb = ExprBuilder(b, facts, inline=False)
        in_family = b.did in self.family or (b.parent_did in self.family)
        for bi, blk in enumerate(b.blocks):
            if blk["cleanup"]:
                continue
            for si, s in enumerate(blk["stmts"]):
                if s["k"] == "assign" and s["rv"]["k"] in ("ref", "rawptr") and s["rv"]["mut"]:
                    pl = s["rv"]["pl"]
                    if "*" in pl["p"]:
                        base_ty = b.locals[pl["l"]]["ty"]
                        # &mut into a control block reached through a raw pointer (shared access is the default there)
                        if base_ty.startswith("*mut ") and base_ty[5:].split("<")[0] in self.cbs:
                            ev.append((bi, "&mut into %s" % base_ty[5:], None))
            t = blk["term"]
            if t["k"] != "call":
                continue
            p = call_name(t)
            fn = callee(t)
            loc = (bi, len(blk["stmts"]))
            if p is None:
                continue
            if p == "alloc::boxed::Box::<T>::from_raw":
                targ = (fn.get("args") or [""])[0]
                if targ.split("<")[0] in self.cbs:
                    a = eb.operand(t["args"][0], loc)
                    fresh = any(x[0] == "call" and x[1] == "alloc::boxed::Box::<T>::into_raw" for x in walk(a))
                    if fresh:
                        continue       # g6: re-boxing the block this function created and failed to publish
                    ev.append((bi, "Box::<%s>::from_raw" % targ, None))
            elif in_family and p.endswith("alloc::dealloc"):
                ev.append((bi, "dealloc", None))
            elif in_family and p == "alloc::vec::Vec::<T>::from_raw_parts":
                ev.append((bi, "Vec::from_raw_parts", None))
            elif in_family and (p in WRITE_CALLS or p.startswith("core::ptr::mut_ptr::<impl *mut T>::copy")):
                ev.append((bi, "buffer write (%s)" % p.rsplit("::", 1)[-1], None))
        return ev

    # ---- guards -------------------------------------------------------------------------------
    def guard_at(self, b, bi):
        """description of the uniqueness guard that protects block bi, or None: a dominating guard edge, or
        (path form) every entry->bi path crosses some guard edge"""
        rels = relations_at(b, bi, self.facts, inline=True)
        for r in rels:
            g = self.rel_guard(r, b)
            if g:
                return g
        # path form: remove every guard edge from the CFG; bi must become unreachable from the entry
        from .flow import edge_conditions, normalize_cmp, cfg_of
        cfg = cfg_of(b)
        gedges = {}
        for (s_, d_, c, v) in edge_conditions(b, self.facts, inline=True):
            g = self.rel_guard(normalize_cmp(c, v), b)
            if g:
                gedges[(s_, d_)] = g
        if not gedges:
            return None
        seen = {0}
        st = [0]
        while st:
            x = st.pop()
            if x == bi:
                return None
            for y in cfg.succ[x]:
                if (x, y) in gedges or y in seen:
                    continue
                # a block with two switch edges to the same successor: only skip when all are guards
                seen.add(y)
                st.append(y)
        if bi in seen:
            return None
        return "every path crosses a guard edge (%s)" % "; ".join(sorted(set(gedges.values())))

    def rel_guard(self, r, b):
        """is this single relation a uniqueness / unshared-kind guard?"""
        if r[0] == "eq":
            x, y = uncast(r[1]), uncast(r[2])
            for (p, q) in ((x, y), (y, x)):
                if q == ("const", 1) and is_load(p, self.rc_fields):
                    return "refcount load(Acquire) == 1"
                if q == ("const", 1) and isinstance(p, tuple) and p[0] == "call" and p[1].endswith("fetch_sub"):
                    return "`== 1` edge of the decrementing RMW"
                k = self.kind_guard(p, q, True, b)
                if k:
                    return k
        if r[0] == "ne":
            x, y = uncast(r[1]), uncast(r[2])
            for (p, q) in ((x, y), (y, x)):
                k = self.kind_guard(p, q, False, b)
                if k:
                    return k
        if r[0] == "truth":
            e, v = uncast(r[1]), r[2]
            if not isinstance(e, tuple) or not e:
                return None
            # crate predicate whose whole body is `refcount.load(Acquire) == 1` (Shared::is_unique)
            if v == 1 and e[0] == "call":
                cands = self.facts.by_id.get(e[1], [])
                if len(cands) == 1:
                    from .flow import return_expr
                    re_ = return_expr(cands[0], self.facts, inline=False)
                    if isinstance(re_, tuple) and re_[0] == "bin" and re_[1] == "Eq":
                        for (p_, q_) in ((re_[2], re_[3]), (re_[3], re_[2])):
                            if q_ == ("const", 1) and is_load(p_, self.rc_fields):
                                return "%s() [= refcount.load(Acquire) == 1]" % "::".join(e[1].rsplit("::", 2)[-2:])
            # is_ok(&CAS(1, 0, succ >= Acquire, _)) == true   /   is_err(..) == false   /   discriminant == Ok
            for x in walk(e):
                if x[0] == "call" and x[1].endswith("compare_exchange") and trailing_field(x[2][0]) in self.rc_fields:
                    okcall = e[0] == "call" and ((e[1].endswith("is_ok") and v == 1) or (e[1].endswith("is_err") and v == 0))
                    okdiscr = e[0] == "discr" and v == 0
                    succ = ordering_of(x[2][3]) if len(x[2]) > 3 else None
                    if (okcall or okdiscr) and x[2][1] == ("const", 1) and x[2][2] == ("const", 0) and succ in HAS_ACQUIRE:
                        return "Ok edge of refcount CAS 1->0 (%s)" % succ
        return None

    def kind_guard(self, p, q, is_eq, b):
        """p = (X as usize) & 1 ; q = const. Unshared kind is the odd tag (KIND_VEC = 1)."""
        if not (isinstance(p, tuple) and p[0] == "bin" and p[1] == "BitAnd"):
            return None
        c = q[1] if isinstance(q, tuple) and q[0] == "const" else None
        if c is None:
            return None
        unshared = (is_eq and c == 1) or ((not is_eq) and c == 0)
        if not unshared:
            return None
        src = uncast(p[2])
        # tag read from an Acquire load of `data`, or from exclusively borrowed memory
        if isinstance(src, tuple) and src[0] == "call" and src[1].endswith("::load") and "tomic" in src[1]:
            o = ordering_of(src[2][1]) if len(src[2]) > 1 else None
            if o in HAS_ACQUIRE:
                return "unshared-kind tag on Acquire-loaded data"
            return None
        root = src
        while isinstance(root, tuple) and root and root[0] in ("deref", "field", "ref"):
            root = root[1]
        if isinstance(root, tuple) and root[0] == "param":
            ty = b.locals[root[1]]["ty"]
            if ty.startswith("&mut ") or not ty.startswith("&"):
                return "unshared-kind tag read through exclusive access (%s)" % ty
        return None

    # ---- discharge ----------------------------------------------------------------------------
    def discharge(self, b, bi, what, depth=0, seen=()):
        g = self.guard_at(b, bi)
        if g:
            return True, "%s in %s" % (g, b.id), []
        # Drop for the control block itself: `&mut self` is exclusive by typing
        im = self.facts.impl_of(b)
        if im and im.get("trait") == "core::ops::Drop" and im["self_ty"].split("<")[0] in self.cbs:
            return True, "Drop for the control block (`&mut self`, reached only from a guarded drop of its Box)", []
        # the test may live in a helper that reports it through its result (`take_if_unique() -> Option<Vec>`): judge the copies of
        # this block in the inlined views, where the arm taken on the helper's result carries the facts of the helper's paths
        if b.kind in ("fn", "assoc_fn") and depth == 0 and any(
                (callee(t) or {}).get("res", {}) and (callee(t)["res"] or {}).get("local") for _, t in b.calls()):
            from .inline import views, sites_in
            for ib in views(self.facts, b):
                copies = sites_in(ib, b.did, bi)
                gs = [self.guard_at(ib, ci) for ci in copies]
                if copies and all(gs):
                    return True, "%s in %s (helpers inlined)" % ("; ".join(sorted(set(gs))), b.id), []
        if depth > 6 or b.did in seen:
            return False, "recursion", [(b, bi)]
        # closures run where they are passed (with_mut): continue at the parent's call that receives them
        sites = list(self.callers.get(b.did, []))
        if b.kind == "closure" and b.parent_did is not None:
            pb = self.facts.by_did.get(b.parent_did)
            if pb is not None:
                for pbi, t in pb.calls():
                    sites.append((pb, pbi))
                # only the calls that receive this closure
                sites = [(pb2, i) for (pb2, i) in sites if closure_passed(pb2, i, b.did)] or sites
        if b.did in self.stored_fns:
            adt, fld = self.stored_fns[b.did]
            for cb in self.facts.fn_bodies():
                for cbi, t in cb.calls():
                    if callee(t) is None:
                        sites.append((cb, cbi))
        if not sites:
            return False, "no guard in %s and it has no callers in the crate" % b.id, [(b, bi)]
        hows = []
        for (cb, cbi) in sites:
            ok, how, bad = self.discharge(cb, cbi, what, depth + 1, seen + (b.did,))
            if not ok:
                return False, how, bad
            hows.append(how)
        return True, "at every call site: " + "; ".join(sorted(set(hows))), []


def closure_passed(b, bi, closure_did):
    t = b.blocks[bi]["term"]
    if t["k"] != "call":
        return False
    # find the aggregate that builds the closure among the args' defs
    for a in t["args"]:
        if a["k"] in ("copy", "move") and not a["pl"]["p"]:
            l = a["pl"]["l"]
            for blk in b.blocks:
                for s in blk["stmts"]:
                    if s["k"] == "assign" and s["pl"]["l"] == l and not s["pl"]["p"] and s["rv"]["k"] == "agg" \
                            and s["rv"].get("closure_did") == closure_did:
                        return True
    return False


def run(facts):
    res = Result("O3", "every take-over event (re-boxing a control block, &mut into it, freeing/rebuilding/writing the buffer in a "
                       "vtable function) is dominated by a uniqueness test with Acquire semantics, locally or at every call site")
    o3 = O3(facts)
    n = 0
    for b in facts.fn_bodies():
        evs = o3.events(b)
        cnt = {}
        for (bi, what, _) in evs:
            n += 1
            k = "%s|%s" % (b.id, what)
            c = cnt.get(k, 0)
            cnt[k] = c + 1
            key = k + ("#%d" % c if c else "")
            ok, how, bad = o3.discharge(b, bi, what)
            if ok:
                res.ok(key, b.loc(bi), how, nontrivial=True)
            else:
                res.bad(key, b.loc(bi), "take-over without a dominating Acquire uniqueness test: %s" % how)
    res.floor("take_over_events", n, 14)
    return res
