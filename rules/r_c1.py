"""C1 FORWARD-SAME — `impl Buf/BufMut for &mut T` and `for Box<T>` forward every method to the *same*
trait method on `**self`, with the parameters in order, and return its result unchanged."""
from .base import Result, RuleError
from .facts import callee
from .flow import ExprBuilder, canon, fmt_expr

TRAITS = ("buf::buf_impl::Buf", "buf::buf_mut::BufMut")
WRAPPERS = ("&mut T", "alloc::boxed::Box<T>")

WANTS_PROP = True


def run(facts, prop=None):
    res = Result("C1", "the &mut T / Box<T> impls of Buf and BufMut forward each method to the same trait method on **self "
                       "with the same arguments and return the result unchanged")
    n = 0
    for tr in TRAITS:
        if prop in ("C09", "C10") and tr != TRAITS[0]:
            continue
        if prop == "C11" and tr != TRAITS[1]:
            continue
        tdef = facts.traits.get(tr)
        if tdef is None:
            raise RuleError("trait %s not found" % tr)
        for im in facts.impls:
            if im.get("trait") != tr or im["self_ty"] not in WRAPPERS:
                continue
            tname = "%s for %s" % (tr.rsplit("::", 1)[-1], im["self_ty"])
            have = set()
            for it in im["items"]:
                if not it["kind"].startswith("Fn"):
                    continue
                have.add(it["name"])
                n += 1
                key = "%s::%s" % (tname, it["name"])
                b = facts.by_did.get(it.get("did"))
                if b is None:
                    res.bad(key, "-", "no MIR body")
                    continue
                calls = [(bi, t) for bi, t in b.calls() if not b.blocks[bi]["cleanup"]]
                if len(calls) != 1:
                    res.bad(key, b.loc(), "body is not a single forwarding call (%d calls)" % len(calls))
                    continue
                bi, t = calls[0]
                fn = callee(t)
                probs = []
                if fn is None or fn.get("path") != it.get("trait_item"):
                    probs.append("forwards to `%s`, not to `%s`" % (fn.get("path") if fn else "indirect", it.get("trait_item")))
                elif fn.get("self_ty") != "T":
                    probs.append("forwards to the impl for %s, not to the inner T" % fn.get("self_ty"))
                eb = ExprBuilder(b, facts, inline=False)
                loc = (bi, len(b.blocks[bi]["stmts"]))
                args = [canon(eb.operand(a, loc)) for a in t["args"]]
                recv = args[0] if args else None
                # receiver: **self (through the reference / the box)
                r = recv
                depth = 0
                # Box<T> derefs are elaborated in MIR to *(self.0.pointer as *const T)
                while isinstance(r, tuple) and (r[0] in ("deref", "ref") or (r[0] == "cast" and r[1] in ("PtrToPtr", "Transmute"))
                                                or (r[0] == "field" and str(r[2]) in ("0", "pointer"))):
                    if r[0] == "deref":
                        depth += 1
                    r = r[2] if r[0] == "cast" else r[1]
                if r != ("param", 1) or depth < 1:
                    probs.append("receiver is not **self: %s" % fmt_expr(recv))
                for i, a in enumerate(args[1:], start=2):
                    if a != ("param", i):
                        probs.append("argument %d is not the method's own parameter %d: %s" % (i - 1, i - 1, fmt_expr(a)))
                if len(args) != b.arg_count:
                    probs.append("arity differs")
                # result returned unchanged
                d = t["dest"]
                ok_ret = (d["l"] == 0 and not d["p"])
                if not ok_ret:
                    # allow `_x = call; _0 = move _x`
                    tb = t["target"]
                    if tb is not None:
                        for s in b.blocks[tb]["stmts"]:
                            if s["k"] == "assign" and s["pl"]["l"] == 0 and not s["pl"]["p"] and s["rv"]["k"] == "use" \
                                    and s["rv"]["op"]["k"] in ("copy", "move") and s["rv"]["op"]["pl"] == d:
                                ok_ret = True
                    if b.locals[0]["ty"] == "()":
                        ok_ret = True
                if not ok_ret:
                    # reference results are re-borrowed: `_0 = &(*_2)`
                    from .flow import return_expr
                    e = canon(return_expr(b, facts, inline=False))
                    while isinstance(e, tuple) and e[0] in ("ref", "deref"):
                        e = e[1]
                    if isinstance(e, tuple) and e[0] == "ucall" and e[1] == it.get("trait_item"):
                        ok_ret = True
                if not ok_ret:
                    probs.append("the result of the inner call is not returned unchanged")
                if probs:
                    res.bad(key, b.loc(), "; ".join(probs))
                else:
                    res.ok(key, b.loc(), "(**self).%s(params)" % it["name"])
            # overridable methods that are not forwarded: their default runs on the wrapper and
            # reaches the inner value only through forwarded methods
            for ti in tdef["items"]:
                if not ti["kind"].startswith("Fn") or ti["name"] in have:
                    continue
                sized = any("Sized" in p for p in ti.get("own_predicates", []))
                if not ti.get("has_default"):
                    res.bad("%s::%s" % (tname, ti["name"]), "-", "required method is not implemented")
                elif not sized:
                    res.notes.append("%s: `%s` not forwarded (default built from forwarded methods is used)" % (tname, ti["name"]))
    res.floor("forwarders", n, 60 if prop in ("C09", "C10") else (40 if prop == "C11" else 190))
    return res
