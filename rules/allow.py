"""Reviewed allowlist: one entry = one exact violation key + one line of reason. Never wider
than one site. Keys carry no line numbers."""

ALLOW = {
    # E1 -----------------------------------------------------------------------------------
    "E1|buf::buf_impl::sign_extend|Sub|8 - arg2":
        "nbytes <= 8 at every call: get_int*/try_get_int* obtain the value from (try_)get_uint*(nbytes) first, which "
        "rejects nbytes > 8 (panic_does_not_fit) before sign_extend runs; rule C2 checks that the same operand is passed to both",
    "E1|buf::buf_impl::sign_extend|Mul|(8 - arg2) * 8":
        "follows from nbytes <= 8 (previous entry): the product is at most 64",
    "E1|bytes_mut::BytesMut::reserve_inner|Sub|max(unwrap_or(checked_shl(.., ..), expect(.., ..)), expect(checked_add(.., ..), \"overflow\")) - len(.vec)":
        "new_cap = max(double, len + additional + off) >= off + len = v.len() after v.set_len(off + len) on the line above "
        "(checked_add on both sums; rule A8 ties set_len to the same operands)",
    # E4 -----------------------------------------------------------------------------------
    "E4|bytes_mut::BytesMut::reserve_inner|Vec::set_len on the shared Vec -> capacity overflow in Vec::reserve":
        "dead state: the len of Shared.vec is never read by any handle (each handle keeps its own len) and u8 needs no drop, so a capacity-overflow "
        "panic in Vec::reserve after v.set_len(off + len) leaves every handle's contents, length and capacity unchanged",
}
