"""A4 EXTENT-FORMULA and A5 PROMOTABLE-END

A4: every site that reconstructs the byte allocation (dealloc layout, Vec::from_raw_parts capacity,
    control-block `cap` initialisation) uses one formula — `(view_ptr - buf) + len` for an unshared
    Vec-backed handle, the block's own (buf, cap) pair for a shared one — with alignment 1.
A5: an unshared Vec-backed `Bytes` ends at the end of its allocation (that is how A4's formula
    recovers the capacity), so every write to Bytes.len must keep the view's end in place, happen on a
    handle that was cloned (promoted) first, or be guarded by vtable-identity tests that exclude
    every promotable vtable."""
from .base import Result, RuleError
from .facts import callee
from .flow import ExprBuilder, cfg_of, canon, walk, fmt_expr, relations_at
from .logic import uncast, is_call
from .r_a6 import strip_ptr
from . import roles
from .r_b1 import atomic_sites
from .inline import resolve_sites

BYTES = "bytes::Bytes"


def is_extent_formula(e, base=None):
    """e == offset_from(view, buf) + len  (either operand order); returns buf expr"""
    e = uncast(e)
    if isinstance(e, tuple) and e[0] == "bin" and e[1] == "Add":
        for (x, y) in ((e[2], e[3]), (e[3], e[2])):
            x = uncast(x)
            if is_call(x, "offset_from"):
                return strip_ptr(x[2][1]), y
    return None, None


def cancel_offsets(p):
    """(x + k) - k  ->  x   on pointers (`buf.add(off)` handed to a helper that subtracts `off` again)"""
    p = strip_ptr(p)
    if is_call(p, "sub") and len(p[2]) == 2:
        inner = strip_ptr(p[2][0])
        if is_call(inner, "add") and len(inner[2]) == 2 and canon(uncast(inner[2][1])) == canon(uncast(p[2][1])):
            return strip_ptr(inner[2][0])
    return p


def _root(e):
    while isinstance(e, tuple) and e and e[0] in ("ref", "deref"):
        e = e[1]
    return e


def cancel_sum(e):
    return e


def cb_field(e, name):
    """e is <shared>.name read out of a (re-boxed) control block; returns the block expr"""
    e = uncast(e)
    if isinstance(e, tuple) and e[0] == "field" and e[2] == name:
        return e[1]
    return None


def run(facts):
    res = Result("A4", "allocation extents are recomputed by one formula at all free/rebuild sites (align 1); every write to Bytes.len keeps the "
                       "end-of-allocation invariant of unshared Vec-backed handles")
    n = 0
    for b in facts.fn_bodies():
        # a helper that rebuilds a Vec from its own parameters is judged in the context of its callers: it must be inlined there
        own = b.id.rsplit("::", 1)[-1]
        sites = resolve_sites(facts, b, lambda view, only: judge_extent_sites(facts, view, only),
                              keep_names=tuple(x for x in ("offset_from", "rebuild_vec", "get_vec_pos") if x != own),
                              is_entry=lambda fb: is_slot(facts, fb))
        cnt = {}
        for x in sites:
            if x["ok"] and x.get("defer"):
                okd, textd = decide_in_callers(facts, b, x["bi"], x["j"])
                x["ok"] = okd
                x["text"] = textd if not okd else x["text"] + "; " + textd
            if x.get("counts", True):
                n += 1
            k0 = "%s|%s" % (b.id, x["keytail"])
            c = cnt.get(k0, 0)
            cnt[k0] = c + 1
            key = k0 + ("#%d" % c if c else "")
            if x["ok"]:
                res.ok(key, b.loc(x["bi"]), x["text"], nontrivial=True)
            else:
                res.bad(key, b.loc(x["bi"]), x["text"])
    res.floor("extent_sites", n, 6)
    promotable_end(res, facts)
    return res


def decide_in_callers(facts, body, bi, j, max_depth=3):
    """a Vec rebuilt from a helper's own parameters: judged in its direct callers (helper spliced in), and - where a caller only
    hands its own parameters on - in that caller's callers, nearest first; a chain stops at the first caller that decides"""
    from .inline import callers_of, inlined, keep_pred, sites_in
    pred = keep_pred(("offset_from", "get_vec_pos"), (), atoms=False)
    frontier = [(body.did, 1)]
    seen = set()
    decided = []
    pending = {}
    while frontier:
        did, depth = frontier.pop(0)
        cs = [c for c in callers_of(facts, did) if not facts.is_test(c)]
        if not cs:
            if did != body.did:
                decided.append("%s (no callers)" % facts.by_did[did].id.rsplit("::", 1)[-1])
            continue
        for c in cs:
            if c.did in seen or c.did == body.did:
                continue
            seen.add(c.did)
            view = inlined(facts, c, depth=depth, pred=pred)
            blocks = set(sites_in(view, body.did, bi))
            if not blocks:
                continue
            for y in judge_extent_sites(facts, view, blocks):
                blk = view.blocks[y["bi"]]
                if blk.get("origin") != body.did or blk.get("orig_bb") != bi or y["j"] != j:
                    continue
                nm = c.id.rsplit("::", 1)[-1]
                private = not str(c.vis).startswith("Public")
                if not y["ok"]:
                    # a private caller that itself only hands on what it was given (`grow_unshared_vec(off, additional)`): its callers decide
                    if private and depth < max_depth and [x for x in callers_of(facts, c.did) if not facts.is_test(x)] and c.kind in ("fn", "assoc_fn") \
                            and any(c.locals[i]["ty"] in ("usize", "*mut u8", "*const u8") for i in range(1, c.arg_count + 1)):
                        frontier.append((c.did, depth + 1))
                        pending[c.did] = "in the context of %s: %s" % (nm, y["text"])
                        continue
                    return False, "in the context of %s: %s" % (nm, y["text"])
                if y.get("defer") and depth < max_depth and private:
                    frontier.append((c.did, depth + 1))
                else:
                    decided.append(nm)
    return True, "decided at the callers: %s" % ", ".join(sorted(set(decided))[:8])


def is_slot(facts, b):
    for name, slots in roles.vtables(facts).items():
        for s_ in slots.values():
            if s_ and (s_.get("did") == b.did or (s_.get("res") or {}).get("did") == b.did):
                return True
    return False


def judge_extent_sites(facts, b, only_blocks=None):
    out = []
    eb = ExprBuilder(b, facts, inline=True)
    for bi, blk in enumerate(b.blocks):
        if blk["cleanup"] or (only_blocks is not None and bi not in only_blocks):
            continue

        def emit(j, keytail, ok, text, counts=True):
            out.append({"bi": bi, "j": j, "keytail": keytail, "ok": ok, "text": text, "nontrivial": True, "counts": counts})
        # control block construction
        for si, s in enumerate(blk["stmts"]):
            if s["k"] == "assign" and s["rv"]["k"] == "agg" and s["rv"].get("adt") == "bytes::Shared":
                f = {k: canon(eb.operand(v, (bi, si))) for k, v in zip(s["rv"]["fields"], s["rv"]["ops"])}
                buf, ln = is_extent_formula(f["cap"])
                okc = False
                how = ""
                if buf is not None and strip_ptr(f["buf"]) == buf:
                    okc, how = True, "cap = (view - buf) + len for the stored buf"
                elif is_call(f["cap"], "capacity") and is_call(strip_ptr(f["buf"]), "as_mut_ptr") and strip_ptr(f["buf"])[2] == f["cap"][2]:
                    okc, how = True, "(buf, cap) = (v.as_mut_ptr(), v.capacity()) of one Vec"
                emit(("s", si), "Shared{cap}", okc, how if okc else "control block records cap = %s for buf = %s: not the allocation's size" % (fmt_expr(f["cap"])[:80], fmt_expr(f["buf"])[:60]))
        t = blk["term"]
        if t["k"] != "call":
            continue
        fn = callee(t)
        if fn is None:
            continue
        p = (fn.get("res") or fn)["path"]
        loc = (bi, len(blk["stmts"]))
        if p.endswith("alloc::dealloc"):
            a = [canon(eb.operand(x, loc)) for x in t["args"]]
            ptr = strip_ptr(a[0])
            lay = a[1]
            fsa = [x for x in walk(lay) if is_call(x, "from_size_align")]
            probs = []
            if len(fsa) != 1:
                probs.append("layout is not Layout::from_size_align(size, align)")
            else:
                size, align = fsa[0][2]
                if canon(align) != ("const", 1):
                    probs.append("alignment is %s, byte buffers are allocated with alignment 1" % fmt_expr(align))
                buf, ln = is_extent_formula(size)
                if buf is not None:
                    if buf != ptr:
                        probs.append("size is computed against %s but %s is freed" % (fmt_expr(buf)[:50], fmt_expr(ptr)[:50]))
                    elif cb_field(ptr, "buf") is not None:
                        probs.append("the buffer of a control block is freed with a size recomputed from a view, not with the block's recorded cap")
                else:
                    cb = cb_field(size, "cap")
                    if cb is None or cb_field(ptr, "buf") != cb:
                        probs.append("size %s is neither (view - buf) + len nor the control block's own cap for its own buf" % fmt_expr(size)[:80])
            emit(0, "dealloc", not probs, "; ".join(probs) if probs else "dealloc(buf, Layout(size by formula, align 1))")
            out[-1]["ctx_dep"] = (not probs) and ptr[0] == "param"
        elif p == "alloc::vec::Vec::<T>::from_raw_parts":
            a = [canon(eb.operand(x, loc)) for x in t["args"]]
            B, L, C = strip_ptr(a[0]), a[1], a[2]
            B, L, C = cancel_offsets(B), cancel_sum(L), cancel_sum(C)
            ok, how = False, ""
            buf, ln = is_extent_formula(C)
            ctx_dep = False
            defer = False
            if buf is not None and buf == B and cb_field(B, "buf") is None:
                # valid for an unshared Vec-backed handle only (its view ends where the allocation ends, A5); the buffer of a
                # control block has its own recorded capacity. A bare parameter is whatever the callers pass: judged there too.
                ok, how = True, "capacity = (view - buf) + len for the same buf"
                ctx_dep = B[0] == "param"
            elif buf is not None and buf == B:
                ok, how = False, ""
            elif cb_field(C, "cap") is not None and cb_field(B, "buf") == cb_field(C, "cap"):
                ok, how = True, "(buf, cap) of one control block"
            elif is_call(B, "sub") and isinstance(C, tuple) and C[0] == "bin" and C[1] == "Add" and B[2][1] in (C[2], C[3]) \
                    and isinstance(uncast(L), tuple) and uncast(L)[0] == "bin" and uncast(L)[1] == "Add" and B[2][1] in (uncast(L)[2], uncast(L)[3]):
                off_ = B[2][1]
                base_ = strip_ptr(B[2][0])
                other = C[3] if C[2] == off_ else C[2]
                hb = base_[1] if (isinstance(base_, tuple) and base_[0] == "field" and base_[2] == "ptr") else None
                # the vec position: read out of the same handle's data word (get_vec_pos(h), `h.data >> K`, a decoding helper over
                # h.data) - A17 checks that those bits agree with the pointer
                def _only_data(x):
                    flds = [y for y in walk(x) if isinstance(y, tuple) and len(y) == 3 and y[0] == "field" and y[1] == hb]
                    return bool(flds) and all(y[2] == "data" for y in flds)
                is_pos = hb is not None and isinstance(off_, tuple) and (
                    (off_[0] == "call" and "pos" in off_[1].rsplit("::", 1)[-1] and len(off_[2]) >= 1 and _root(off_[2][0]) == _root(hb))
                    or _only_data(off_))
                if hb is not None and other == ("field", hb, "cap") and is_pos:
                    ok, how = True, "(h.ptr - pos, _, h.cap + pos) of one inline-Vec handle with pos = its vec position (allocation = cap + pos, A8c)"
                elif all(isinstance(uncast(x), tuple) and uncast(x)[0] == "param" for x in (base_, off_, other)):
                    # relative to the helper's own parameters: whatever the callers pass decides (judged in every calling context)
                    ok, how = True, "ptr - off, len + off, cap + off with one off"
                    defer = True
                else:
                    ok, how = False, ""
            if not ok and not str(b.vis).startswith("Public") and b.kind in ("fn", "assoc_fn") and isinstance(C, tuple) and C[0] == "bin" and C[1] == "Add" \
                    and all(isinstance(uncast(x), tuple) and uncast(x)[0] == "param" for x in (B, C[2], C[3])):
                # an intermediate non-public helper that only hands its own parameters on: its callers decide
                ok, how, defer = True, "rebuilt from the helper's own parameters (decided at its callers)", True
            emit(0, "from_raw_parts cap", ok, how if ok else "Vec rebuilt with capacity %s over %s: not the allocation's size (freeing it would use the wrong layout)" % (fmt_expr(C)[:80], fmt_expr(B)[:50]))
            out[-1]["ctx_dep"] = ctx_dep
            out[-1]["defer"] = defer
            # the length of the rebuilt Vec: the handle's own bytes, counted from the start of the allocation
            Lu = uncast(L)
            okl, howl = False, ""
            lbuf, lln = is_extent_formula(Lu)
            if Lu[0] == "param" and b.blocks[bi].get("origin", b.did) == b.did:
                okl, howl = True, "length = the handle's len (bytes moved to the front first, A9)"
            elif lbuf is not None and lbuf == B and uncast(lln)[0] == "param":
                okl, howl = True, "length = (view - buf) + len: up to the end of the handle's view"
            elif is_call(B, "sub") and Lu[0] == "bin" and Lu[1] == "Add" and B[2][1] in (Lu[2], Lu[3]) and any(uncast(x)[0] == "param" for x in (Lu[2], Lu[3])):
                okl, howl = True, "length = len + off for buf = ptr - off"
            emit(1, "from_raw_parts len", okl, howl if okl else "Vec rebuilt with length %s: not the end of the handle's view (bytes outside the view, possibly uninitialised, become contents)" % fmt_expr(Lu)[:80], counts=False)
    return out


def promotable_end(res, facts):
    sites = atomic_sites(facts)
    vts = roles.vtables(facts)
    # data-mutable vtables: some member of the family CASes / stores the data pointer
    writers = {s["body"].did for s in sites if s["obj"] == "data" and s["method"] in ("compare_exchange", "compare_exchange_weak", "store", "swap")}
    calls_of = {}
    for b in facts.fn_bodies():
        s = set()
        for _, t in b.calls():
            fn = callee(t)
            if fn:
                r = fn.get("res") or fn
                if r.get("local") and r.get("did") is not None:
                    s.add(r["did"])
        for c in facts.children.get(b.did, []):
            s.add(c.did)
        calls_of[b.did] = s
    mutable = set()
    for name, slots in vts.items():
        mem = set()
        st = [(s.get("did") if s.get("did") is not None else (s.get("res") or {}).get("did")) for s in slots.values() if s]
        while st:
            d = st.pop()
            if d is None or d in mem:
                continue
            mem.add(d)
            st.extend(calls_of.get(d, ()))
        if mem & writers:
            mutable.add(name)
    if len(mutable) < 1:
        raise RuleError("no data-mutable (promotable) vtable found")
    def judge(b):
        out = []
        eb = ExprBuilder(b, facts, inline=True)
        cfg = cfg_of(b)
        cnt = {}
        writes = []
        for bi, blk in enumerate(b.blocks):
            if blk["cleanup"]:
                continue
            for si, s in enumerate(blk["stmts"]):
                if s["k"] == "assign" and s["pl"]["p"] and isinstance(s["pl"]["p"][-1], dict) and s["pl"]["p"][-1].get("adt") == BYTES \
                        and s["pl"]["p"][-1].get("n") in ("len", "ptr"):
                    base = canon(eb.place({"l": s["pl"]["l"], "p": s["pl"]["p"][:-1]}, (bi, si)))
                    writes.append((bi, si, s["pl"]["p"][-1]["n"], canon(eb.rvalue(s["rv"], (bi, si), 0)), base, s["pl"]["l"]))
        for (bi, si, fld, E, base, loc_l) in writes:
            if fld != "len":
                continue
            k0 = "%s|Bytes.len" % b.id
            c = cnt.get(k0, 0)
            cnt[k0] = c + 1
            key = k0 + ("#%d" % c if c else "")
            ok, how = False, ""
            ln = ("field", base, "len")
            # (a) len -= k with ptr += k (same k): the end stays where it was
            if isinstance(E, tuple) and E[0] == "bin" and E[1] == "Sub" and E[2] == ln:
                k = E[3]
                for (bj, sj, f2, E2, base2, _) in writes:
                    if f2 == "ptr" and base2 == base and is_call(strip_ptr(E2), "add") and strip_ptr(E2)[2][1] == k:
                        ok, how = True, "len -= k paired with ptr += k (end of view unchanged)"
            # (b) the written handle is the result of a clone (a clone of a promotable handle is already shared)
            if not ok:
                hb = base
                while isinstance(hb, tuple) and hb[0] in ("deref", "ref"):
                    hb = hb[1]
                if is_call(hb, "clone"):
                    ok, how = True, "written handle is a fresh clone (promotion already happened)"
            # (c) dominated by a clone of the written handle
            if not ok:
                for cbi, t in b.calls():
                    fn = callee(t)
                    if fn and fn["name"] == "clone" and cfg.dominates(cbi, bi) and (cbi != bi):
                        a0 = canon(eb.operand(t["args"][0], (cbi, len(b.blocks[cbi]["stmts"]))))
                        x, y = a0, base
                        while isinstance(x, tuple) and x[0] in ("deref", "ref"):
                            x = x[1]
                        while isinstance(y, tuple) and y[0] in ("deref", "ref"):
                            y = y[1]
                        if x == y:
                            ok, how = True, "a clone of the same handle dominates the write (the buffer was promoted to shared)"
            # (d) vtable identity tests exclude every data-mutable vtable
            if not ok:
                excluded = set()
                for r in relations_at(b, bi, facts, inline=True):
                    exprs = []
                    if r[0] == "ne":
                        exprs = [r[1], r[2]]
                    elif r[0] == "truth" and isinstance(r[1], tuple) and r[1][0] == "call" and \
                            ((r[1][1].rsplit("::", 1)[-1] == "eq" and r[2] == 0) or (r[1][1].rsplit("::", 1)[-1] == "ne" and r[2] == 1)):
                        # pointer comparison `self.vtable as *const Vtable == &X` is a PartialEq::eq call on raw pointers;
                        # one side must be the handle's own vtable field
                        if any(y[0] == "field" and y[2] == "vtable" for y in walk(r[1])):
                            exprs = list(r[1][2])
                    for x in exprs:
                        for y in walk(x):
                            if y[0] == "static":
                                excluded.add(y[1])
                if mutable <= excluded:
                    ok, how = True, "guarded by vtable != each of %s" % sorted(mutable)
            # (e) fresh aggregate with a non-promotable vtable
            if not ok:
                agg = eb.local(loc_l, (bi, si)) if not b.blocks[bi]["stmts"][si]["pl"]["p"][:-1] else None
                for bj, blk in enumerate(b.blocks):
                    for sj, s2 in enumerate(blk["stmts"]):
                        if s2["k"] == "assign" and s2["pl"]["l"] == loc_l and not s2["pl"]["p"] and s2["rv"]["k"] == "agg" and s2["rv"].get("adt") == BYTES:
                            f = dict(zip(s2["rv"]["fields"], s2["rv"]["ops"]))
                            vt = canon(eb.operand(f["vtable"], (bj, sj)))
                            names = [y[1] for y in walk(vt) if y[0] == "static"]
                            if names and not (set(names) & mutable) and cfg.loc_dominates((bj, sj), (bi, si)):
                                ok, how = True, "fresh handle of the non-promotable family %s" % names[0]
            out.append((key, ok, how if ok else "Bytes.len = %s: an unshared Vec-backed handle would no longer end at the end of its allocation, so its capacity "
                                                "can no longer be recovered (wrong dealloc size)" % fmt_expr(E)[:80], (bi, si)))
        return out

    n = 0
    from .inline import views as _views
    for b in facts.fn_bodies():
        vs = judge(b)
        if any(not v[1] for v in vs) and b.kind in ("fn", "assoc_fn"):
            # the test that singles out the promotable representation may live in a predicate (`self.is_promotable()`): judge with it spliced in
            for ib in _views(facts, b):
                alt = judge(ib)
                if alt and all(v[1] for v in alt) and len(alt) >= len(vs):
                    vs = [(k, ok, how + " (helpers inlined)", (None, None)) for (k, ok, how, _) in alt][:max(len(vs), 1)]
                    break
        for (key, ok, how, (bi, si)) in vs:
            n += 1
            loc = b.loc(bi, si) if bi is not None and bi < len(b.blocks) else b.loc()
            if ok:
                res.ok(key, loc, how, nontrivial=True)
            else:
                res.bad(key, loc, how)
    res.floor("bytes_len_writes", n, 5)
