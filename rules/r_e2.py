"""E2 PARITY-SIBLINGS — results must not depend on whether the allocator returned an even or an odd
address: the two promotable vtables are slot-wise isomorphic once the unmasking of the tag bit is
erased; From<Box<[u8]>> pairs the OR-tagged data with the unmasking (even) vtable and the raw pointer
with the other; the empty box never reaches the tagging; the KIND_* constants agree between the two
modules and both control blocks assert an even alignment."""
from .base import Result, RuleError
from .facts import callee
from .flow import ExprBuilder, cfg_of, canon, walk, fmt_expr, relations_at, return_expr
from . import roles
from .r_b1 import atomic_sites
import re


def norm_name(p):
    p = p.rsplit("::", 1)[-1] if not p.startswith("<") else p
    return re.sub(r"(even|odd)", "<parity>", p)


ERASED = ("ptr_map", "cast", "cast_mut", "cast_const")


def skeleton(facts, b, depth=0):
    """multiset of (callee, argument shapes) of a function and the closures it creates, with the tag unmasking erased"""
    out = []
    fn_items = []
    eb = ExprBuilder(b, facts, inline=False)
    for bi, t in b.calls():
        if b.blocks[bi]["cleanup"]:
            continue
        fn = callee(t)
        if fn is None:
            out.append(("indirect", len(t["args"])))
            continue
        r = fn.get("res") or fn
        nm = norm_name(r["path"] if not r.get("local") else r["path"])
        if fn["name"] in ERASED or r["path"].rsplit("::", 1)[-1] in ERASED:
            continue
        # a crate-local function that is itself nothing but the unmasking / a pointer cast (`promotable_even_buf(shared)`)
        if r.get("local") and r.get("did") is not None and depth < 3:
            cb = facts.by_did.get(r["did"])
            if cb is not None and cb.kind in ("fn", "assoc_fn") and cb.did != b.did and len(cb.blocks) <= 12 and cb.arg_count <= 2 \
                    and skeleton(facts, cb, depth + 1) == [] and not any(st["k"] == "assign" and st["pl"]["p"] for blk in cb.blocks for st in blk["stmts"]):
                continue
        loc = (bi, len(b.blocks[bi]["stmts"]))
        shapes = []
        for a in t["args"]:
            e = canon(eb.operand(a, loc))
            # the (possibly unmasked) data pointer: loaded from the atom, or the with_mut closure's argument
            if any((x[0] == "call" and (x[1].endswith("ptr_map") or (x[1].endswith("::load") and "tomic" in x[1]))) for x in walk(e)) or \
                    (b.kind == "closure" and any(x == ("param", 2) for x in walk(e))):
                shapes.append("data")
                continue
            while isinstance(e, tuple) and e[0] in ("cast", "ref", "deref"):
                e = e[2] if e[0] == "cast" else e[1]
            if isinstance(e, tuple) and e[0] == "param":
                shapes.append("p%d" % e[1])
            elif isinstance(e, tuple) and e[0] == "closure":
                shapes.append("closure")
            elif isinstance(e, tuple) and e[0] == "fn":
                # a named function handed over where the sibling hands over a closure: same role, and its calls are compared like a closure's
                shapes.append("closure")
                fb = (facts.by_id.get(e[1]) or [None])[0]
                if fb is not None and fb.did != b.did and depth < 3:
                    fn_items.append(fb)
            elif isinstance(e, tuple) and e[0] == "const":
                shapes.append("c%s" % e[1])
            else:
                shapes.append("_")
        # dominating guards of the call, in the same erased vocabulary
        gs = []
        for r in relations_at(b, bi, facts, inline=False):
            def shp(x):
                x = canon(x)
                if isinstance(x, tuple) and x[0] == "const":
                    return "c%s" % x[1]
                if isinstance(x, tuple) and x[0] == "bin" and x[1] == "BitAnd":
                    return "tag"
                while isinstance(x, tuple) and x[0] in ("cast", "ref", "deref"):
                    x = x[2] if x[0] == "cast" else x[1]
                if isinstance(x, tuple) and x[0] == "param":
                    return "p%d" % x[1]
                return "_"
            if r[0] in ("eq", "ne", "lt", "le"):
                gs.append((r[0], shp(r[1]), shp(r[2])))
            elif r[0] == "truth":
                gs.append(("truth", "_", r[2]))
        out.append((nm, tuple(shapes), tuple(sorted(set(gs)))))
    for c in facts.children.get(b.did, []):
        if c.kind == "closure":
            out.extend(("closure:" + x[0],) + x[1:] for x in skeleton(facts, c, depth + 1))
    for fb in fn_items:
        out.extend(("closure:" + x[0].replace("closure:", ""),) + x[1:] for x in skeleton(facts, fb, depth + 1))
    return sorted(out)


def parity_by_paths(facts, b0, even, odd, is_tagged):
    """[(bb, vtable static, tagged?, parity, nonempty)] per distinct outcome over the feasible paths of the inlined views"""
    from .inline import views
    from .flow import feasible_paths_to, PathExprBuilder, path_relations
    for ib in views(facts, b0, keep_names=("ptr_map",)):
        outcomes = {}
        for bi, blk in enumerate(ib.blocks):
            for si, s in enumerate(blk["stmts"]):
                if not (s["k"] == "assign" and s["rv"]["k"] == "agg" and s["rv"].get("adt") == "bytes::Bytes") or blk["cleanup"]:
                    continue
                f = dict(zip(s["rv"]["fields"], s["rv"]["ops"]))
                for path in feasible_paths_to(ib, bi, limit=600):
                    pe = PathExprBuilder(ib, facts, path)
                    data = canon(pe.operand(f["data"], (bi, si)))
                    vt = canon(pe.operand(f["vtable"], (bi, si)))
                    names = [y[1] for y in walk(vt) if y[0] == "static" and y[1] in (even, odd)]
                    if len(names) != 1:
                        continue            # e.g. Bytes::new() on the empty path (inlined): not a promotable construction
                    parity = None
                    nonempty = False
                    for r in path_relations(ib, facts, path):
                        if r[0] in ("eq", "ne") and isinstance(r[2], tuple):
                            x, c = canon(r[1]), canon(r[2])
                            if isinstance(x, tuple) and x[0] == "bin" and x[1] == "BitAnd" and isinstance(c, tuple) and c[0] == "const" and c[1] in (0, 1) \
                                    and any(isinstance(y, tuple) and y[0] == "const" and y[1] == 1 for y in (x[2], x[3])):
                                parity = c[1] if r[0] == "eq" else 1 - c[1]
                        if r[0] == "truth" and "is_empty" in str(r[1]) and r[2] == 0:
                            nonempty = True
                        if r[0] == "ne" and "len" in str(r[1]) + str(r[2]) and (canon(r[2]) == ("const", 0) or canon(r[1]) == ("const", 0)):
                            nonempty = True
                    outcomes[(names[0], is_tagged(data), parity, nonempty)] = bi
        if outcomes:
            return [(bi, vt, tg, par, ne) for (vt, tg, par, ne), bi in sorted(outcomes.items(), key=lambda kv: str(kv[0]))]
    return None


def unmask_scope(res, facts):
    """UNMASK-SCOPE: a slot helper that receives the address transformer of its table (the even table strips the tag bit, the
    odd one does not) applies it to the *data word* only.  Applied to the view pointer - whose low bit is address, not tag -
    it makes the result depend on the parity of the view's address."""
    from .flow import ExprBuilder, canon, walk, fmt_expr
    n = 0
    for b in facts.fn_bodies():
        if facts.is_test(b) or b.kind not in ("fn", "assoc_fn") or b.arg_count < 3:
            continue
        tys = [b.locals[i]["ty"] for i in range(1, b.arg_count + 1)]
        if not any("AtomicPtr" in t or "Atomic<*mut" in t for t in tys):
            continue
        view_params = [i for i in range(1, b.arg_count + 1) if b.locals[i]["ty"] in ("*const u8", "*mut u8")]
        fn_params = [i for i in range(1, b.arg_count + 1) if b.locals[i]["ty"].startswith(("fn(", "unsafe fn(", "extern")) or "closure" in b.locals[i]["ty"]
                     or b.locals[i]["ty"] in ("F", "G") or b.locals[i]["ty"].startswith("impl Fn")]
        if not view_params or not fn_params:
            continue
        eb = ExprBuilder(b, facts, inline=True)
        for bi, blk in enumerate(b.blocks):
            t = blk["term"]
            if t["k"] != "call" or blk["cleanup"]:
                continue
            loc = (bi, len(blk["stmts"]))
            fn = callee(t)
            applied = None
            if fn is None:
                f = canon(eb.operand(t["func"], loc))
                if any(x == ("param", k) for x in walk(f) for k in fn_params):
                    applied = [canon(eb.operand(a, loc)) for a in t["args"]]
            else:
                args = [canon(eb.operand(a, loc)) for a in t["args"]]
                # f handed on to a mapper (`ptr_map(x, f)`, `FnOnce::call_once(f, (x,))`): everything else in the call is what it is applied to
                def is_f(a):
                    while isinstance(a, tuple) and a and a[0] in ("ref", "deref"):
                        a = a[1]
                    return any(a == ("param", k) for k in fn_params)
                if any(is_f(a) for a in args):
                    applied = [a for a in args if not is_f(a)]
            if applied is None:
                continue
            n += 1
            bad = [a for a in applied if any(x == ("param", k) for x in walk(a) for k in view_params)]
            key = "%s|transformer applied#%d" % (b.id, n)
            if bad:
                res.bad("%s|table's address transformer applied to the view pointer" % b.id, b.loc(bi),
                        "the per-table address transformer (tag unmasking for even buffers) is applied to `%s`, which derives from the view pointer: "
                        "the low bit of a view address is not a tag, results would depend on address parity" % fmt_expr(bad[0])[:80])
            else:
                res.ok(key, b.loc(bi), "applied to the data word only", nontrivial=True)
    return n


def raw_word_vs_view(res, facts):
    """RAW-WORD: in a function that receives both the data atom and the view pointer, the raw data word (its low bit is a tag for
    even buffers and an address bit for odd ones) is never compared with, or subtracted from, the view pointer: only the
    transformed word (the table's unmasking applied) denotes an address. `ptr == shared` happens to be true for a view that
    starts one byte into an even buffer."""
    from .flow import ExprBuilder, canon, walk, fmt_expr
    n = 0
    for b in facts.fn_bodies():
        if facts.is_test(b) or b.kind not in ("fn", "assoc_fn") or b.arg_count < 2:
            continue
        tys = [b.locals[i]["ty"] for i in range(1, b.arg_count + 1)]
        atoms = [i + 1 for i, t in enumerate(tys) if "AtomicPtr" in t or "Atomic<*mut" in t]
        views_ = [i + 1 for i, t in enumerate(tys) if t in ("*const u8", "*mut u8")]
        fn_params = [i + 1 for i, t in enumerate(tys) if t.startswith(("fn(", "unsafe fn(")) or "closure" in t or t in ("F", "G") or t.startswith("impl Fn")]
        if not atoms or not views_ or not fn_params:
            continue            # only the helpers shared by both parities: there the raw word means different things per table
        eb = ExprBuilder(b, facts, inline=True)

        def raw_word(e, under=False):
            """e contains a load of the data atom that is not inside an application of the transformer"""
            if not isinstance(e, tuple) or not e:
                return False
            if e[0] == "icall" or (e[0] == "call" and e[1].rsplit("::", 1)[-1] in ("ptr_map",)):
                return False
            if e[0] == "call" and e[1].rsplit("::", 1)[-1] in ("load", "get_mut", "with_mut") and any(x == ("param", k) for x in walk(e) for k in atoms):
                return True
            return any(raw_word(x) for x in e if isinstance(x, tuple))

        def view(e):
            return isinstance(e, tuple) and any(x == ("param", k) for x in walk(e) for k in views_)
        for bi, blk in enumerate(b.blocks):
            if blk["cleanup"]:
                continue
            pairs = []
            for si, s_ in enumerate(blk["stmts"]):
                if s_["k"] == "assign" and s_["rv"]["k"] == "bin" and s_["rv"]["op"].replace("WithOverflow", "") in ("Eq", "Ne", "Lt", "Le", "Gt", "Ge", "Sub", "Offset"):
                    pairs.append((canon(eb.operand(s_["rv"]["a"], (bi, si))), canon(eb.operand(s_["rv"]["b"], (bi, si))), s_["rv"]["op"]))
            t = blk["term"]
            if t["k"] == "call" and len(t["args"]) == 2:
                fn = callee(t)
                if fn and fn["name"] in ("offset_from", "eq", "ne", "sub_ptr", "offset_from_unsigned"):
                    loc = (bi, len(blk["stmts"]))
                    pairs.append((canon(eb.operand(t["args"][0], loc)), canon(eb.operand(t["args"][1], loc)), fn["name"]))
            for (x, y, op) in pairs:
                n += 1
                if (raw_word(x) and view(y) and not view(x)) or (raw_word(y) and view(x) and not view(y)):
                    res.bad("%s|raw data word related to the view pointer" % b.id, b.loc(bi),
                            "`%s` relates the raw data word to the view pointer (%s): the low bit of the word is a tag in one table and an address bit in the other, "
                            "so the outcome depends on the parity of the buffer address" % (op, fmt_expr(x)[:50] + " ~ " + fmt_expr(y)[:50]))
    return n


def parity_vtables(facts):
    """([even vtable name], [odd vtable name]) of the promotable representation"""
    vts = roles.vtables(facts)
    even = [n for n in vts if "EVEN" in n.upper()]
    odd = [n for n in vts if "ODD" in n.upper()]
    # discover the sibling pair structurally if names ever change: two vtables sharing an is_unique slot function
    if not (len(even) == 1 and len(odd) == 1):
        pairs = []
        names = sorted(vts)
        for i, a in enumerate(names):
            for b_ in names[i + 1:]:
                ia, ib = vts[a].get("is_unique"), vts[b_].get("is_unique")
                if ia and ib and ia.get("path") == ib.get("path"):
                    pairs.append((a, b_))
        if len(pairs) != 1:
            raise RuleError("parity sibling vtables not found")
        even, odd = [pairs[0][0]], [pairs[0][1]]
    return even, odd


def run(facts):
    res = Result("E2", "the even/odd promotable vtables are slot-wise isomorphic modulo unmasking; the parity dispatch pairs tagged data with the "
                       "unmasking vtable; KIND constants and alignment assertions agree between the two modules")
    vts = roles.vtables(facts)
    sites = atomic_sites(facts)
    even, odd = parity_vtables(facts)
    E, O = vts[even[0]], vts[odd[0]]
    did = lambda s: s.get("did") if s.get("did") is not None else (s.get("res") or {}).get("did")
    for slot in sorted(E):
        be, bo = facts.by_did.get(did(E[slot])), facts.by_did.get(did(O[slot]))
        key = "slot %s" % slot
        if be is None or bo is None:
            res.bad(key, "-", "slot function missing")
            continue
        if be.did == bo.did:
            res.ok(key, be.loc(), "both vtables share %s" % be.id)
            continue
        se, so = skeleton(facts, be), skeleton(facts, bo)
        if se == so:
            res.ok(key, be.loc(), "call skeletons equal modulo unmasking (%d calls)" % len(se), nontrivial=True)
        else:
            only_e = [x for x in se if x not in so]
            only_o = [x for x in so if x not in se]
            res.bad(key, bo.loc(), "even/odd siblings differ beyond the unmasking: only even %s; only odd %s — results would depend on the parity of the allocator's address" % (only_e[:3], only_o[:3]))
    # parity dispatch in From<Box<[u8]>>
    cands = [b for b in facts.fn_bodies() if ("From<alloc::boxed::Box<[u8]>>" in b.id and b.id.endswith("::from"))]
    if len(cands) != 1:
        raise RuleError("From<Box<[u8]>> for Bytes not found")
    b = cands[0]
    eb = ExprBuilder(b, facts, inline=True)
    aggs = []
    indirect = []
    probs = []

    def is_tagged(x):
        return any(y[0] == "call" and y[1].endswith("ptr_map") for y in walk(x)) or any(y[0] == "bin" and y[1] == "BitOr" for y in walk(x))

    def pairing(bi, data, vt):
        names = [y[1] for y in walk(vt) if y[0] == "static"]
        rels = relations_at(b, bi, facts, inline=True)
        parity = None
        for r in rels:
            if r[0] in ("eq", "ne"):
                x, c = canon(r[1]), canon(r[2])
                if isinstance(x, tuple) and x[0] == "bin" and x[1] == "BitAnd" and isinstance(c, tuple) and c[0] == "const" and c[1] in (0, 1):
                    mask = [y for y in (x[2], x[3]) if isinstance(y, tuple) and y[0] == "const"]
                    if mask and mask[0][1] == 1:
                        parity = c[1] if r[0] == "eq" else 1 - c[1]

        def is_len(x):
            x = canon(x)
            return isinstance(x, tuple) and x[0] == "call" and x[1].rsplit("::", 1)[-1] == "len"
        nonempty = any((r[0] == "truth" and "is_empty" in str(r[1]) and r[2] == 0) or
                       (r[0] == "ne" and ((is_len(r[1]) and canon(r[2]) == ("const", 0)) or (is_len(r[2]) and canon(r[1]) == ("const", 0)))) or
                       (r[0] == "lt" and canon(r[1]) == ("const", 0) and is_len(r[2])) for r in rels)
        aggs.append((bi, names[0] if names else None, is_tagged(data), parity, nonempty))
    for bi, blk in enumerate(b.blocks):
        for si, s in enumerate(blk["stmts"]):
            if s["k"] != "assign" or s["rv"]["k"] != "agg":
                continue
            if s["rv"].get("adt") == "bytes::Bytes":
                f = dict(zip(s["rv"]["fields"], s["rv"]["ops"]))
                data = canon(eb.operand(f["data"], (bi, si)))
                vt = canon(eb.operand(f["vtable"], (bi, si)))
                if any(y[0] == "static" for y in walk(vt)) and not any(y[0] == "phi" for y in walk(vt)):
                    pairing(bi, data, vt)
                else:
                    # the (data, vtable) pair was chosen earlier and is consumed here: both must be projections of one value
                    src_v = [y[1] for y in walk(vt) if y[0] == "field" and isinstance(y[1], tuple) and y[1][0] == "phi"]
                    src_d = [y[1] for y in walk(data) if y[0] == "field" and isinstance(y[1], tuple) and y[1][0] == "phi"]
                    if src_v and src_d and src_v[0] == src_d[0]:
                        indirect.append(bi)
                    else:
                        probs.append("the handle's data word and vtable are not chosen together")
            elif s["rv"].get("ak") == "tuple":
                ops = [canon(eb.operand(o, (bi, si))) for o in s["rv"]["ops"]]
                vts = [o for o in ops if any(y[0] == "static" and y[1] in (even[0], odd[0]) for y in walk(o))]
                if len(vts) == 1:
                    others = [o for o in ops if o is not vts[0]]
                    pairing(bi, ("agg", "tuple", tuple(others)), vts[0])
    key = "From<Box<[u8]>>|parity dispatch"
    if len(aggs) != 2 or probs:
        # the choice may be spread over helpers (`Parity::of(ptr)`, `parity.tag(ptr)`, `parity.vtable()`): evaluate every
        # feasible path of the inlined view to the handle construction, where data and vtable read as what that path chose
        alt = parity_by_paths(facts, b, even[0], odd[0], is_tagged)
        if alt is not None:
            aggs, probs = alt, []
    if len(aggs) != 2:
        probs.append("expected two handle constructions (even / odd), found %d" % len(aggs))
    for (bi, vt, tagged, parity, nonempty) in aggs:
        if parity is None:
            probs.append("handle built without testing the low address bit")
        elif parity == 0 and not (tagged and vt == even[0]):
            probs.append("even address: data must be OR-tagged and paired with %s (found tagged=%s, %s)" % (even[0], tagged, vt))
        elif parity == 1 and not ((not tagged) and vt == odd[0]):
            probs.append("odd address: data must be the raw pointer paired with %s (found tagged=%s, %s)" % (odd[0], tagged, vt))
        if not nonempty:
            probs.append("the empty box can reach the tagging (its dangling pointer is not aligned)")
    if probs:
        res.bad(key, b.loc(), "; ".join(sorted(set(probs))))
    else:
        res.ok(key, b.loc(), "low bit == 0 -> (ptr | KIND_VEC, even vtable); else (ptr, odd vtable); empty box returns early", nontrivial=True)
    # vtable identity tests: a decision that singles out the promotable representation must cover both parities alike
    from .flow import edge_conditions, first_effect_block
    n_tests = 0

    def identity_hits(fb):
        hits = {}
        for (s_, d_, c_, v_) in edge_conditions(fb, facts):
            cc = canon(c_)
            # a flag that is `true` on one path and the result of a further comparison on another (`a == EVEN || a == ODD` spliced in
            # from a predicate): taking the flag's true edge through that alternative means that comparison held
            if isinstance(c_, tuple) and c_ and c_[0] == "phi" and len(c_) > 2 and v_[0] == "eq" and v_[1] == 1:
                for alt in c_[1]:
                    a_ = canon(alt)
                    if isinstance(a_, tuple) and a_ and ((a_[0] == "call" and a_[1].rsplit("::", 1)[-1] == "eq") or (a_[0] == "bin" and a_[1] == "Eq")):
                        sts = [y[1] for y in walk(a_) if y[0] == "static" and y[1] in (even[0], odd[0])]
                        if len(sts) == 1:
                            hits.setdefault(sts[0], []).append(first_effect_block(fb, d_))
                continue
            st = [y[1] for y in walk(cc) if y[0] == "static" and y[1] in (even[0], odd[0])]
            if not st or v_[0] != "eq":
                continue
            # which edge means "this handle uses that vtable": eq(..) == true, ne(..) == false, !(..) flips
            sense = 1
            x = cc
            while isinstance(x, tuple) and x and x[0] == "un" and x[1] == "Not":
                sense = 1 - sense
                x = x[2]
            if isinstance(x, tuple) and x and x[0] == "call" and x[1].rsplit("::", 1)[-1] == "ne":
                sense = 1 - sense
            elif isinstance(x, tuple) and x and x[0] == "bin" and x[1] == "Ne":
                sense = 1 - sense
            elif not (isinstance(x, tuple) and x and ((x[0] == "call" and x[1].rsplit("::", 1)[-1] == "eq") or (x[0] == "bin" and x[1] == "Eq"))):
                continue
            if v_[1] == sense:
                hits.setdefault(st[0], []).append(first_effect_block(fb, d_))
        return hits

    from .inline import views, callers_of
    todo = [(fb, fb, "") for fb in facts.fn_bodies()]
    seen_keys = set()
    while todo:
        fb0, fb, via = todo.pop(0)
        hits = identity_hits(fb)
        if not hits and not via and fb0.kind in ("fn", "assoc_fn") and fb0.locals[0]["ty"] == "bool" and str(fb0.vis).startswith("Restricted"):
            # a predicate that is nothing but one comparison (`fn is_promotable(&self) -> bool { eq(EVEN) }`)
            re_ = return_expr(fb0, facts, inline=False)
            if any(isinstance(y, tuple) and y and y[0] == "static" and y[1] in (even[0], odd[0]) for y in walk(re_)):
                for cb in callers_of(facts, fb0.did):
                    for ib in views(facts, cb):
                        todo.append((cb, ib, " (through %s)" % fb0.id.rsplit("::", 1)[-1]))
                        break
            continue
        if not hits:
            continue
        key = "%s|vtable identity test covers both parities" % fb0.id
        if set(hits) != {even[0], odd[0]} and not via and str(fb0.vis).startswith("Restricted") and fb0.kind in ("fn", "assoc_fn") \
                and fb0.locals[0]["ty"] == "bool" and callers_of(facts, fb0.did):
            # a private predicate (`fn is_promotable(&self) -> bool { eq(EVEN) || eq(ODD) }`): its last test is its result, not a branch.
            # The decision is taken where the predicate is used: judge every caller with the predicate spliced in.
            for cb in callers_of(facts, fb0.did):
                for ib in views(facts, cb):
                    todo.append((cb, ib, " (through %s)" % fb0.id.rsplit("::", 1)[-1]))
                    break
            continue
        if key in seen_keys:
            continue
        seen_keys.add(key)
        n_tests += 1
        fb = fb0
        if set(hits) != {even[0], odd[0]}:
            res.bad(key, fb.loc(), "the handle is compared with %s only: behaviour differs between even and odd allocation addresses" % sorted(hits))
        elif sorted(set(hits[even[0]])) != sorted(set(hits[odd[0]])):
            res.bad(key, fb.loc(), "the even and the odd vtable lead to different code")
        else:
            res.ok(key, fb.loc(), "both promotable vtables are tested and lead to the same branch", nontrivial=True)
    res.floor("vtable_identity_tests", n_tests, 1)
    # constants and alignment assertions
    consts = {}
    for cb in facts.bodies:
        if cb.kind == "const" and cb.id.rsplit("::", 1)[-1] in ("KIND_ARC", "KIND_VEC", "KIND_MASK"):
            e = return_expr(cb, facts, inline=False)
            consts.setdefault(cb.id.rsplit("::", 1)[-1], {})[cb.id] = e
    key = "KIND constants"
    bad = [n for n, d in consts.items() if len(set(d.values())) != 1 or len(d) < 2]
    if bad or len(consts) != 3:
        res.bad(key, "-", "KIND_* constants missing or different between the two modules: %s" % {n: {k: fmt_expr(v) for k, v in d.items()} for n, d in consts.items()})
    else:
        res.ok(key, "-", "KIND_ARC/KIND_VEC/KIND_MASK identical in both modules: %s" % {n: fmt_expr(list(d.values())[0]) for n, d in consts.items()})
    # `const _: [(); 0 - align_of::<Shared>() % 2] = [];` for both control blocks
    n_align = 0
    for cb in facts.bodies:
        if cb.kind in ("const", "anon_const"):
            for _, t in cb.calls():
                fn = callee(t)
                if fn and fn["name"] == "align_of" and any("Shared" in a for a in (fn.get("args") or [])):
                    n_align += 1
    key = "alignment assertions"
    if n_align >= 2:
        res.ok(key, "-", "%d compile-time assertions that the control blocks' alignment is even (tag bit is free)" % n_align)
    else:
        res.bad(key, "-", "compile-time assertion `align_of::<Shared>() %% 2 == 0` missing for a control block (%d found)" % n_align)
    nu = unmask_scope(res, facts)
    raw_word_vs_view(res, facts)
    res.notes.append("%d applications of a caller-supplied address transformer in slot helpers (vacuous when the tables do not share helpers)" % nu)
    return res
