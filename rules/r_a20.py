"""A20 VIEW-SHRINK: a store to `Bytes.len` / `Bytes.ptr` only ever narrows the view.

A `Bytes` has no spare capacity: the bytes it may show are exactly `[ptr, ptr + len)` of the handle it was made from (a fresh
aggregate, or a clone, whose view is the original's - A13).  So for every function that stores to the `len` or `ptr` field of a
`Bytes` and every path through it, the *state at the end of the path* must entail, in the linear-inequality domain,

        off + len' <= len            where  ptr' = ptr.add(off)   (off = 0 when ptr is not stored to)

with `len`, `ptr` the field values before the function's first store.  Assumed: the release-mode branch conditions of the path
(debug-only conditions are not facts), the function's own stated preconditions when it is an `unsafe fn` (the callers'
obligation, discharged at each call site by A6), `clone(x).len == x.len`.

A5 asks that a promotable handle's *end* stays put and A13 that aggregates are built from one source; neither bounds the value
stored: `self.len = len` on a path where only `len != self.len` is known grows the view past its data (C13: the documented
no-op of `truncate(len + 1)`; C01/C02: bytes that were never written become visible).
"""
from .base import Result
from .flow import ExprBuilder, PathExprBuilder, enumerate_paths, canon, fmt_expr, walk, stated_preconditions
from .pathstate import StatePathBuilder
from .lin import State
from .logic import is_call
from .r_a6 import strip_ptr

BYTES = "bytes::Bytes"
FIELD_IDX = {"ptr": 0, "len": 1, "data": 2, "vtable": 3}


def clone_equalities(exprs):
    """field(clone(x), f) == field(x, f) for the view fields read in `exprs`"""
    out = []
    seen = set()
    for e in exprs:
        for x in walk(e):
            if isinstance(x, tuple) and len(x) == 3 and x[0] == "field" and x[2] in ("len", "ptr") and x not in seen:
                seen.add(x)
                src = x[1]
                while isinstance(src, tuple) and src and src[0] in ("ref", "deref"):
                    src = src[1]
                if is_call(src, "clone") and len(src[2]) == 1:
                    a = canon(src[2][0])        # clone takes a reference: the place cloned is what it points to
                    tgt = a[1] if isinstance(a, tuple) and a and a[0] == "ref" else ("deref", a)
                    out.append(("eq", x, ("field", canon(tgt), x[2])))
    return out


def _root(e):
    e = canon(e)
    while isinstance(e, tuple) and e and e[0] in ("ref", "deref"):
        e = e[1]
    return e


def split_ptr(e, p0):
    """ptr' = p0.add(k1).add(k2).. -> sum of offsets; None if ptr' is not derived from p0 by forward moves"""
    offs = []
    e = strip_ptr(canon(e))
    for _ in range(6):
        if e == p0:
            break
        if is_call(e, "add") and len(e[2]) == 2:
            offs.append(e[2][1])
            e = strip_ptr(canon(e[2][0]))
            continue
        return None
    else:
        return None
    tot = ("const", 0)
    for o in offs:
        tot = o if tot == ("const", 0) else ("bin", "Add", tot, o)
    return tot


def field_index(facts):
    a = facts.adts.get(BYTES)
    if a:
        names = [f["name"] for f in a["variants"][0]["fields"]]
        return {n: i for i, n in enumerate(names)}
    return FIELD_IDX


def judge_body(facts, b, pre, fidx):
    bases = {}
    for bi, blk in enumerate(b.blocks):
        if blk["cleanup"]:
            continue
        for s in blk["stmts"]:
            if s["k"] != "assign":
                continue
            pl = s["pl"]
            if pl["p"] and isinstance(pl["p"][-1], dict) and pl["p"][-1].get("adt") == BYTES and pl["p"][-1].get("n") in ("len", "ptr"):
                bases[(pl["l"], repr(pl["p"][:-1]))] = (pl["l"], pl["p"][:-1])
    bad = None
    n_paths = 0
    for path in enumerate_paths(b, limit=6000):
        written = []
        for (l, proj) in bases.values():
            flds = set()
            first = None
            for bb in path:
                for si, s in enumerate(b.blocks[bb]["stmts"]):
                    if s["k"] == "assign" and s["pl"]["l"] == l and s["pl"]["p"][:-1] == proj and s["pl"]["p"] and isinstance(s["pl"]["p"][-1], dict) \
                            and s["pl"]["p"][-1].get("adt") == BYTES and s["pl"]["p"][-1].get("n") in ("len", "ptr"):
                        flds.add(s["pl"]["p"][-1]["n"])
                        if first is None:
                            first = (bb, si)
            if flds:
                written.append((l, proj, flds, first))
        if not written:
            continue
        sp = StatePathBuilder(b, facts, path)
        end = (path[-1], len(b.blocks[path[-1]]["stmts"]))
        n_paths += 1
        goals = []
        for (l, proj, flds, first) in written:
            def pl_(nm):
                return {"l": l, "p": list(proj) + [{"f": fidx[nm], "n": nm, "adt": BYTES, "ty": "usize" if nm == "len" else "*const u8"}]}
            # the values before the first store: read at the location of that store (no earlier store to this handle on the path)
            L0 = canon(sp.place(pl_("len"), first))
            P0 = canon(sp.place(pl_("ptr"), first))
            L1 = canon(sp.place(pl_("len"), end))
            P1 = canon(sp.place(pl_("ptr"), end))
            off = ("const", 0) if "ptr" not in flds else split_ptr(P1, strip_ptr(P0))
            whole = canon(sp.place({"l": l, "p": list(proj)}, first))
            if isinstance(whole, tuple) and whole and whole[0] == "agg" and L0 == ("const", 0) and flds == {"ptr", "len"}:
                # a handle under construction in this function (built empty, not yet handed to anyone), then pointed at its bytes:
                # the pair stored must be (s.as_ptr(), s.len()) of one slice - the aggregate form A13 demands
                p1 = strip_ptr(P1)
                l1 = L1
                while isinstance(l1, tuple) and l1 and l1[0] == "cast":
                    l1 = l1[2]
                if (is_call(p1, "as_ptr") or is_call(p1, "as_mut_ptr")) and is_call(l1, "len") and _root(p1[2][0]) == _root(l1[2][0]):
                    continue
            if isinstance(whole, tuple) and whole and whole[0] == "call" and len(whole[2]) == 0 and "len" not in flds:
                # an empty handle made by a constructor without inputs (`Bytes::new()`) and pointed somewhere: it shows no bytes before and after
                if constructs_empty(facts, whole):
                    continue
            goals.append((L0, L1, off, P1, "handle %s" % fmt_expr(canon(sp.place({"l": l, "p": list(proj)}, first)))[:40]))
        rels = sp.path_relations()
        exprs = [x for g in goals for x in g[:3] if isinstance(x, tuple)] + [x for r in rels for x in r[1:3] if isinstance(x, tuple)]
        st = State(pre + rels + clone_equalities(exprs) + sp.vec_facts())
        if st.refuted():
            continue
        for (L0, L1, off, P1, what) in goals:
            if off is None:
                bad = (path, "%s: ptr is re-based to %s, which is not the old ptr moved forward" % (what, fmt_expr(P1)[:70]))
                break
            lhs = L1 if off == ("const", 0) else ("bin", "Add", off, L1)
            if not st.entails(("le", lhs, L0)):
                bad = (path, "%s ends with len = %s%s, and offset + len <= old len (%s) does not follow from the conditions on that path" % (
                    what, fmt_expr(L1)[:60], "" if off == ("const", 0) else " at ptr + %s" % fmt_expr(off)[:40], fmt_expr(L0)[:40]))
                break
        if bad:
            break
    return bad, n_paths


def constructs_empty(facts, e, depth=0):
    """the call builds a handle with len == 0 (`Bytes::new()`, i.e. `from_static(&[])`): decided from the constructors' return expressions"""
    from .flow import return_expr, subst_params
    if depth > 3 or not (isinstance(e, tuple) and e and e[0] == "call"):
        return False
    cands = facts.by_id.get(e[1], [])
    if len(cands) != 1 or cands[0].arg_count != len(e[2]):
        return False
    re_ = canon(subst_params(return_expr(cands[0], facts, inline=False), e[2])) if e[2] else canon(return_expr(cands[0], facts, inline=False))
    if isinstance(re_, tuple) and re_ and re_[0] == "agg" and isinstance(re_[1], tuple) and len(re_[1]) > 2 and "len" in re_[1][2]:
        ln = canon(re_[2][list(re_[1][2]).index("len")])
        if ln == ("const", 0):
            return True
        if is_call(ln, "len") and len(ln[2]) == 1:
            x = ln[2][0]
            while isinstance(x, tuple) and x and x[0] in ("ref", "deref", "cast"):
                x = x[2] if x[0] == "cast" else x[1]
            return isinstance(x, tuple) and x and x[0] == "agg" and x[1] == "array" and len(x[2]) == 0
        return False
    return constructs_empty(facts, re_, depth + 1)


def run(facts):
    res = Result("A20", "every store to Bytes.len / Bytes.ptr narrows the view: on every path offset + len' <= len is entailed by the path's release-mode "
                        "conditions and the function's stated preconditions (state at the end of the path, linear-inequality domain)")
    fidx = field_index(facts)
    n_fn = 0
    for b in facts.fn_bodies():
        if facts.is_test(b) or b.kind not in ("fn", "assoc_fn", "closure"):
            continue
        has = any(s["k"] == "assign" and s["pl"]["p"] and isinstance(s["pl"]["p"][-1], dict) and s["pl"]["p"][-1].get("adt") == BYTES
                  and s["pl"]["p"][-1].get("n") in ("len", "ptr") for blk in b.blocks if not blk["cleanup"] for s in blk["stmts"])
        if not has:
            continue
        n_fn += 1
        pre = [r for r in stated_preconditions(b, facts) if r[0] in ("le", "lt", "eq")] if b.safety == "unsafe" else []
        bad, n_paths = judge_body(facts, b, pre, fidx)
        if bad and b.kind in ("fn", "assoc_fn"):
            from .inline import views
            for ib in views(facts, b, keep_names=("inc_start", "clone")):
                bad2, n2 = judge_body(facts, ib, pre, fidx)
                if not bad2 and n2:
                    bad, n_paths = None, n2
                    break
        if bad and (b.safety == "unsafe" or str(b.vis).startswith("Restricted")) and b.kind in ("fn", "assoc_fn"):
            # an unsafe helper whose requirement is stated in prose only (`# Safety: begin <= end <= len`), or a private helper that only
            # the crate can call (`fn shorten_to(&mut self, len)`, "callers guarantee len < self.len"): the stores are judged where
            # the helper is used - in every caller, with the helper spliced in
            from .inline import contexts
            ctxs = contexts(facts, b)
            if ctxs:
                worst = None
                tot = 0
                for cb in ctxs:
                    bad2, n2 = judge_body(facts, cb, [], fidx)
                    tot += n2
                    if bad2:
                        worst = (bad2[0], "in the caller %s: %s" % (cb.id.rsplit("::", 1)[-1], bad2[1]))
                        break
                if worst is None and tot:
                    bad, n_paths = None, tot
                elif worst is not None:
                    bad = worst
        key = "%s|view only narrows" % b.id
        if bad:
            res.bad(key, b.loc(), "on the path bb%s %s" % ("->bb".join(str(x) for x in bad[0]), bad[1]), path="bb" + "->bb".join(str(x) for x in bad[0]))
        else:
            res.ok(key, b.loc(), "%d path(s) store to Bytes.len / ptr; the new view lies inside the old one on each" % n_paths, nontrivial=True)
    res.floor("functions storing to Bytes.len / ptr", n_fn, 4)
    return res
