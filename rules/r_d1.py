"""D1 CMP-ORIENT — comparison / hash / borrow impls delegate to the byte-slice impl over
content-preserving views with the operands in the right order."""
from .base import Result, RuleError
from .flow import return_expr, fmt_expr
from . import roles

CMP_TRAITS = {
    "core::cmp::PartialEq": ("eq",),
    "core::cmp::PartialOrd": ("partial_cmp",),
    "core::cmp::Ord": ("cmp",),
    "core::hash::Hash": ("hash",),
    "core::borrow::Borrow": ("borrow",),
}
ORDERED = ("partial_cmp", "cmp")

# std functions that return a view of exactly the bytes of their (first) argument
STD_VIEWS = (
    "core::str::<impl str>::as_bytes",
    "alloc::string::String::as_bytes",
    "alloc::string::String::as_str",
    "<alloc::vec::Vec<T, A> as core::ops::Deref>::deref",
    "<alloc::string::String as core::ops::Deref>::deref",
    "alloc::vec::Vec::<T, A>::as_slice",
    "<alloc::vec::Vec<T, A> as core::convert::AsRef<[T]>>::as_ref",
    "<alloc::vec::Vec<T, A> as core::borrow::Borrow<[T]>>::borrow",
    "<str as core::convert::AsRef<[u8]>>::as_ref",
    "<alloc::string::String as core::convert::AsRef<[u8]>>::as_ref",
)
# indexing with `..` (RangeFull) is the whole slice
STD_INDEX = (
    "<alloc::vec::Vec<T, A> as core::ops::Index<I>>::index",
    "<alloc::string::String as core::ops::Index<I>>::index",
    "core::slice::index::<impl core::ops::Index<I> for [T]>::index",
    "core::str::traits::<impl core::ops::Index<I> for str>::index",
)
BYTE_FAMILY = ("[u8]", "alloc::vec::Vec<u8>", "alloc::boxed::Box<[u8]>")
STR_FAMILY = ("str", "alloc::string::String")


def strip_refs(t):
    t = t.strip()
    while t.startswith("&"):
        t = t[1:].lstrip()
        if t.startswith("'"):
            t = t.split(" ", 1)[1] if " " in t else t
        if t.startswith("mut "):
            t = t[4:]
    return t


class D1:
    def __init__(self, facts):
        self.facts = facts
        self.handles = roles.handle_types(facts)
        self.view_memo = {}
        self.orient_memo = {}

    # -- views --------------------------------------------------------------------------------
    def local_view_ok(self, did):
        """a crate fn is a content-preserving view iff it returns a view of its receiver or the raw
        slice (receiver.ptr, receiver.len)"""
        if did in self.view_memo:
            return self.view_memo[did]
        self.view_memo[did] = False
        b = self.facts.by_did.get(did)
        ok = False
        if b is not None and b.arg_count == 1:
            e = return_expr(b, self.facts, inline=False)
            r = self.root(e)
            if r == 1:
                ok = True
            elif e[0] == "call" and e[1] in ("core::slice::from_raw_parts", "core::slice::from_raw_parts_mut"):
                p, l = e[2]
                ok = self.is_field_of_self(p, "ptr") and self.is_field_of_self(l, "len")
        self.view_memo[did] = ok
        return ok

    def is_field_of_self(self, e, name):
        # strip casts / NonNull::as_ptr
        while isinstance(e, tuple) and e[0] in ("cast", "nn_as_ptr"):
            e = e[2] if e[0] == "cast" else e[1]
        if isinstance(e, tuple) and e[0] == "call" and e[1].endswith("NonNull::<T>::as_ptr"):
            e = e[2][0]
        return isinstance(e, tuple) and e[0] == "field" and e[2] == name and self.root(e[1]) == 1

    def root(self, e):
        """parameter index whose bytes `e` is a view of, or None"""
        for _ in range(30):
            if not isinstance(e, tuple):
                return None
            h = e[0]
            if h == "param":
                return e[1]
            if h in ("ref", "deref"):
                e = e[1]
                continue
            if h == "call":
                path, args = e[1], e[2]
                if path in STD_VIEWS:
                    e = args[0]
                    continue
                if path in STD_INDEX and ("RangeFull" in (e[3] if len(e) > 3 else "") or
                                          (len(args) == 2 and isinstance(args[1], tuple) and args[1][0] == "agg" and "RangeFull" in str(args[1][1]))):
                    e = args[0]
                    continue
                # crate-local view?
                cands = [b for b in self.facts.by_id.get(path, [])]
                if len(cands) == 1 and self.local_view_ok(cands[0].did):
                    e = args[0]
                    continue
                return None
            if h == "ucall":
                if getattr(self, "asref_view", False) and e[1] in ("core::convert::AsRef::as_ref", "core::borrow::Borrow::borrow") and len(e[2]) == 1:
                    e = e[2][0]
                    continue
                return None
            return None
        return None

    # -- orientation --------------------------------------------------------------------------
    def find_impl_method(self, trait, self_ty, rhs, method):
        for im in self.facts.impls:
            if im.get("trait") != trait:
                continue
            if im["self_ty"] != self_ty:
                continue
            targs = im.get("trait_args", [])
            r = targs[1] if len(targs) > 1 else self_ty
            if rhs is not None and r != rhs:
                continue
            for it in im["items"]:
                if it["name"] == method:
                    return im, it
        return None, None

    def orient(self, did, method, stack=()):
        """returns ('same'|'swapped', explanation) or raises ValueError(msg)"""
        if did in self.orient_memo:
            return self.orient_memo[did]
        if did in stack:
            raise ValueError("cyclic delegation")
        b = self.facts.by_did.get(did)
        if b is None:
            raise ValueError("no MIR body")
        e = return_expr(b, self.facts, inline=False)
        flips = 0
        self.asref_view = False
        negated = False
        if method == "ne":
            # a hand-written `ne`: the negation of a delegated `eq` (`!(a == b)`), or a delegated `ne` of the byte-slice impl over the same views
            while isinstance(e, tuple) and e and e[0] == "un" and e[1] == "Not":
                negated = not negated
                e = e[2]
        # result may pass through Ordering::reverse / Option::map(Ordering::reverse)
        while e[0] == "call" and e[1] in ("core::cmp::Ordering::reverse",):
            flips += 1
            e = e[2][0]
        # a private (non-trait) helper function whose result is itself a delegated comparison is transparent
        for _ in range(4):
            if e[0] == "call" and e[5].rpartition("::")[0] not in CMP_TRAITS:
                cands = self.facts.by_id.get(e[1], [])
                if len(cands) == 1 and cands[0].kind == "fn" and cands[0].did != did:
                    from .flow import subst_params
                    inner = return_expr(cands[0], self.facts, inline=False)
                    # a generic helper `fn h<T: AsRef<[u8]> + ?Sized>(lhs: &T, ..)`: `lhs.as_ref()` is a content-preserving view for
                    # the byte / string / handle types it is instantiated with here (their AsRef<[u8]> impls are std's views or the
                    # crate's own, checked as views)
                    inst = tuple(strip_refs(str(t)) for t in (e[4] if len(e) > 4 else ()))
                    if inst and all(t in BYTE_FAMILY or t in STR_FAMILY or t in self.handles for t in inst):
                        self.asref_view = True
                    e = subst_params(inner, e[2])
                    continue
            break
        while e[0] == "call" and e[1] in ("core::cmp::Ordering::reverse",):
            flips += 1
            e = e[2][0]
        # `Some(a.cmp(b))` is partial_cmp for every type whose PartialOrd agrees with its Ord: the byte/str slices, and the
        # crate's own types, whose Ord impl is analysed as the `cmp` instance of this rule
        if method == "partial_cmp" and e[0] == "agg" and isinstance(e[1], tuple) and e[1][1] == "core::option::Option::Some" and len(e[2]) == 1:
            e = e[2][0]
            method = "cmp"
            while e[0] == "call" and e[1] in ("core::cmp::Ordering::reverse",):
                flips += 1
                e = e[2][0]
        if e[0] not in ("call", "ucall"):
            raise ValueError("result is not a single delegated comparison: %s" % fmt_expr(e))
        orig = e[5] if e[0] == "call" else e[1]
        targs = e[4]
        args = e[2]
        tr, _, m = orig.rpartition("::")
        if method == "ne":
            if not (tr == "core::cmp::PartialEq" and ((m == "ne" and not negated) or (m == "eq" and negated))):
                raise ValueError("`ne` is not the negation of the delegated equality: %s%s" % ("!" if negated else "", orig))
            method = m
        elif tr not in CMP_TRAITS or m != method or m not in CMP_TRAITS[tr]:
            raise ValueError("delegates to %s, not to the %s method of a comparison trait" % (orig, method))
        if len(args) != 2:
            raise ValueError("unexpected arity")
        r0, r1 = self.root(args[0]), self.root(args[1])
        if {r0, r1} != {1, 2}:
            raise ValueError("operands are not views of (self, other): %s , %s" % (fmt_expr(args[0]), fmt_expr(args[1])))
        local = "same" if (r0, r1) == (1, 2) else "swapped"
        S = strip_refs(targs[0])
        R = strip_refs(targs[1]) if len(targs) > 1 else S
        how = None
        if (S in BYTE_FAMILY and R in BYTE_FAMILY) or (S in STR_FAMILY and R in STR_FAMILY):
            inner = "same"
            how = "terminal <%s as %s<%s>>" % (S, tr.rsplit("::", 1)[-1], R)
        else:
            im, it = self.find_impl_method(tr, S, R, "eq" if method == "ne" else method)
            if im is not None and it.get("did") is not None:
                inner, ihow = self.orient(it["did"], "eq" if method == "ne" else method, stack + (did,))
                how = "via <%s as %s<%s>> (%s)" % (S, tr.rsplit("::", 1)[-1], R, inner)
            elif S in self.handles and e[0] == "ucall":
                # generic Rhs: any instance resolves to an analysed impl of the same trait (induction)
                inner = "same"
                how = "generic <%s as %s<%s>> (by induction over analysed impls)" % (S, tr.rsplit("::", 1)[-1], R)
            else:
                raise ValueError("delegates to an impl that is neither the byte-slice impl nor an analysed one: <%s as %s<%s>>" % (S, tr, R))
        total = local if inner == "same" else ("swapped" if local == "same" else "same")
        if flips % 2:
            total = "swapped" if total == "same" else "same"
        res = (total, "%s operands, %s" % (local, how))
        self.orient_memo[did] = res
        return res


def run(facts):
    res = Result("D1", "every comparison/hash/borrow impl involving a handle type delegates to the byte-slice "
                       "impl over content-preserving views; ordering impls keep (self, other) order")
    d = D1(facts)
    n = 0
    for im in facts.impls:
        tr = im.get("trait")
        if tr not in CMP_TRAITS:
            continue
        tys = [im["self_ty"]] + list(im.get("trait_args", []))
        if not any(strip_refs(t) in d.handles for t in tys):
            continue
        loc = "%s:%s" % (im["span"]["file"], im["span"]["line"])
        label = "<%s as %s>" % (im["self_ty"], im["trait_ref"].split(" as ", 1)[-1].rstrip(">") if " as " in im["trait_ref"] else im["trait_ref"])
        label = "impl %s for %s" % (tr.rsplit("::", 1)[-1] + ("<%s>" % im["trait_args"][1] if len(im.get("trait_args", [])) > 1 else ""), im["self_ty"])
        names = [it["name"] for it in im["items"] if it["kind"].startswith("Fn")]
        allowed = CMP_TRAITS[tr]
        for nm in names:
            if nm == "ne" and tr == "core::cmp::PartialEq":
                it_ne = [it for it in im["items"] if it["name"] == "ne"][0]
                n += 1
                try:
                    o, how = d.orient(it_ne["did"], "ne")
                    res.ok("%s|ne" % label, loc, "ne is the negation of the delegated equality: %s" % how, nontrivial=True)
                except ValueError as ex:
                    res.bad("%s|ne" % label, loc, str(ex))
                continue
            if nm not in allowed:
                res.bad("%s|override:%s" % (label, nm), loc, "impl overrides `%s`, which this rule does not analyse (only %s may be hand-written)" % (nm, "/".join(allowed)))
        for it in im["items"]:
            if it["name"] not in allowed:
                continue
            n += 1
            m = it["name"]
            key = "%s|%s" % (label, m)
            try:
                if m in ("eq", "partial_cmp", "cmp"):
                    o, how = d.orient(it["did"], m)
                    if m in ORDERED and o != "same":
                        res.bad(key, loc, "ordering impl compares (other, self): result is reversed (%s)" % how, orientation=o)
                    else:
                        res.ok(key, loc, "%s; orientation=%s" % (how, o), nontrivial=("via" in how or "swapped" in how))
                elif m == "hash":
                    b = facts.by_did[it["did"]]
                    # body is `view(self).hash(state)`: find the single Hash::hash call
                    calls = [t for _, t in b.calls()]
                    hc = [t for t in calls if (t["func"].get("fn") or {}).get("path") == "core::hash::Hash::hash"]
                    if len(hc) != 1:
                        raise ValueError("expected exactly one Hash::hash call, found %d" % len(hc))
                    from .flow import ExprBuilder
                    eb = ExprBuilder(b, facts, inline=False)
                    bi = [i for i, t in b.calls() if t is hc[0]][0]
                    a0 = eb.operand(hc[0]["args"][0], (bi, len(b.blocks[bi]["stmts"])))
                    S = strip_refs(hc[0]["func"]["fn"]["args"][0])
                    if S not in BYTE_FAMILY:
                        raise ValueError("hashes a %s, not a byte slice" % S)
                    if d.root(a0) != 1:
                        raise ValueError("hashed value is not a view of self: %s" % fmt_expr(a0))
                    others = [t for t in calls if t is not hc[0] and d.root(eb.operand(t["args"][0], (0, 0))) is None
                              and (t["func"].get("fn") or {}).get("path", "").startswith("core::hash")]
                    if others:
                        raise ValueError("additional hasher writes")
                    # ... on every path: a return that by-passes the call (an "empty" fast path) feeds the hasher nothing, while the slice
                    # impl always writes the length prefix
                    from .flow import cfg_of
                    cfg_ = cfg_of(b)
                    rets = [i for i, blk in enumerate(b.blocks) if blk["term"]["k"] == "return" and not blk["cleanup"]]
                    if not all(cfg_.dominates(bi, r) for r in rets):
                        raise ValueError("a path returns without hashing: the result differs from <[u8] as Hash>::hash for the values that take it")
                    res.ok(key, loc, "<[u8] as Hash>::hash(view(self))")
                elif m == "borrow":
                    b = facts.by_did[it["did"]]
                    e = return_expr(b, facts, inline=False)
                    if d.root(e) != 1:
                        raise ValueError("borrow() does not return a view of self: %s" % fmt_expr(e))
                    res.ok(key, loc, "view(self)")
            except ValueError as ex:
                res.bad(key, loc, str(ex))
    res.floor("cmp_impls", n, 50)
    return res
