"""A6 GUARD-BEFORE-UNCHECKED (+ A7 RAW-SLICE-SHAPE, C3 raw-write bounds)

A6: every call from a safe fn to a crate `unsafe fn` that states a precondition (its own
    debug_assert!s) establishes that precondition in release code by a dominating guard over the
    same provenance trees, a trivially satisfying argument, or reserve()'s post-condition.
A7: every raw slice construction in a safe fn has one of the shapes (h.ptr, h.len) /
    (h.ptr + h.len, h.cap - h.len) / (v.ptr + v.len, v.capacity - v.len).
C3: every raw write (ptr::copy*, write_bytes, ptr.write) in a safe fn is bounded by the real length
    of its destination (and source) slice.
"""
from .base import Result, RuleError
from .facts import callee
from .flow import ExprBuilder, canon, fmt_expr, stated_preconditions, in_debug_region, walk, cfg_of
from .logic import Ctx, subst, uncast, is_call, const_of
from . import roles
from .inline import resolve_sites

INT_TYS = ("usize", "u8", "u16", "u32", "u64", "u128", "isize", "i8", "i16", "i32", "i64", "i128")


def strip_ptr(e):
    """strip pointer casts / NonNull wrappers"""
    while isinstance(e, tuple) and e and (e[0] in ("cast", "nn_as_ptr", "nn_new") or is_call(e, "cast") or is_call(e, "vptr")):
        if e[0] == "cast":
            e = e[2]
        elif e[0] in ("nn_as_ptr", "nn_new"):
            e = e[1]
        else:
            e = e[2][0]
    return e


COPY_FNS = set()


def discover_copy_fns(facts):
    """crate fns that return a bitwise copy of their receiver (`ptr::read(self)` on every path):
    BytesMut::shallow_clone. Their result has the fields of the source."""
    from .flow import return_expr
    COPY_FNS.clear()
    for b in facts.fn_bodies():
        if b.kind != "assoc_fn" or b.arg_count != 1:
            continue
        e = return_expr(b, facts, inline=False)
        alts = e[1] if (isinstance(e, tuple) and e[0] == "phi") else (e,)
        if alts and all(isinstance(a, tuple) and a[0] == "call" and a[1] == "core::ptr::read" and a[2] and canon(a[2][0]) in (("param", 1), ("cast", "PtrToPtr", ("param", 1), "")) or
                        (isinstance(a, tuple) and a[0] == "call" and a[1] == "core::ptr::read" and strip_ptr(a[2][0]) == ("param", 1)) for a in alts):
            COPY_FNS.add(b.id)


def handle_of(e, b, eb):
    """type name of the object an access path denotes, when it is a parameter (possibly behind references)"""
    while isinstance(e, tuple) and e and e[0] in ("deref", "ref"):
        e = e[1]
    if isinstance(e, tuple) and e and e[0] == "param":
        ty = b.locals[e[1]]["ty"]
        for pre in ("&mut ", "&", "*mut ", "*const "):
            while ty.startswith(pre):
                ty = ty[len(pre):]
        if ty.startswith("'") and " " in ty:
            ty = ty.split(" ", 1)[1]
            if ty.startswith("mut "):
                ty = ty[4:]
        return ty
    return None


def norm_handle(e):
    """fields of a cloned / ptr::read / shallow_clone'd handle are the fields of its source"""
    if not isinstance(e, tuple) or not e:
        return e
    if e[0] == "field" and isinstance(e[1], tuple) and e[1] and e[1][0] == "call" and len(e[1][2]) == 1 \
            and (e[1][1].endswith("::clone") or e[1][1] in COPY_FNS or e[1][1] == "core::ptr::read"):
        src = e[1][2][0]
        return ("field", ("deref", norm_handle(src)) if src[0] != "ref" else norm_handle(src[1]), e[2])
    return tuple(norm_handle(x) if isinstance(x, tuple) else x for x in e)


def reserve_postcondition(caller, bi, facts, eb):
    """facts `n <= cap - len` for every dominating call self.reserve(n) (BytesMut::reserve's documented
    post-condition, property C04). Returned as extra relations + a map n-expr -> True"""
    cfg = cfg_of(caller)
    extra = []
    for cbi, t in caller.calls():
        fn = callee(t)
        if fn is None:
            continue
        r = fn.get("res") or fn
        if r["path"] not in ("bytes_mut::BytesMut::reserve",):
            continue
        if not (cfg.dominates(cbi, bi) and cbi != bi):
            continue
        loc = (cbi, len(caller.blocks[cbi]["stmts"]))
        recv = eb.operand(t["args"][0], loc)
        n = eb.operand(t["args"][1], loc)
        base = recv if recv[0] != "ref" else recv[1]
        if base[0] != "deref":
            base = ("deref", base)
        cap = ("field", base, "cap")
        ln = ("field", base, "len")
        extra.append(("le", n, ("bin", "Sub", cap, ln)))
        extra.append(("le", n, ("call", "core::slice::<impl [T]>::len", (("call", "bytes_mut::BytesMut::spare_capacity_mut", (recv,)),))))
        # new_len = len + n  =>  new_len <= cap     (n = new_len - len)
        nn = uncast(n)
        if isinstance(nn, tuple) and nn[0] == "field" and isinstance(nn[1], tuple) and nn[1][0] == "variant" and is_call(nn[1][1], "checked_sub"):
            a = nn[1][1][2]
            if canon(a[1]) == canon(ln):
                extra.append(("le", a[0], cap))
        if isinstance(nn, tuple) and nn[0] == "bin" and nn[1] == "Sub" and canon(nn[3]) == canon(ln):
            extra.append(("le", nn[2], cap))
    return extra


def vec_reserve_postcondition(caller, bi, facts, eb, v_):
    """`len(v) + k <= capacity(v)` for a call `v.reserve(k)` / `reserve_exact(k)` that dominates block bi, when no block on a way from the
    call to bi hands `v` to anything as `&mut` (push, set_len, another reserve, a loop body that appends: the fact is about the Vec as it
    was when reserve returned)"""
    cfg = cfg_of(caller)
    want = canon(v_)
    while isinstance(want, tuple) and want and want[0] in ("ref", "deref"):
        want = want[1]

    def same(e):
        e = canon(e)
        while isinstance(e, tuple) and e and e[0] in ("ref", "deref"):
            e = e[1]
        return e == want
    out = []
    touching = []
    for cbi, t in caller.calls():
        if caller.blocks[cbi]["cleanup"]:
            continue
        loc = (cbi, len(caller.blocks[cbi]["stmts"]))
        if (callee(t) or {}).get("name") in ("as_mut_ptr", "as_ptr", "len", "capacity", "as_mut_slice", "as_slice", "spare_capacity_mut", "deref_mut", "deref", "is_empty"):
            continue            # looks at the Vec, changes neither its length nor its buffer
        for a in t["args"]:
            if a["k"] in ("copy", "move") and not a["pl"]["p"] and caller.locals[a["pl"]["l"]]["ty"].startswith("&mut") and same(eb.operand(a, loc)):
                touching.append(cbi)
    for cbi, t in caller.calls():
        fn = callee(t)
        if fn is None or caller.blocks[cbi]["cleanup"]:
            continue
        r = fn.get("res") or fn
        if not ("alloc::vec::Vec" in r.get("path", "") and fn["name"] in ("reserve", "reserve_exact")) or len(t["args"]) != 2:
            continue
        if not (cfg.dominates(cbi, bi) and cbi != bi):
            continue
        loc = (cbi, len(caller.blocks[cbi]["stmts"]))
        if not same(eb.operand(t["args"][0], loc)):
            continue
        # nothing touches v between the reserve and the write
        def reaches_avoiding(a, b_, avoid):
            seen, st = set(), [a]
            while st:
                x = st.pop()
                for y in cfg.succ[x]:
                    if y == avoid:
                        continue
                    if y == b_:
                        return True
                    if y not in seen:
                        seen.add(y)
                        st.append(y)
            return False
        # (a way from the toucher back to the write that passes the reserve again re-establishes the fact)
        if any(w not in (cbi, bi) and cfg.reaches(cbi, w) and reaches_avoiding(w, bi, cbi) for w in touching):
            continue
        k = eb.operand(t["args"][1], loc)
        ln = ("call", "len", (slice_id(norm_len(v_)),))
        out.append(("le", ("bin", "Add", ln, k), ("call", "alloc::vec::Vec::<T, A>::capacity", (v_,))))
        out.append(("le", ("bin", "Add", ("call", "alloc::vec::Vec::<T, A>::len", (v_,)), k), ("call", "alloc::vec::Vec::<T, A>::capacity", (v_,))))
    return out


def run(facts):
    res = Result("A6", "safe callers establish the stated preconditions of crate unsafe helpers in release code; raw slices have an "
                       "approved shape; raw writes are bounded by the real length of their destination/source")
    discover_copy_fns(facts)
    res.notes.append("bitwise-copy fns (result has the fields of the receiver): %s" % sorted(COPY_FNS))
    helpers = {}
    for b in facts.fn_bodies():
        if b.kind in ("fn", "assoc_fn") and b.safety == "unsafe":
            p = stated_preconditions(b, facts)
            if p:
                helpers[b.did] = (b, p)
    if len(helpers) < 4:
        raise RuleError("fewer than 4 unsafe helpers with stated preconditions found (%d)" % len(helpers))
    # derived preconditions: a non-public `unsafe fn` that hands one of its own parameters to a helper without establishing the
    # helper's precondition inherits it (`unsafe fn bump(&mut self, n) { self.advance_unchecked(n) }`), so that the obligation
    # reaches the first safe caller instead of disappearing in the wrapper
    n_stated = len(helpers)
    for _round in range(3):
        added = False
        for b in facts.fn_bodies():
            if b.kind not in ("fn", "assoc_fn") or b.safety != "unsafe" or str(b.vis).startswith("Public") or is_slot_or_public_entry(facts, b):
                continue
            eb = ExprBuilder(b, facts, inline=True)
            own = list(helpers[b.did][1]) if b.did in helpers else []
            for bi, t in b.calls():
                if b.blocks[bi]["cleanup"] or in_debug_region(b, bi):
                    continue
                fn = callee(t)
                r = (fn or {}).get("res") or {}
                if not (r.get("local") and r.get("did") in helpers) or r.get("did") == b.did:
                    continue
                loc = (bi, len(b.blocks[bi]["stmts"]))
                args = {i + 1: eb.operand(a, loc) for i, a in enumerate(t["args"])}
                ctx = Ctx(b, bi, facts, extra=own)
                for rel in helpers[r["did"]][1]:
                    want = tuple(norm_handle(canon(subst(x, args))) if isinstance(x, tuple) else x for x in rel)
                    if ctx.holds(want):
                        continue
                    # expressible in the wrapper's own parameters only (no calls, no loop variables)?
                    if all(y[0] in ("param", "field", "deref", "ref", "const", "bin", "cast") for z in want[1:] if isinstance(z, tuple) for y in walk(z)) \
                            and any(y[0] == "param" for z in want[1:] if isinstance(z, tuple) for y in walk(z)) and want not in own:
                        own.append(want)
                        added = True
            if own and (b.did not in helpers or len(own) > len(helpers[b.did][1])):
                helpers[b.did] = (b, own)
        if not added:
            break
    if len(helpers) > n_stated:
        res.notes.append("unsafe wrappers with derived preconditions: %s" % sorted(b.id for (b, p) in list(helpers.values())[n_stated:]))
    res.notes.append("unsafe helpers with stated preconditions: " + "; ".join(
        "%s: %s" % (b.id, ", ".join("%s(%s,%s)" % (r[0], fmt_expr(r[1]), fmt_expr(r[2]) if r[0] != "truth" else r[2]) for r in p))
        for (b, p) in helpers.values()))
    n_calls = 0
    n_raw = 0
    # helpers the rule anchors on stay calls: the unsafe helpers themselves and the handle-copying functions norm_handle models
    keep_names = ("clone",) + tuple(sorted(x.rsplit("::", 1)[-1] for x in COPY_FNS))
    for caller in facts.fn_bodies():
        sites = resolve_sites(facts, caller, lambda view, only: judge_sites(facts, helpers, view, only), keep_names=keep_names,
                              keep_dids=set(helpers), is_entry=lambda fb: is_slot_or_public_entry(facts, fb))
        if not sites:
            continue
        cnt = {}
        for x in sites:
            if x["kind"] == "pre":
                n_calls += 1
            else:
                n_raw += 1
            k = "%s%s" % (caller.id, x["keytail"])
            c = cnt.get(k, 0)
            cnt[k] = c + 1
            key = k + ("#%d" % c if c else "")
            if x["ok"]:
                res.ok(key, caller.loc(x["bi"]), x["text"], nontrivial=x["nontrivial"])
            else:
                res.bad(key, caller.loc(x["bi"]), x["text"])
    res.floor("helper_precondition_obligations", n_calls, 20)
    res.floor("raw_sites_in_safe_fns", n_raw, 15)
    # the byte-read scan finds nothing on a tree that reads bytes through slices only; that it is not blind shows in the raw-pointer
    # dereferences of the other pointee types it walks over with the same code (`(*shared).ref_cnt`, ..)
    n_deref = 0
    for caller in facts.fn_bodies():
        if facts.is_test(caller):
            continue
        for blk in caller.blocks:
            if blk["cleanup"]:
                continue
            for s_ in blk["stmts"]:
                if s_["k"] == "assign":
                    n_deref += sum(1 for pl in places_read(s_["rv"]) if pl["p"] and pl["p"][0] == "*" and caller.locals[pl["l"]]["ty"].startswith(("*const", "*mut")))
    # (how many there are is a matter of style - `(*shared).ref_cnt` vs `let s = &*shared; s.ref_cnt` - so the floor only asks for one; the
    # end-to-end positive examples are the controls a6-get-u8-raw-read-*, run by the thorough tier's self-test)
    res.floor("raw-pointer dereferences walked by the byte-read scan (positive example)", n_deref, 1)
    return res


def is_slot_or_public_entry(facts, b):
    """functions reachable from outside without a crate caller: vtable slot functions (their address is stored)"""
    for name, slots in roles.vtables(facts).items():
        for s_ in slots.values():
            if s_ and (s_.get("did") == b.did or (s_.get("res") or {}).get("did") == b.did):
                return True
    return False


def judge_sites(facts, helpers, caller, only_blocks=None):
    """verdicts for every A6/A7/C3 site in `caller` (an original body or an inlined view): dicts with bi, j (index of the
    obligation within the site), kind, keytail, ok, text, nontrivial"""
    out = []
    eb = ExprBuilder(caller, facts, inline=True)
    own_pre = stated_preconditions(caller, facts) if caller.safety == "unsafe" else []
    for bi, t in caller.calls():
        if only_blocks is not None and bi not in only_blocks:
            continue
        if caller.blocks[bi]["cleanup"] or in_debug_region(caller, bi):
            continue
        fn = callee(t)
        if fn is None:
            continue
        r = fn.get("res") or fn
        loc = (bi, len(caller.blocks[bi]["stmts"]))

        def emit(j, kind, keytail, ok, text, nontrivial=False):
            out.append({"bi": bi, "j": j, "kind": kind, "keytail": keytail, "ok": ok, "text": text, "nontrivial": nontrivial})
        # ---- A6: helper preconditions -------------------------------------------------
        if r.get("local") and r.get("did") in helpers:
            hb, pre = helpers[r["did"]]
            args = {i + 1: eb.operand(a, loc) for i, a in enumerate(t["args"])}
            extra = list(own_pre) + reserve_postcondition(caller, bi, facts, eb)
            ctx = Ctx(caller, bi, facts, extra=extra)
            for j, rel in enumerate(pre):
                want = tuple(norm_handle(subst(x, args)) if isinstance(x, tuple) else x for x in rel)
                desc = "%s(%s, %s)" % (want[0], fmt_expr(want[1]), fmt_expr(want[2]) if want[0] != "truth" else want[2])
                kt = " -> %s|%s" % (hb.id.rsplit("::", 1)[-1], "%s(%s,%s)" % (rel[0], fmt_expr(rel[1]), fmt_expr(rel[2]) if rel[0] != "truth" else rel[2]))
                if ctx.holds(want):
                    emit(j, "pre", kt, True, "established at the call: %s" % desc, True)
                elif caller.safety == "unsafe" and caller.blocks[bi].get("origin", caller.did) == caller.did:
                    emit(j, "pre", kt, True, "caller is itself unsafe: obligation %s is part of its own contract" % desc)
                else:
                    emit(j, "pre", kt, False, "safe caller does not establish the helper's precondition in release code: need %s "
                                              "(the helper only checks it under debug_assert!)" % desc)
            continue
        path = r["path"]
        name = fn["name"]
        # ---- A7: raw slice shapes (safe fns) ------------------------------------------
        if name in ("from_raw_parts", "from_raw_parts_mut") and ("core::slice" in path or "UninitSlice" in path) and caller.safety == "safe":
            p_, l_ = [canon(eb.operand(a, loc)) for a in t["args"][:2]]
            ok, how = raw_slice_shape(p_, l_)
            emit(0, "raw", "|%s" % name, ok, how if ok else "raw slice (%s, %s) is not (h.ptr, h.len) / (h.ptr+h.len, h.cap-h.len) / (v.ptr+v.len, v.capacity-v.len)" % (fmt_expr(p_), fmt_expr(l_)))
            continue
        # ---- C3: raw writes in safe fns -----------------------------------------------
        is_write = (path in ("core::ptr::write_bytes", "core::ptr::copy_nonoverlapping", "core::ptr::copy",
                             "core::intrinsics::write_bytes", "core::intrinsics::copy_nonoverlapping", "core::intrinsics::copy")
                    or (name == "write" and "ptr::mut_ptr" in path))
        if is_write and caller.safety == "safe":
            args = [eb.operand(a, loc) for a in t["args"]]
            extra = reserve_postcondition(caller, bi, facts, eb)
            ctx = Ctx(caller, bi, facts, extra=extra, norm=norm_len)
            if name == "write_bytes":
                dst, n, src = args[0], args[2], None
            elif name in ("copy_nonoverlapping", "copy"):
                src, dst, n = args[0], args[1], args[2]
            else:
                dst, n, src = args[0], ("const", 1), None
            probs = []
            hows = []
            for (what, ptr) in (("destination", dst), ("source", src)):
                if ptr is None:
                    continue
                base = strip_ptr(ptr)
                if is_call(base, "as_mut_ptr") or is_call(base, "as_ptr"):
                    s_ = base[2][0]
                    is_vec = "alloc::vec::Vec" in base[1]
                    ln = ("call", "len", (s_,))
                    ok = ctx.le(n, ln) or len_matches(n, s_, ctx)
                    if name == "write" and not ok:
                        ok = ctx.lt(("const", 0), ln) or nonempty_index(s_, ctx)
                    if is_vec and what == "destination":
                        # a Vec's buffer is writable up to its capacity
                        ok = ctx.le(n, ("call", "alloc::vec::Vec::<T, A>::capacity", (s_,)))
                        if not ok and not (tainted_by_int_param(n, caller) or tainted_by_int_param(ptr, caller)):
                            hows.append("%s: Vec buffer, count is handle state (justified by A8/A9)" % what)
                            continue
                    if ok:
                        hows.append("%s: count <= %s(%s)" % (what, "capacity" if (is_vec and what == "destination") else "len", fmt_expr(s_)[:60]))
                    else:
                        probs.append("%s count %s is not bounded by the length of %s" % (what, fmt_expr(n), fmt_expr(s_)))
                else:
                    # `s.as_mut_ptr().add(i)` with a dominating `i + count <= s.len()` (for one element: `i < s.len()`)
                    inner = canon(base)
                    if is_call(inner, "add") and len(inner[2]) == 2:
                        b0 = strip_ptr(inner[2][0])
                        if (is_call(b0, "as_mut_ptr") or is_call(b0, "as_ptr")) and "alloc::vec::Vec" not in b0[1]:
                            ln = ("call", "len", (slice_id(norm_len(b0[2][0])),))
                            off = inner[2][1]
                            if (const_of(n) == 1 and ctx.lt(off, ln)) or ctx.le(("bin", "Add", off, n), ln):
                                hows.append("%s: offset + count <= len(%s)" % (what, fmt_expr(b0[2][0])[:60]))
                                continue
                    # a write at `v.as_mut_ptr().add(off)` into a Vec needs off + count <= v.capacity(): from a guard, or from a `v.reserve(k)`
                    # that dominates the write with nothing touching v in between (then len(v) + k <= capacity(v))
                    if what == "destination" and is_call(inner, "add") and len(inner[2]) == 2:
                        b0v = strip_ptr(inner[2][0])
                        if (is_call(b0v, "as_mut_ptr") or is_call(b0v, "as_ptr")) and "alloc::vec::Vec" in b0v[1]:
                            v_ = b0v[2][0]
                            capv = ("call", "alloc::vec::Vec::<T, A>::capacity", (v_,))
                            off = inner[2][1]
                            ctxv = Ctx(caller, bi, facts, extra=extra + vec_reserve_postcondition(caller, bi, facts, eb, v_), norm=norm_len)
                            tot = ("bin", "Add", off, n)
                            if ctxv.le(tot, capv) or ctxv.le(("bin", "Add", norm_len(off), n), capv):
                                hows.append("%s: offset + count <= capacity of the Vec" % what)
                            else:
                                probs.append("%s: %s byte(s) are written at the Vec's buffer + %s and nothing that holds there says %s + %s <= capacity" % (
                                    what, fmt_expr(n)[:40], fmt_expr(off)[:40], fmt_expr(off)[:40], fmt_expr(n)[:40]))
                            continue
                    # a write at `h.ptr + off` (h a BytesMut: fields ptr / len / cap) needs room: off + count <= h.cap must follow from the
                    # conditions that hold at the write (A8 keeps len <= cap, which leaves no room for even one byte at ptr + len)
                    if what == "destination" and is_call(inner, "add") and len(inner[2]) == 2:
                        hp = strip_ptr(inner[2][0])
                        while isinstance(hp, tuple) and hp and (is_call(hp, "as_ptr") or is_call(hp, "as_mut_ptr")) and len(hp[2]) == 1:
                            hp = strip_ptr(hp[2][0])
                        if isinstance(hp, tuple) and hp and hp[0] == "field" and hp[2] == "ptr" and handle_of(hp[1], caller, eb) == "bytes_mut::BytesMut":
                            cap = ("field", hp[1], "cap")
                            off = inner[2][1]
                            if (const_of(n) == 1 and ctx.lt(off, cap)) or ctx.le(("bin", "Add", off, n), cap):
                                hows.append("%s: offset + count <= cap of the handle" % what)
                            else:
                                probs.append("%s: %s byte(s) are written at ptr + %s and nothing that holds there says %s + %s <= cap" % (
                                    what, fmt_expr(n)[:30], fmt_expr(off)[:40], fmt_expr(off)[:40], fmt_expr(n)[:30]))
                            continue
                    # raw pointer arithmetic on handle fields: representation-invariant site (rule A8)
                    if tainted_by_int_param(n, caller) or tainted_by_int_param(ptr, caller):
                        probs.append("%s is raw pointer arithmetic with a caller-controlled operand: %s" % (what, fmt_expr(ptr)))
                    else:
                        hows.append("%s: internal pointer, operands are handle state (justified by A8)" % what)
            emit(0, "raw", "|%s" % name, not probs, "; ".join(probs) if probs else "; ".join(hows), not probs)
            continue
        # ---- unchecked pointer moves in safe fns --------------------------------------
        if name in ("add", "sub", "offset") and ("ptr::mut_ptr" in path or "ptr::const_ptr" in path or "NonNull" in path) and caller.safety == "safe":
            args = [eb.operand(a, loc) for a in t["args"]]
            x = args[1]
            if not tainted_by_int_param(x, caller):
                emit(0, "raw", "|ptr.%s" % name, True, "offset %s is handle state, not a caller-controlled integer (justified by A8)" % fmt_expr(x)[:80])
                continue
            ctx = Ctx(caller, bi, facts)
            base = norm_handle(canon(strip_ptr(args[0])))
            ok = False
            how = ""
            if (is_call(base, "as_mut_ptr") or is_call(base, "as_ptr")) and "alloc::vec::Vec" not in base[1] and name == "add":
                ctx2 = Ctx(caller, bi, facts, norm=norm_len)
                if ctx2.le(x, ("call", "len", (slice_id(norm_len(base[2][0])),))):
                    ok = True
                    how = "guard offset <= len(%s)" % fmt_expr(base[2][0])[:60]
            if isinstance(base, tuple) and base[0] == "field" and base[2] == "ptr":
                for f in ("len", "cap"):
                    if not ok and ctx.le(x, ("field", base[1], f)):
                        ok = True
                        how = "guard offset <= handle.%s" % f
            emit(0, "raw", "|ptr.%s" % name, ok, how if ok else "unchecked pointer move by a caller-controlled amount %s without a dominating bound check" % fmt_expr(x), ok)
            continue
        # ---- raw byte reads in safe fns: `p.read()` -------------------------------------
        if name in ("read", "read_unaligned", "read_volatile") and ("ptr::const_ptr" in path or "ptr::mut_ptr" in path or path.startswith("core::ptr::read")) \
                and caller.safety == "safe" and t["args"] and t["args"][0]["k"] in ("copy", "move") and not t["args"][0]["pl"]["p"] \
                and caller.locals[t["args"][0]["pl"]["l"]]["ty"] in BYTE_PTRS:
            ok, how = byte_read_bounded(caller, bi, facts, eb.operand(t["args"][0], loc))
            emit(0, "raw", "|byte read", ok, how, ok)
    # ---- raw byte reads in safe fns: `*p` with p a raw byte pointer -------------------------
    if caller.safety == "safe":
        for bi, blk in enumerate(caller.blocks):
            if blk["cleanup"] or (only_blocks is not None and bi not in only_blocks) or in_debug_region(caller, bi):
                continue
            for si, s_ in enumerate(blk["stmts"]):
                if s_["k"] != "assign":
                    continue
                for pl in places_read(s_["rv"]):
                    if pl["p"] and pl["p"][0] == "*" and caller.locals[pl["l"]]["ty"] in BYTE_PTRS:
                        ok, how = byte_read_bounded(caller, bi, facts, eb.local(pl["l"], (bi, si)))
                        out.append({"bi": bi, "j": 0, "kind": "raw", "keytail": "|byte read", "ok": ok, "text": how, "nontrivial": ok})
    return out


BYTE_PTRS = ("*const u8", "*mut u8", "*const core::mem::MaybeUninit<u8>", "*mut core::mem::MaybeUninit<u8>", "*const i8", "*mut i8")


def places_read(rv):
    """places an rvalue reads"""
    out = []

    def go(x):
        if isinstance(x, dict):
            if "l" in x and isinstance(x.get("p"), list):
                out.append(x)
                return
            for k, v in x.items():
                if k != "span":
                    go(v)
        elif isinstance(x, list):
            for v in x:
                go(v)
    if rv.get("k") in ("ref", "rawptr"):
        return out        # taking an address reads nothing
    go(rv)
    return out


def byte_read_bounded(caller, bi, facts, ptr):
    """one byte is read through `ptr`: it must be `s.as_ptr()` / `s.as_ptr().add(k)` of a slice s with `k < s.len()` known at the read from
    the slice itself (what a user's `remaining()` said about the cursor does not bound the slice `chunk()` returned, C17)"""
    ctx = Ctx(caller, bi, facts, norm=norm_len)
    base = canon(strip_ptr(ptr))
    off = ("const", 0)
    if is_call(base, "add") and len(base[2]) == 2:
        off = base[2][1]
        base = canon(strip_ptr(base[2][0]))
    if (is_call(base, "as_ptr") or is_call(base, "as_mut_ptr")) and len(base[2]) == 1:
        s_ = base[2][0]
        ln = ("call", "len", (slice_id(norm_len(s_)),))
        if ctx.lt(off, ln) or (off == ("const", 0) and nonempty_index(s_, ctx)):
            return True, "read at %s + %s under the guard %s < len" % (fmt_expr(base)[:50], fmt_expr(off)[:30], fmt_expr(off)[:30])
        return False, "a byte is read at %s + %s and nothing that holds there says %s < %s: an empty / shorter slice makes this a read out of bounds" % (
            fmt_expr(base)[:60], fmt_expr(off)[:30], fmt_expr(off)[:30], fmt_expr(ln)[:60])
    return False, "a byte is read through the raw pointer %s, which is not the start of a slice whose length bounds the read" % fmt_expr(base)[:80]


def slice_id(e):
    """identity of a slice through reborrows and the UninitSlice(.0) newtype"""
    while isinstance(e, tuple) and e and (e[0] in ("ref", "deref") or (e[0] == "field" and e[2] in (0, "0"))
                                          or (e[0] == "cast" and "Unsize" in str(e[1]))):
        e = e[2] if e[0] == "cast" else e[1]
    return e


def norm_len(e):
    if not isinstance(e, tuple) or not e:
        return e
    if e[0] == "call" and e[1].rsplit("::", 1)[-1] == "len" and len(e[2]) == 1:
        return ("call", "len", (slice_id(norm_len(e[2][0])),))
    return tuple(norm_len(x) if isinstance(x, tuple) else x for x in e)


def raw_slice_shape(p, l):
    p0 = norm_handle(strip_ptr(p))
    l = norm_handle(uncast(l))
    # (h.ptr, h.len)
    if isinstance(p0, tuple) and p0[0] == "field" and p0[2] == "ptr" and l == ("field", p0[1], "len"):
        return True, "(h.ptr, h.len)"
    # (add(h.ptr, h.len), h.cap - h.len)
    if is_call(p0, "add") and len(p0[2]) == 2:
        b0 = strip_ptr(p0[2][0])
        off = p0[2][1]
        if isinstance(b0, tuple) and b0[0] == "field" and b0[2] == "ptr":
            h = b0[1]
            if off == ("field", h, "len") and l == ("bin", "Sub", ("field", h, "cap"), ("field", h, "len")):
                return True, "(h.ptr + h.len, h.cap - h.len)"
        if is_call(b0, "as_mut_ptr") and is_call(off, "len") and off[2] == b0[2]:
            v = b0[2][0]
            if isinstance(l, tuple) and l[0] == "bin" and l[1] == "Sub" and is_call(l[2], "capacity") and l[2][2] == (v,) and is_call(l[3], "len") and l[3][2] == (v,):
                return True, "(v.ptr + v.len, v.capacity - v.len)"
    return False, ""


def len_matches(n, s_, ctx):
    """count is literally len(s) of the same slice (through reborrows)"""
    n = canon(uncast(n))
    if is_call(n, "len"):
        a = n[2][0]
        while isinstance(a, tuple) and a[0] in ("ref", "deref"):
            a = a[1]
        b = canon(s_)
        while isinstance(b, tuple) and b[0] in ("ref", "deref"):
            b = b[1]
        # UninitSlice(.0) newtype field
        if isinstance(a, tuple) and a[0] == "field" and a[2] in (0, "0"):
            a = a[1]
            while isinstance(a, tuple) and a[0] in ("ref", "deref"):
                a = a[1]
        return a == b
    return False


def nonempty_index(s_, ctx):
    """s = base[index..] with a dominating guard index < len(base)"""
    s_ = canon(s_)
    while isinstance(s_, tuple) and s_[0] in ("ref", "deref"):
        s_ = s_[1]
    if is_call(s_, "index_mut") or is_call(s_, "index"):
        base, rng = s_[2]
        if isinstance(rng, tuple) and rng[0] == "agg" and "RangeFrom" in str(rng[1]):
            idx = rng[2][0]
            for r in ctx.rels:
                if r[0] == "lt" and r[1] == canon(idx) and is_call(r[2], "len"):
                    return True
    return False


def tainted_by_int_param(e, b):
    """expression depends on an integer parameter of this (safe) function"""
    for x in walk(e):
        if x[0] == "param" and 1 <= x[1] <= b.arg_count and b.locals[x[1]]["ty"] in INT_TYS:
            return True
        if x[0] == "ucall" and "RangeBounds" in x[1]:
            return True
    return False
