"""A22 GROW-VIA-RESERVE: a `BytesMut` gets a new byte buffer only inside the reservation helper.

Who-may-allocate rule over the crate's resolved call graph.  Every function that receives `&mut BytesMut` (inherent methods, the
`BufMut` / `Extend` / `fmt::Write` impls, private helpers) is a root; the reservation helper (`reserve_inner`, found by its shape in
A8) is the only sink.  From each root, with the graph cut at the sink, no byte-buffer allocation may be reachable:

    Vec::with_capacity / reserve / reserve_exact / try_reserve / push / extend_from_slice / resize / from_iter / from_elem,
    <[T]>::to_vec / to_owned, alloc::alloc::{alloc, realloc}             (directly or through crate constructors such as
    BytesMut::with_capacity, BytesMut::from(&[u8]), Bytes::copy_from_slice)

What the reservation helper does with the buffer it already has is decided by A15 (an empty or recycling sole owner never
allocates; a sole owner grows amortised) and A8 (reserve's promise).  Those verdicts speak for `reserve`, `put_*`,
`extend_from_slice`, `resize`, `unsplit`, ... only as long as these get their room *through* the helper: an append path that
builds a fresh buffer on its own (`*self = BytesMut::from(extend)`) forgets the buffer and the remembered original capacity the
handle owns, and a recycling loop allocates on every round (C18) - with nothing wrong inside the helper.

Positive example kept on every run: `Clone for BytesMut` (takes `&self`, so it is not a root) must reach an allocation through the
same traversal - the floor fails if the traversal goes blind.
"""
from .base import Result, RuleError
from .facts import callee
from .r_a8 import reserve_helper, HANDLE

VEC_ALLOC = ("with_capacity", "reserve", "reserve_exact", "try_reserve", "try_reserve_exact", "push", "extend_from_slice", "resize", "resize_with", "from_iter",
             "from_elem", "extend", "insert", "append", "extend_from_within", "with_capacity_in")
SLICE_ALLOC = ("to_vec", "to_owned", "into_vec", "concat", "repeat")
RAW_ALLOC = ("alloc", "realloc", "alloc_zeroed")


def alloc_label(fn):
    res = fn.get("res") or fn
    p = res.get("path", "")
    nm = fn["name"]
    if ("alloc::vec::Vec" in p or p.startswith("alloc::vec::")) and nm in VEC_ALLOC:
        return "Vec::%s" % nm
    if "alloc::vec::Vec" in p and ((nm == "from" and "From<&" in p) or (nm == "clone" and "Clone" in p)):
        return "Vec::%s (copies into a new buffer)" % nm
    if ("slice" in p or "alloc::borrow" in p) and nm in SLICE_ALLOC and "into_vec" != nm:
        return nm
    if p.startswith("alloc::alloc::") and nm in RAW_ALLOC:
        return "alloc::%s" % nm
    if "alloc::string::String" in p and nm in ("with_capacity", "reserve", "push_str", "push"):
        return "String::%s" % nm
    return None


class Graph:
    def __init__(self, facts):
        self.facts = facts
        self.memo = {}

    def direct(self, b):
        """(alloc sites, callee bodies) of one body, closures included"""
        k = b.did
        if k in self.memo:
            return self.memo[k]
        sites, outs = [], []
        for bi, t in b.calls():
            if b.blocks[bi]["cleanup"]:
                continue
            fn = callee(t)
            if fn is None:
                continue
            lab = alloc_label(fn)
            if lab:
                sites.append((b, bi, lab))
            r = fn.get("res") or {}
            if r.get("local") and r.get("did") is not None:
                cb = self.facts.by_did.get(r["did"])
                if cb is not None:
                    outs.append(cb)
            # a function item handed over as a value may be called
            for a in t["args"]:
                if a["k"] == "const" and a.get("fn"):
                    rr = a["fn"].get("res") or {}
                    if rr.get("local") and rr.get("did") is not None and self.facts.by_did.get(rr["did"]) is not None:
                        outs.append(self.facts.by_did[rr["did"]])
        for c in self.facts.children.get(b.did, []):
            if c.kind == "closure":
                outs.append(c)
        self.memo[k] = (sites, outs)
        return self.memo[k]

    def reach(self, root, cut):
        """allocation sites reachable from root without entering a function of `cut`; -> [(site, call chain)]"""
        found = []
        seen = {root.did}
        st = [(root, (root.id,))]
        while st:
            b, chain = st.pop()
            sites, outs = self.direct(b)
            for s in sites:
                found.append((s, chain))
            for cb in outs:
                if cb.did in seen or cb.did in cut:
                    continue
                seen.add(cb.did)
                st.append((cb, chain + (cb.id,)))
        return found


def run(facts):
    res = Result("A22", "no function that receives `&mut BytesMut` reaches a byte-buffer allocation except through the reservation helper (resolved call graph, "
                        "cut at the helper): appends, resizes and merges get their room from `reserve`, whose behaviour A15 / A8 decide")
    from .inline import callers_of
    want = "&mut " + HANDLE

    def takes_handle(b):
        return b.arg_count >= 1 and (b.locals[1]["ty"].replace("'_ ", "").replace("&'a mut", "&mut") == want or
                                     (b.locals[1]["ty"].startswith("&") and b.locals[1]["ty"].endswith("mut " + HANDLE)))
    entries = []
    for name in ("reserve", "try_reclaim"):
        l = facts.by_id.get("bytes_mut::BytesMut::" + name, [])
        if len(l) != 1:
            raise RuleError("BytesMut::%s not found" % name)
        entries.append(l[0])
    # the reservation machinery: the helper recognised by its shape (A8), and every private function on a handle that is only ever
    # called from the machinery or from its two public entry points (`reserve_inner_vec`, `grow_unshared_vec`, ..)
    b0 = reserve_helper(facts)
    cut = {b0.did} if b0 is not None else set()
    allowed = {e.did for e in entries}
    changed = True
    while changed:
        changed = False
        for b in facts.fn_bodies():
            if b.did in cut or b.did in allowed or b.kind not in ("fn", "assoc_fn") or not takes_handle(b) or str(b.vis) == "Public" or facts.is_test(b):
                continue
            cs = [c for c in callers_of(facts, b.did) if not facts.is_test(c)]
            if cs and all(c.did in cut or c.did in allowed or (c.parent_did in cut) for c in cs):
                cut.add(b.did)
                changed = True
    if not cut:
        raise RuleError("no reservation helper found behind BytesMut::reserve / try_reclaim")
    if b0 is None:
        b0 = max((facts.by_did[d] for d in cut), key=lambda x: len(x.blocks))
    g = Graph(facts)
    n_roots = 0
    for b in facts.fn_bodies():
        if facts.is_test(b) or b.kind not in ("fn", "assoc_fn") or b.did in cut or b.arg_count < 1:
            continue
        if not takes_handle(b):
            continue
        im_ = facts.impl_of(b)
        if im_ and (im_.get("trait") or "") == "core::clone::Clone":
            continue        # `clone_from(&mut self, src)` is `*self = src.clone()`: a new value by definition (the copy itself is the positive example below)
        n_roots += 1
        found = g.reach(b, cut)
        key = "%s|grows only through the reservation helper" % b.id
        if found:
            (sb, bi, lab), chain = found[0]
            res.bad(key, sb.loc(bi), "reaches %s without going through %s (%s): a buffer obtained outside the reservation helper bypasses the reclaim / amortised-growth "
                                     "decisions made there (%d such site(s))" % (lab, b0.id.rsplit("::", 1)[-1], " -> ".join(x.rsplit("::", 1)[-1] for x in chain), len(found)),
                    chain=list(chain))
        else:
            res.ok(key, b.loc(), "no allocation reachable outside the helper", nontrivial=True)
    res.floor("functions receiving &mut BytesMut", n_roots, 30)
    # positive example: the traversal must see the allocation in Clone for BytesMut
    pos = 0
    for im in facts.impls:
        if (im.get("trait") or "") == "core::clone::Clone" and im["self_ty"] == HANDLE:
            for it in im["items"]:
                if it["name"] == "clone" and it.get("did") in facts.by_did:
                    pos = len(g.reach(facts.by_did[it["did"]], cut))
    res.floor("allocation sites seen from <BytesMut as Clone>::clone (positive example)", pos, 1)
    # and the helper itself must contain the allocations that A15 judges
    res.floor("allocation sites inside the reservation machinery", sum(len(g.direct(facts.by_did[d])[0]) for d in cut), 2)
    res.notes.append("reservation machinery: %s" % sorted(facts.by_did[d].id.rsplit("::", 1)[-1] for d in cut))
    return res
