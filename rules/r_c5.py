"""C5 LOOP-COPY-BOUND — the chunk-wise copy loops (default put / put_slice / put_bytes /
try_copy_to_slice and the specialised put of Vec<u8> / BytesMut) move min(len of both *real* slices)
bytes per iteration (or exactly the slice handed to a safe extend_from_slice), index both sides with
that same count, and advance both cursors by that same count."""
from .base import Result, RuleError
from .facts import callee
from .flow import ExprBuilder, canon, walk, fmt_expr
from .logic import is_call

TARGETS = [
    ("buf::buf_impl::Buf::try_copy_to_slice", "both"),
    ("buf::buf_mut::BufMut::put", "both"),
    ("buf::buf_mut::BufMut::put_slice", "both"),
    ("buf::buf_mut::BufMut::put_bytes", "fill"),
    ("<bytes_mut::BytesMut as buf::buf_mut::BufMut>::put", "extend"),
    ("<alloc::vec::Vec<u8> as buf::buf_mut::BufMut>::put", "extend"),
]


def is_len_of_real_slice(e):
    """len() of something that is a slice value (parameter, chunk()/chunk_mut() result, re-slice of those)"""
    e = canon(e)
    return is_call(e, "len")


def run(facts):
    res = Result("C5", "copy loops move min(real slice lengths) per iteration, index both sides by that count and advance both cursors by it")
    n = 0
    for ident, mode in TARGETS:
        l = facts.by_id.get(ident, [])
        if len(l) != 1:
            res.bad(ident, "-", "copy loop not found (renamed?)")
            continue
        b = l[0]
        n += 1
        eb = ExprBuilder(b, facts, inline=True)
        calls = []
        for bi, t in b.calls():
            if b.blocks[bi]["cleanup"]:
                continue
            fn = callee(t)
            if fn is None:
                continue
            loc = (bi, len(b.blocks[bi]["stmts"]))
            calls.append((bi, (fn.get("res") or fn)["path"], fn["name"], [canon(eb.operand(a, loc)) for a in t["args"]]))
        probs = []
        counts = []
        if mode in ("both", "fill"):
            mins = [a for (bi, p, nm, a) in calls if nm == "min" and len(a) == 2]
            if len(mins) != 1:
                probs.append("expected one min(..) computing the per-iteration count, found %d" % len(mins))
            else:
                m = ("call", [p for (bi, p, nm, a) in calls if nm == "min"][0], tuple(mins[0]))
                lens = [x for x in mins[0] if is_len_of_real_slice(x)]
                need = 2 if mode == "both" else 1
                if len(lens) < need:
                    probs.append("the count is not bounded by the real length of %s: min(%s)" % ("both slices" if need == 2 else "the destination chunk", ", ".join(fmt_expr(x)[:40] for x in mins[0])))
                # every cursor movement uses that same count
                for (bi, p, nm, a) in calls:
                    if nm in ("advance", "advance_mut") and len(a) == 2:
                        counts.append((nm, a[1]))
                    if nm in ("index", "index_mut") and len(a) == 2 and isinstance(a[1], tuple) and a[1][0] == "agg" and ("RangeTo" in str(a[1][1]) or "RangeFrom" in str(a[1][1])):
                        counts.append(("%s[%s]" % (nm, "..n" if "RangeTo" in str(a[1][1]) else "n.."), a[1][2][0]))
                    if nm == "write_bytes" and len(a) == 3:
                        counts.append((nm, a[2]))
                bad = [(w, c) for (w, c) in counts if c != m]
                if bad:
                    probs.append("cursor/index operations do not all use the same min count: %s" % "; ".join("%s(%s)" % (w, fmt_expr(c)[:50]) for w, c in bad[:3]))
                if mode == "both" and not any(w in ("advance", "advance_mut") for w, _ in counts):
                    probs.append("no cursor is advanced")
        else:
            ext = [(bi, a) for (bi, p, nm, a) in calls if nm == "extend_from_slice"]
            adv = [(bi, a) for (bi, p, nm, a) in calls if nm == "advance" and len(a) == 2]
            if len(ext) != 1 or len(adv) != 1:
                probs.append("expected one extend_from_slice and one src.advance")
            else:
                s = ext[0][1][1]
                c = adv[0][1][1]
                base = s
                while isinstance(base, tuple) and base[0] in ("ref", "deref"):
                    base = base[1]
                cb = c[2][0] if is_call(c, "len") else None
                while isinstance(cb, tuple) and cb[0] in ("ref", "deref"):
                    cb = cb[1]
                if not (is_call(c, "len") and cb == base):
                    probs.append("the source is advanced by %s, not by the length of the slice that was appended (%s)" % (fmt_expr(c)[:60], fmt_expr(s)[:60]))
        key = ident
        if probs:
            res.bad(key, b.loc(), "; ".join(probs))
        else:
            res.ok(key, b.loc(), "count = %s; %d cursor/index uses of the same count" % ("min(real lengths)" if mode != "extend" else "len of the appended slice", len(counts) or 1), nontrivial=True)
    res.floor("copy_loops", n, 6)
    return res
