"""C5 LOOP-COPY-BOUND — the chunk-wise copy loops (default put / put_slice / put_bytes /
try_copy_to_slice and the specialised put of Vec<u8> / BytesMut) move min(len of both *real* slices)
bytes per iteration (or exactly the slice handed to a safe extend_from_slice), index both sides with
that same count, and advance both cursors by that same count."""
from .base import Result, RuleError
from .facts import callee
from .flow import ExprBuilder, canon, walk, fmt_expr, cfg_of, edge_conditions
from .logic import const_of
from .logic import is_call

TARGETS = [
    ("buf::buf_impl::Buf::try_copy_to_slice", "both"),
    ("buf::buf_mut::BufMut::put", "both"),
    ("buf::buf_mut::BufMut::put_slice", "both"),
    ("buf::buf_mut::BufMut::put_bytes", "fill"),
    ("<bytes_mut::BytesMut as buf::buf_mut::BufMut>::put", "extend"),
    ("<alloc::vec::Vec<u8> as buf::buf_mut::BufMut>::put", "extend"),
]


def is_len_of_real_slice(e):
    """len() of something that is a slice value (parameter, chunk()/chunk_mut() result, re-slice of those)"""
    e = canon(e)
    return is_call(e, "len")


def copy_probs(facts, b, mode):
    eb = ExprBuilder(b, facts, inline=True)
    calls = []
    for bi, t in b.calls():
        if b.blocks[bi]["cleanup"]:
            continue
        fn = callee(t)
        if fn is None:
            continue
        loc = (bi, len(b.blocks[bi]["stmts"]))
        calls.append((bi, (fn.get("res") or fn)["path"], fn["name"], [canon(eb.operand(a, loc)) for a in t["args"]]))
    probs = []
    counts = []
    if mode in ("both", "fill"):
        mins = [a for (bi, p, nm, a) in calls if nm == "min" and len(a) == 2]
        if len(mins) != 1:
            probs.append("expected one min(..) computing the per-iteration count, found %d" % len(mins))
        else:
            m = ("call", [p for (bi, p, nm, a) in calls if nm == "min"][0], tuple(mins[0]))
            lens = [x for x in mins[0] if is_len_of_real_slice(x)]
            need = 2 if mode == "both" else 1
            if len(lens) < need:
                probs.append("the count is not bounded by the real length of %s: min(%s)" % ("both slices" if need == 2 else "the destination chunk", ", ".join(fmt_expr(x)[:40] for x in mins[0])))
            # every cursor movement uses that same count
            for (bi, p, nm, a) in calls:
                if nm in ("advance", "advance_mut") and len(a) == 2:
                    counts.append((nm, a[1]))
                if nm in ("index", "index_mut") and len(a) == 2 and isinstance(a[1], tuple) and a[1][0] == "agg" and ("RangeTo" in str(a[1][1]) or "RangeFrom" in str(a[1][1])):
                    counts.append(("%s[%s]" % (nm, "..n" if "RangeTo" in str(a[1][1]) else "n.."), a[1][2][0]))
                if nm == "write_bytes" and len(a) == 3:
                    counts.append((nm, a[2]))
            bad = [(w, c) for (w, c) in counts if c != m]
            if bad:
                probs.append("cursor/index operations do not all use the same min count: %s" % "; ".join("%s(%s)" % (w, fmt_expr(c)[:50]) for w, c in bad[:3]))
            if mode == "both" and not any(w in ("advance", "advance_mut") for w, _ in counts):
                probs.append("no cursor is advanced")
    else:
        ext = [(bi, a) for (bi, p, nm, a) in calls if nm == "extend_from_slice"]
        adv = [(bi, a) for (bi, p, nm, a) in calls if nm == "advance" and len(a) == 2]
        if len(ext) != 1 or len(adv) != 1:
            probs.append("expected one extend_from_slice and one src.advance")
        else:
            s = ext[0][1][1]
            c = adv[0][1][1]
            base = s
            while isinstance(base, tuple) and base[0] in ("ref", "deref"):
                base = base[1]
            cb = c[2][0] if is_call(c, "len") else None
            while isinstance(cb, tuple) and cb[0] in ("ref", "deref"):
                cb = cb[1]
            if not (is_call(c, "len") and cb == base):
                probs.append("the source is advanced by %s, not by the length of the slice that was appended (%s)" % (fmt_expr(c)[:60], fmt_expr(s)[:60]))
    return probs, counts


def run(facts):
    res = Result("C5", "copy loops move min(real slice lengths) per iteration, index both sides by that count and advance both cursors by it")
    n = 0
    for ident, mode in TARGETS:
        l = facts.by_id.get(ident, [])
        if len(l) != 1:
            res.bad(ident, "-", "copy loop not found (renamed?)")
            continue
        b = l[0]
        n += 1
        probs, counts = copy_probs(facts, b, mode)
        if probs:
            # the per-iteration step may live in a private helper (`copy_prefix(src, dst) -> usize`): judge the inlined views
            from .inline import views
            for ib in views(facts, b):
                p2, c2 = copy_probs(facts, ib, mode)
                if not p2:
                    probs, counts = [], c2
                    break
        key = ident
        if probs:
            res.bad(key, b.loc(), "; ".join(probs))
        else:
            res.ok(key, b.loc(), "count = %s; %d cursor/index uses of the same count" % ("min(real lengths)" if mode != "extend" else "len of the appended slice", len(counts) or 1), nontrivial=True)
        loop_exits(res, facts, b, ident)
    res.floor("copy_loops", n, 6)
    return res


def _cursor(e, b):
    """a parameter of the function, or the loop-carried variable a parameter is stored in"""
    e = canon(e)
    while isinstance(e, tuple) and e and e[0] in ("ref", "deref"):
        e = e[1]
    if isinstance(e, tuple) and e and e[0] == "param":
        return True
    return isinstance(e, tuple) and e and e[0] == "phi" and isinstance(e[1], tuple) and isinstance(e[1][0], int) and 1 <= e[1][0] <= b.arg_count


def loop_exits(res, facts, b, ident):
    """the copy loop ends only when the work is done: every normal (non-panicking) edge out of the loop carries
    `is_empty(cursor)`, `!cursor.has_remaining()` or `!(count > 0)` on one of the function's own cursors"""
    cfg = cfg_of(b)
    loop = {i for i in range(cfg.n) if not cfg.cleanup(i) and cfg.reaches(i, i)}
    key = ident + "|loop ends only when everything is moved"
    if not loop:
        res.bad(key, b.loc(), "no copy loop found")
        return
    exits, probs = 0, []
    conds = {(s, d): (c, v) for (s, d, c, v) in edge_conditions(b, facts)}
    for s in sorted(loop):
        for d in cfg.succ[s]:
            if d in loop or cfg.cleanup(d) or cfg.diverges(d):
                continue
            exits += 1
            cv = conds.get((s, d))
            if cv is None:
                probs.append("unconditional exit bb%d->bb%d" % (s, d))
                continue
            c, v = canon(cv[0]), cv[1]
            ok = False
            if v[0] == "eq":
                if is_call(c, "is_empty") and v[1] == 1 and _cursor(c[2][0], b):
                    ok = True
                elif isinstance(c, tuple) and c[0] in ("call", "ucall") and c[1].endswith("::has_remaining") and v[1] == 0 and _cursor(c[2][0], b):
                    ok = True
                elif isinstance(c, tuple) and c[0] == "bin" and const_of(c[3]) == 0 and _cursor(c[2], b) and ((c[1] in ("Gt", "Ne") and v[1] == 0) or (c[1] == "Eq" and v[1] == 1)):
                    ok = True
                elif isinstance(c, tuple) and c[0] == "bin" and c[1] in ("Eq",) and is_call(c[2], "len") and const_of(c[3]) == 0 and v[1] == 1 and _cursor(c[2][2][0], b):
                    ok = True
            elif v[0] == "eqint" and v[1] == 0 and (_cursor(c, b) or (is_call(c, "len") and _cursor(c[2][0], b)) or (isinstance(c, tuple) and c[0] in ("call", "ucall") and c[1].endswith("::remaining") and _cursor(c[2][0], b))):
                ok = True
            if not ok:
                probs.append("the loop can end on `%s` %s, which is not exhaustion of the source/destination" % (fmt_expr(c)[:70], v))
    if exits == 0:
        probs.append("the loop has no normal exit")
    if probs:
        res.bad(key, b.loc(), "; ".join(probs))
    else:
        res.ok(key, b.loc(), "%d exit edge(s), each on exhaustion of a cursor" % exits, nontrivial=True)
