"""Compile-fail witnesses with compiling twins (engine E2): type-level facts that the MIR rules take
for granted. A fail witness must fail with exactly the expected error code and its twin (the same
program without the offending construct) must compile — a witness whose path is merely wrong fails
too and would pass vacuously. The crate is built from /repo's current working tree on every run."""
import json, os, shutil, subprocess, tempfile
from .base import Result, RuleError

HERE = os.path.dirname(os.path.dirname(os.path.abspath(__file__)))


def run_witnesses(repo, prop):
    res = Result("W", "compile-fail witnesses (with compiling twins) for the type-level part of the property")
    specs = [w for w in json.load(open(os.path.join(HERE, "witness", "witnesses.json"))) if prop in w["properties"]]
    if not specs:
        return res
    td = tempfile.mkdtemp(prefix="bytes-wit-")
    try:
        env = dict(os.environ, CARGO_NET_OFFLINE="true", CARGO_TARGET_DIR=os.path.join(td, "target"))
        env.pop("RUSTC_WORKSPACE_WRAPPER", None)
        env.pop("RUSTFLAGS", None)
        p = subprocess.run(["cargo", "build", "--offline", "--lib"], cwd=repo, env=env, capture_output=True, text=True)
        if p.returncode != 0:
            raise RuleError("cannot build the crate for the witnesses: " + p.stderr[-800:])
        deps = os.path.join(td, "target", "debug", "deps")
        rlib = os.path.join(td, "target", "debug", "libbytes.rlib")
        if not os.path.exists(rlib):
            raise RuleError("libbytes.rlib not produced")

        def compile_(src, name):
            f = os.path.join(td, name + ".rs")
            open(f, "w").write(src)
            q = subprocess.run(["rustc", "--edition", "2021", "--crate-type", "bin", "--emit", "metadata", "--extern", "bytes=" + rlib,
                                "-L", "dependency=" + deps, "--error-format=json", "-o", os.path.join(td, name + ".rmeta"), f],
                               capture_output=True, text=True, env=env)
            codes = []
            for line in q.stderr.splitlines():
                try:
                    d = json.loads(line)
                except Exception:
                    continue
                if d.get("level") == "error" and d.get("code"):
                    codes.append(d["code"]["code"])
            return q.returncode, codes
        for w in specs:
            key = w["id"]
            rc_t, codes_t = compile_(w["twin"], key + "_twin")
            if rc_t != 0:
                raise RuleError("witness twin %s does not compile (%s): the witness is broken, not the crate" % (key, codes_t))
            if w["fail"] is None:
                res.ok(key, "witness", "compiles: " + w["says"])
                continue
            rc_f, codes_f = compile_(w["fail"], key + "_fail")
            if rc_f != 0 and w["expect"] in codes_f:
                res.ok(key, "witness", "rejected with %s, twin compiles: %s" % (w["expect"], w["says"]), nontrivial=True)
            elif rc_f == 0:
                res.bad(key, "witness", "the violating program now COMPILES: " + w["says"] + " no longer holds")
            else:
                res.bad(key, "witness", "violating program fails with %s instead of %s" % (codes_f, w["expect"]))
    finally:
        shutil.rmtree(td, ignore_errors=True)
    return res
