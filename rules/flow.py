"""Flow substrate over exported MIR: CFG, dominators, reaching definitions, expression
(provenance) trees, dominating guards, bounded path enumeration.

Expression trees are nested tuples:
  ('param', i) ('const', v) ('static', name) ('fn', full_path) ('unknown', tag)
  ('call', resolved_path, (args...))        resolved call (same callee+args => same value assumed
                                            only for functions classified pure by the caller)
  ('ucall', path, (args...), site)          unresolved (user-trait) call, site-distinct
  ('bin', op, a, b) ('un', op, a) ('cast', kind, a, ty)
  ('field', base, name) ('deref', base) ('ref', base) ('index', base, idx) ('variant', base, name)
  ('agg', kind, (ops...)) ('phi', (alts...)) ('discr', base) ('closure', did)
"""
from .facts import callee, fmt_place

MAX_DEPTH = 40


class CFG:
    def __init__(self, body):
        self.body = body
        n = len(body.blocks)
        self.n = n
        self.succ = [[] for _ in range(n)]      # normal successors
        self.usucc = [[] for _ in range(n)]     # unwind successors
        for i, b in enumerate(body.blocks):
            t = b["term"]
            k = t["k"]
            s = []
            if k == "goto":
                s = [t["target"]]
            elif k == "switch":
                s = [x[1] for x in t["targets"]] + [t["otherwise"]]
            elif k in ("drop", "assert"):
                s = [t["target"]]
            elif k == "call":
                if t["target"] is not None:
                    s = [t["target"]]
            # dedupe preserving order
            seen = []
            for x in s:
                if x not in seen:
                    seen.append(x)
            self.succ[i] = seen
            u = t.get("unwind")
            if isinstance(u, int):
                self.usucc[i] = [u]
        self.pred = [[] for _ in range(n)]
        for i in range(n):
            for s in self.succ[i]:
                self.pred[s].append(i)
        self._dom = None
        self._reach = {}

    def cleanup(self, i):
        return self.body.blocks[i]["cleanup"]

    # --- reachability -----------------------------------------------------------------
    def reachable_from(self, b):
        r = self._reach.get(b)
        if r is None:
            r = set()
            st = [b]
            while st:
                x = st.pop()
                for s in self.succ[x]:
                    if s not in r:
                        r.add(s)
                        st.append(s)
            self._reach[b] = r
        return r

    def reaches(self, a, b):
        """is there a non-empty normal path a -> b"""
        return b in self.reachable_from(a)

    # --- dominators (iterative) -------------------------------------------------------
    def dominators(self):
        if self._dom is None:
            n = self.n
            full = set(range(n))
            dom = [set(full) for _ in range(n)]
            dom[0] = {0}
            reach0 = self.reachable_from(0) | {0}
            changed = True
            order = list(range(n))
            while changed:
                changed = False
                for b in order:
                    if b == 0 or b not in reach0:
                        continue
                    ps = [p for p in self.pred[b] if p in reach0]
                    if not ps:
                        continue
                    new = set(dom[ps[0]])
                    for p in ps[1:]:
                        new &= dom[p]
                    new.add(b)
                    if new != dom[b]:
                        dom[b] = new
                        changed = True
            self._dom = dom
        return self._dom

    def dominates(self, a, b):
        return a in self.dominators()[b]

    def loc_dominates(self, la, lb):
        """location = (bb, stmt_index) ; terminator index = len(stmts)"""
        (ba, ia), (bb_, ib) = la, lb
        if ba == bb_:
            return ia <= ib
        return self.dominates(ba, bb_)

    def diverges(self, b, _seen=None):
        """block can never reach a return along normal edges (panic path)"""
        d = self.body._cache.get("diverge")
        if d is None:
            rets = [i for i, blk in enumerate(self.body.blocks) if blk["term"]["k"] in ("return", "tailcall")]
            can = set(rets)
            st = list(rets)
            while st:
                x = st.pop()
                for p in self.pred[x]:
                    if p not in can:
                        can.add(p)
                        st.append(p)
            d = set(range(self.n)) - can
            self.body._cache["diverge"] = d
        return b in d


def cfg_of(body):
    c = body._cache.get("cfg")
    if c is None:
        c = CFG(body)
        body._cache["cfg"] = c
    return c


# ---------------------------------------------------------------------------------------------
# definitions
# ---------------------------------------------------------------------------------------------
def defs_of(body):
    """local -> list of def sites; a site is (bb, si, kind, payload) with kind in
    'assign' (payload = rvalue), 'call' (payload = terminator)"""
    d = body._cache.get("defs")
    if d is None:
        d = {}
        for bi, b in enumerate(body.blocks):
            for si, s in enumerate(b["stmts"]):
                if s["k"] == "assign" and not s["pl"]["p"]:
                    d.setdefault(s["pl"]["l"], []).append((bi, si, "assign", s["rv"]))
            t = b["term"]
            if t["k"] == "call" and not t["dest"]["p"]:
                d.setdefault(t["dest"]["l"], []).append((bi, len(b["stmts"]), "call", t))
        body._cache["defs"] = d
    return d


def partial_writes(body):
    """local -> list of (bb, si) where a projection *of the local itself* (no deref) is assigned"""
    d = body._cache.get("pwrites")
    if d is None:
        d = {}
        for bi, b in enumerate(body.blocks):
            for si, s in enumerate(b["stmts"]):
                if s["k"] == "assign" and s["pl"]["p"] and s["pl"]["p"][0] != "*":
                    d.setdefault(s["pl"]["l"], []).append((bi, si))
        body._cache["pwrites"] = d
    return d


def reaching_defs(body, local, loc):
    """definition sites of `local` that may reach location loc=(bb,si) (exclusive of the
    statement at loc itself). Includes ('entry',) for arguments."""
    defs = defs_of(body).get(local, [])
    cfg = cfg_of(body)
    bb, si = loc
    is_arg = 1 <= local <= body.arg_count
    # fast paths
    if not defs:
        return [("entry",)] if is_arg else []
    if len(defs) == 1 and not is_arg:
        return [defs[0]]
    # same-block latest def before loc
    same = [d for d in defs if d[0] == bb and d[1] < si]
    if same:
        return [max(same, key=lambda d: d[1])]
    # backward search from predecessors of bb
    res = []
    seen = set()
    st = list(cfg.pred[bb])
    if bb == 0 and is_arg:
        res.append(("entry",))
    byblock = {}
    for d in defs:
        byblock.setdefault(d[0], []).append(d)
    while st:
        x = st.pop()
        if x in seen:
            continue
        seen.add(x)
        if x in byblock:
            d = max(byblock[x], key=lambda d: d[1])
            if d not in res:
                res.append(d)
            continue
        if x == 0 and is_arg and ("entry",) not in res:
            res.append(("entry",))
        for p in cfg.pred[x]:
            st.append(p)
    return res


# ---------------------------------------------------------------------------------------------
# expression trees
# ---------------------------------------------------------------------------------------------
# discriminant value of every enum variant seen under construction (variant path -> value)
VARIANT_DVAL = {}


class ExprBuilder:
    def __init__(self, body, facts=None, inline=True, inline_depth=3):
        self.body = body
        self.facts = facts if facts is not None else body.facts
        self.inline = inline
        self.inline_depth = inline_depth
        self.memo = {}

    # -- public API ---------------------------------------------------------------------
    def operand(self, o, loc, depth=0):
        k = o["k"]
        if k in ("copy", "move"):
            return self.place(o["pl"], loc, depth)
        if k == "const":
            if "fn" in o:
                fn = o["fn"]
                return ("fn", (fn.get("res") or fn)["full"] if fn.get("res") else fn["full"])
            if "static" in o:
                return ("static", o["static"])
            if "promoted" in o:
                pb = [p for p in self.body.promoted if p.j["index"] == o["promoted"]]
                if pb:
                    e = return_expr(pb[0], self.facts, inline=False)
                    return e
                return ("unknown", "promoted")
            if "v" in o:
                return ("const", o["v"])
            if "variant" in o:
                return ("const", o["variant"])
            if "uneval" in o:
                # named constant: evaluate its body if simple
                cb = self.facts.by_did.get(o.get("uneval_did"))
                if cb is not None and depth < MAX_DEPTH:
                    e = return_expr(cb, self.facts, inline=False)
                    return e
                return ("constname", o["uneval"])
            return ("const", o["s"])
        if k == "rtc":
            return ("rtc", o["v"])
        return ("unknown", "operand")

    def place(self, pl, loc, depth=0):
        e = self.local(pl["l"], loc, depth)
        for pe in pl["p"]:
            e = self.project(e, pe, loc, depth)
        return e

    def project(self, e, pe, loc, depth):
        if pe == "*":
            if e[0] == "ref":
                return e[1]
            return ("deref", e)
        if "f" in pe:
            name = pe.get("n", pe["f"])
            # field of a known aggregate
            if e[0] == "agg" and isinstance(e[1], tuple) and e[1][0] == "adt":
                fields = e[1][2]
                if name in fields:
                    return e[2][fields.index(name)]
            if e[0] == "agg" and e[1] == "tuple" and isinstance(name, int) and name < len(e[2]):
                return e[2][name]
            if e[0] == "variant" and isinstance(e[1], tuple) and e[1] and e[1][0] == "call" and isinstance(name, (int, str)) and str(name).isdigit() and self.facts is not None:
                # the payload of a variant a crate classifier returned (`match promotable_decode(p) { Promotable::Vec(shared) => .. }`): what the
                # classifier put there, with the call's arguments for its parameters
                cands = self.facts.by_id.get(e[1][1], [])
                if len(cands) == 1 and cands[0].arg_count == len(e[1][2]):
                    alts = classifier_alternatives(self.facts, cands[0])
                    if alts:
                        pays = [a[3][int(name)] for a in alts if len(a) > 3 and a[0].rsplit("::", 1)[-1] == e[2] and int(name) < len(a[3])]
                        if pays and all(p_ == pays[0] for p_ in pays):
                            return subst_params(pays[0], e[1][2])
            if e[0] == "bin" and e[1].endswith("WithOverflow"):
                # checked arithmetic tuple: .0 is the (wrapping) result, .1 the overflow flag
                if name == 0:
                    return ("bin", e[1][:-len("WithOverflow")], e[2], e[3])
                return ("ovf", e[1][:-len("WithOverflow")], e[2], e[3])
            return ("field", e, name)
        if "idx" in pe:
            return ("index", e, self.local(pe["idx"], loc, depth))
        if "variant" in pe:
            vn = pe.get("vname")
            if e[0] == "phi" and vn:
                # the value is one of several locally built variants (`Ok(x)` on one path, `Err(y)` on another): the payload
                # read in the arm of variant `vn` is that of the one alternative built as `vn`
                is_var = lambda a: isinstance(a, tuple) and a and a[0] == "agg" and isinstance(a[1], tuple) and a[1][0] == "adt"
                cands = [a for a in e[1] if is_var(a) and a[1][1].rsplit("::", 1)[-1] == vn]
                if len(cands) == 1 and all(is_var(a) for a in e[1]):
                    e = cands[0]
            if e[0] == "agg" and isinstance(e[1], tuple) and e[1][0] == "adt" and vn and e[1][1].rsplit("::", 1)[-1] == vn:
                return e
            return ("variant", e, vn)
        if "cidx" in pe:
            return ("index", e, ("const", pe["cidx"]))
        return ("proj", e, str(pe))

    def local(self, l, loc, depth=0):
        key = (l, loc)
        if key in self.memo:
            return self.memo[key]
        if depth > MAX_DEPTH:
            return ("unknown", "_%d" % l)
        self.memo[key] = ("unknown", "cycle_%d" % l)
        ds = reaching_defs(self.body, l, loc)
        alts = []
        for d in ds:
            if d[0] == "entry":
                alts.append(("param", l))
            else:
                alts.append(self.def_expr(d, depth + 1))
        if not alts:
            e = ("unknown", "_%d" % l)
        elif len(alts) == 1:
            e = alts[0]
        else:
            uniq = []
            for a in alts:
                if a not in uniq:
                    uniq.append(a)
            pid = (l, tuple(sorted((d[0], d[1]) if d[0] != "entry" else (-1, -1) for d in ds)))
            e = uniq[0] if len(uniq) == 1 else ("phi", tuple(uniq), pid)
        self.memo[key] = e
        return e

    def def_expr(self, d, depth):
        bb, si, kind, payload = d
        loc = (bb, si)
        if kind == "assign":
            return self.rvalue(payload, loc, depth)
        return self.call_expr(payload, loc, depth)

    def rvalue(self, r, loc, depth):
        k = r["k"]
        if k == "use":
            return self.operand(r["op"], loc, depth)
        if k in ("ref", "rawptr"):
            inner = self.place(r["pl"], loc, depth)
            if inner[0] == "deref":
                return inner[1]          # reborrow erased
            return ("ref", inner)
        if k == "bin":
            return ("bin", r["op"], self.operand(r["a"], loc, depth), self.operand(r["b"], loc, depth))
        if k == "un":
            return ("un", r["op"], self.operand(r["a"], loc, depth))
        if k == "cast":
            inner = self.operand(r["op"], loc, depth)
            return ("cast", r["ck"], inner, r["ty"])
        if k == "agg":
            ops = tuple(self.operand(o, loc, depth) for o in r["ops"])
            if r["ak"] == "adt":
                if "dval" in r:
                    VARIANT_DVAL[r["adt"] + "::" + r["variant"]] = r["dval"]
                return ("agg", ("adt", r["adt"] + "::" + r["variant"], tuple(r["fields"])), ops)
            if r["ak"] == "closure":
                return ("closure", r.get("closure_did"), ops)
            return ("agg", r["ak"], ops)
        if k == "discr":
            return ("discr", self.place(r["pl"], loc, depth))
        if k == "repeat":
            return ("repeat", self.operand(r["op"], loc, depth), r["n"])
        return ("unknown", k)

    def call_expr(self, t, loc, depth):
        fn = callee(t)
        args = tuple(self.operand(a, loc, depth) for a in t["args"])
        if fn is None:
            f = self.operand(t["func"], loc, depth)
            return ("icall", f, args, loc)
        if "res" in fn and fn["res"] is None:
            return ("ucall", fn["path"], args, (self.body.did, loc[0]), tuple(fn.get("args", ())))
        res = fn.get("res") or fn
        path = res["path"]
        # peel the `&mut T` / `Box<T>` forwarding impls: `self.remaining()` inside a `&mut self`
        # method resolves to `<&mut X as Buf>::remaining`, which (rule C1) is `X::remaining(**self)`
        if res.get("local") and fn.get("trait") and res.get("impl_self") in ("&mut T", "alloc::boxed::Box<T>") \
                and fn.get("self_ty") and args:
            st = fn["self_ty"]
            inner = st[5:] if st.startswith("&mut ") else (st[len("alloc::boxed::Box<"):-1] if st.startswith("alloc::boxed::Box<") else None)
            if inner is not None:
                a0 = args[0]
                a0 = a0[1] if a0[0] == "ref" else ("deref", a0)
                im = self.facts.find_impl_method(fn["trait"], inner, fn["name"])
                if im is None:
                    return ("ucall", fn["path"], (a0,) + args[1:], (self.body.did, loc[0]), (inner,))
                cb = self.facts.by_did.get(im)
                if cb is not None:
                    if self.inline and self.inline_depth > 0:
                        g = getter_expr(cb, self.facts, self.inline_depth - 1)
                        if g is not None:
                            return subst_params(g, (a0,) + args[1:])
                    return ("call", cb.id, (a0,) + args[1:], cb.id, (inner,), fn["path"])
        if self.inline and res.get("local") and self.inline_depth > 0:
            cb = self.facts.by_did.get(res.get("did"))
            if cb is not None:
                g = getter_expr(cb, self.facts, self.inline_depth - 1)
                if g is not None:
                    return subst_params(g, args)
        s = STD_SIMPLIFY.get(path)
        if s is not None:
            r = s(args)
            if r is not None:
                return r
        return ("call", path, args, res["full"], tuple(fn.get("args", ())), fn["path"])


def subst_params(e, args):
    if not isinstance(e, tuple) or not e:
        return e
    if e[0] == "param":
        i = e[1] - 1
        if 0 <= i < len(args):
            return args[i]
        return e
    if e[0] == "deref":
        inner = subst_params(e[1], args)
        if isinstance(inner, tuple) and inner[0] == "ref":
            return inner[1]
        return ("deref", inner)
    return tuple(subst_params(x, args) if isinstance(x, tuple) else x for x in e)


def _erase(args):
    return args[0]


# std functions that are identity / views for provenance purposes
STD_SIMPLIFY = {
    "core::mem::ManuallyDrop::<T>::new": _erase,
    "core::mem::ManuallyDrop::<T>::into_inner": _erase,
    "<core::mem::ManuallyDrop<T> as core::ops::Deref>::deref": _erase,
    "<core::mem::ManuallyDrop<T> as core::ops::DerefMut>::deref_mut": _erase,
    "core::ptr::NonNull::<T>::as_ptr": lambda a: ("nn_as_ptr", a[0]),
    "core::ptr::NonNull::<T>::new_unchecked": lambda a: ("nn_new", a[0]),
    "core::ptr::mut_ptr::<impl *mut T>::cast": _erase,
    "core::ptr::const_ptr::<impl *const T>::cast": _erase,
    "core::ptr::mut_ptr::<impl *mut T>::cast_const": _erase,
    "core::ptr::const_ptr::<impl *const T>::cast_mut": _erase,
}


def _simplify_nn(e):
    # nn_as_ptr(nn_new(x)) == x ; nn_as_ptr(vptr(x)) == x handled by caller tables
    return e


def return_expr(body, facts, inline=True, depth=3):
    """expression of the return value (joined over all return blocks)"""
    key = ("retexpr", inline, depth)
    if key in body._cache:
        return body._cache[key]
    body._cache[key] = ("unknown", "recursion")
    eb = ExprBuilder(body, facts, inline=inline, inline_depth=depth)
    alts = []
    for bi, b in enumerate(body.blocks):
        if b["term"]["k"] == "return" and not b["cleanup"]:
            e = eb.local(0, (bi, len(b["stmts"])))
            if e not in alts:
                alts.append(e)
    if not alts:
        r = ("unknown", "noreturn")
    elif len(alts) == 1:
        r = alts[0]
    else:
        r = ("phi", tuple(alts))
    body._cache[key] = r
    return r


def has_effects(body):
    """stores through pointers / into argument memory, or drop terminators on non-trivial values"""
    e = body._cache.get("effects")
    if e is None:
        e = False
        for b in body.blocks:
            if b["cleanup"]:
                continue
            for s in b["stmts"]:
                if s["k"] == "assign" and "*" in s["pl"]["p"]:
                    e = True
                elif s["k"] in ("copy_nonoverlapping",):
                    e = True
        body._cache["effects"] = e
    return e


def canon(e):
    """canonical form for structural comparison: integer casts erased, call metadata dropped,
    loop-carried / multi-definition variables identified by (local, reaching-definition set)"""
    if not isinstance(e, tuple) or not e:
        return e
    h = e[0]
    if h == "cast" and e[1] == "IntToInt":
        return canon(e[2])
    if h == "call":
        return ("call", e[1], tuple(canon(a) for a in e[2]))
    if h == "ucall":
        return ("ucall", e[1], tuple(canon(a) for a in e[2]), e[3] if len(e) > 3 else None)
    if h == "phi":
        if len(e) > 2:
            return ("phi", e[2])
        return ("phi", tuple(canon(a) for a in e[1]))
    return tuple(canon(x) if isinstance(x, tuple) else x for x in e)


PURE_STD = (
    "core::cmp::min", "core::cmp::max", "core::cmp::Ord::min", "core::cmp::Ord::max",
    "core::ptr::NonNull::<T>::as_ptr", "core::slice::<impl [T]>::len", "core::slice::<impl [T]>::as_ptr",
    "core::ptr::mut_ptr::<impl *mut T>::cast", "core::ptr::const_ptr::<impl *const T>::cast",
    "core::slice::<impl [T]>::is_empty", "alloc::vec::Vec::<T, A>::len", "alloc::vec::Vec::<T, A>::capacity",
    "core::ptr::mut_ptr::<impl *mut T>::cast_const",
)


def getter_expr(body, facts, depth):
    """If `body` is a pure getter (no stores, no user-trait calls, straight expression of its
    parameters, debug-only panics ignored), return its return expression in terms of params."""
    key = ("getter", depth)
    if key in body._cache:
        return body._cache[key]
    body._cache[key] = None
    res = None
    if body.kind in ("fn", "assoc_fn") and not has_effects(body) and len(body.blocks) <= 6:
        ok = True
        # a getter projects / compares / masks; a function that does arithmetic (offset_from, get_vec_pos) is kept
        # as a named call, so that expression trees are the same with and without overflow checks
        for blk in body.blocks:
            for st in blk["stmts"]:
                if st["k"] == "assign" and st["rv"]["k"] == "bin" and st["rv"]["op"].replace("WithOverflow", "").replace("Unchecked", "") in (
                        "Add", "Sub", "Mul", "Div", "Rem", "Shl", "Shr"):
                    ok = False
        for _, t in body.terms():
            if t["k"] == "call":
                fn = callee(t)
                if fn is None:
                    ok = False
                    break
                if "res" in fn and fn["res"] is None:
                    # user-trait call inside a getter (Take::remaining = min(inner.remaining(), limit)):
                    # kept as a ucall node; only bound reasoning (x <= min(u, l) => x <= l) may rely on it
                    if fn["name"] in ("remaining", "remaining_mut", "len"):
                        continue
                    ok = False
                    break
                r = fn.get("res") or fn
                if r.get("local"):
                    cb = facts.by_did.get(r.get("did"))
                    if cb is None or depth <= 0 or getter_expr(cb, facts, depth - 1) is None:
                        ok = False
                        break
                elif r["path"] not in PURE_STD and r["path"] not in STD_SIMPLIFY:
                    ok = False
                    break
            elif t["k"] in ("drop", "switch", "assert"):
                ok = False
                break
        if ok:
            e = return_expr(body, facts, inline=True, depth=depth)
            if not contains(e, ("unknown", "phi", "icall")):
                res = e
    body._cache[key] = res
    return res


def contains(e, heads):
    if not isinstance(e, tuple):
        return False
    if e and e[0] in heads:
        return True
    return any(contains(x, heads) for x in e if isinstance(x, tuple))


def walk(e):
    """all expression nodes (tuples headed by a tag string) inside e"""
    if isinstance(e, tuple):
        if e and isinstance(e[0], str):
            yield e
        for x in e:
            if isinstance(x, tuple):
                yield from walk(x)


def fmt_expr(e, depth=0):
    if not isinstance(e, tuple) or not e:
        return str(e)
    h = e[0]
    if depth > 8:
        return "…"
    f = lambda x: fmt_expr(x, depth + 1)
    if h == "param":
        return "arg%d" % e[1]
    if h == "const":
        return str(e[1])
    if h == "field":
        return "%s.%s" % (f(e[1]), e[2])
    if h == "deref":
        return "*%s" % f(e[1])
    if h == "ref":
        return "&%s" % f(e[1])
    if h == "bin":
        return "(%s %s %s)" % (f(e[2]), e[1], f(e[3]))
    if h == "un":
        return "%s(%s)" % (e[1], f(e[2]))
    if h == "cast":
        return "(%s as %s)" % (f(e[2]), e[3])
    if h == "call":
        return "%s(%s)" % (e[1].rsplit("::", 1)[-1] if not e[1].startswith("<") else e[1], ", ".join(f(a) for a in e[2]))
    if h == "ucall":
        return "user:%s(%s)" % (e[1], ", ".join(f(a) for a in e[2]))
    if h == "phi":
        return "phi(%s)" % " | ".join(f(a) for a in e[1])
    if h == "agg":
        return "%s{%s}" % (e[1][1] if isinstance(e[1], tuple) else e[1], ", ".join(f(a) for a in e[2]))
    if h in ("nn_as_ptr", "nn_new"):
        return "%s(%s)" % (h, f(e[1]))
    return "%s(%s)" % (h, ", ".join(f(a) if isinstance(a, tuple) else str(a) for a in e[1:]))


# ---------------------------------------------------------------------------------------------
# guards
# ---------------------------------------------------------------------------------------------
def edge_conditions(body, facts=None, inline=True):
    """list of (src_bb, dst_bb, cond_expr, value, negated_values) for every switch/assert edge.
    For a switch edge with explicit value v: (cond == v). For the otherwise edge: cond not in vals
    (for a bool discriminant with one explicit target this is turned into cond == other value)."""
    key = ("edges", inline)
    if key in body._cache:
        return body._cache[key]
    eb = ExprBuilder(body, facts or body.facts, inline=inline)
    out = []
    for bi, b in enumerate(body.blocks):
        t = b["term"]
        loc = (bi, len(b["stmts"]))
        if t["k"] == "switch":
            c = eb.operand(t["discr"], loc)
            vals = [v for v, _ in t["targets"]]
            isbool = t["discr_ty"] == "bool"
            is_int = t["discr_ty"] in ("usize", "u8", "u16", "u32", "u64", "u128", "isize", "i8", "i16", "i32", "i64", "i128")
            for v, dst in t["targets"]:
                out.append((bi, dst, c, ("eq", v) if not is_int else ("eqint", v)))
            if isbool and len(vals) == 1:
                out.append((bi, t["otherwise"], c, ("eq", 1 - vals[0])))
            elif is_int:
                # `match x { C => .., _ => .. }` on an integer: the fall-through edge knows x != C for every listed C
                out.append((bi, t["otherwise"], c, ("neint", tuple(vals))))
            else:
                out.append((bi, t["otherwise"], c, ("notin", tuple(vals))))
        elif t["k"] == "assert":
            c = eb.operand(t["cond"], loc)
            out.append((bi, t["target"], c, ("eq", 1 if t["expected"] else 0)))
    body._cache[key] = out
    return out


def guards_at(body, bb, facts=None, inline=True, _depth=0):
    """edge conditions that hold whenever block bb is entered: edges (s->d) such that d dominates bb
    and every normal predecessor of d other than s is itself dominated by d (loop back-edges)."""
    cfg = cfg_of(body)
    res = []
    for (s, d, c, v) in edge_conditions(body, facts, inline):
        if not cfg.dominates(d, bb):
            continue
        ok = True
        n_edges = 0
        for p in cfg.pred[d]:
            if p == s:
                n_edges += 1
                continue
            if not cfg.dominates(d, p):
                ok = False
                break
        # the same source may reach d through two different switch values -> ambiguous
        t = body.blocks[s]["term"]
        if t["k"] == "switch":
            dsts = [x[1] for x in t["targets"]] + [t["otherwise"]]
            if dsts.count(d) > 1:
                ok = False
        if ok:
            res.append((s, d, c, v))
    if _FRESH_GUARDS and facts is not None and _depth == 0:
        # a condition checked before a write to the state it mentions is no fact after that write (rules/fresh.py)
        from . import fresh
        res = [g for g in res if fresh.guard_survives(facts, body, cfg, g[1], g[2], bb, g[0])]
    res = expand_short_circuit(body, facts, inline, res, _depth)
    return expand_discr_correlation(body, facts, inline, res, _depth)


import os as _os
import contextlib as _contextlib
_FRESH_GUARDS = _os.environ.get("BYTES_SA_FRESH", "1") == "1"


@_contextlib.contextmanager
def allow_stale_guards():
    """for a rule whose facts are *about the state at the time of the check* (A8 justifies a store by what held before the
    function's earlier stores; C7 asks under which conditions a value was read): dominating conditions are used as they were
    evaluated, also after a write to the fields they mention"""
    global _FRESH_GUARDS
    old = _FRESH_GUARDS
    _FRESH_GUARDS = False
    try:
        yield
    finally:
        _FRESH_GUARDS = old


def _deciding_defs(body, l, loc, field=None, depth=0):
    """definition sites that decide a locally constructed value: for field=None the enum variant of local `l` (dval of the
    variant construction), otherwise the constant stored in field number `field` of the aggregate built into `l`.
    [(bb, si, value)] or None when some reaching definition is not such a construction (moves are followed)."""
    if depth > 6:
        return None
    out = []
    for d in reaching_defs(body, l, loc):
        if d[0] == "entry" or d[2] != "assign":
            return None
        rv = d[3]
        if rv["k"] == "agg" and field is None and rv.get("ak") == "adt" and "dval" in rv:
            out.append((d[0], d[1], rv["dval"]))
        elif rv["k"] == "agg" and field is not None and field < len(rv["ops"]) and rv["ops"][field]["k"] == "const" and "v" in rv["ops"][field]:
            out.append((d[0], d[1], rv["ops"][field]["v"]))
        elif rv["k"] == "use" and rv["op"]["k"] in ("move", "copy") and not rv["op"]["pl"]["p"]:
            sub = _deciding_defs(body, rv["op"]["pl"]["l"], (d[0], d[1]), field, depth + 1)
            if sub is None:
                return None
            out.extend(sub)
        elif rv["k"] == "use" and rv["op"]["k"] in ("move", "copy") and field is None and len(rv["op"]["pl"]["p"]) == 2 \
                and isinstance(rv["op"]["pl"]["p"][0], dict) and "variant" in rv["op"]["pl"]["p"][0] \
                and isinstance(rv["op"]["pl"]["p"][1], dict) and "f" in rv["op"]["pl"]["p"][1]:
            # `let how = (opt as Some).0`: the payload of a locally built Some(..)
            sub = _nested_deciding_defs(body, rv["op"]["pl"]["l"], (d[0], d[1]), rv["op"]["pl"]["p"][0].get("vname"), rv["op"]["pl"]["p"][1]["f"], depth + 1)
            if sub is None:
                return None
            out.extend(sub)
        else:
            return None
    return out


def _nested_deciding_defs(body, l, loc, vname, field, depth=0):
    """like _deciding_defs for the enum stored in field `field` of the variant `vname` of local `l`: the constructions of
    that payload over all reaching definitions of `l` that build `vname` (definitions building another variant cannot
    reach the arm and are skipped)"""
    if depth > 6:
        return None
    out = []
    for d in reaching_defs(body, l, loc):
        if d[0] == "entry" or d[2] != "assign":
            return None
        rv = d[3]
        if rv["k"] == "agg" and rv.get("ak") == "adt" and "dval" in rv:
            if rv.get("variant") != vname:
                continue
            if field >= len(rv["ops"]) or rv["ops"][field]["k"] not in ("move", "copy") or rv["ops"][field]["pl"]["p"]:
                return None
            sub = _deciding_defs(body, rv["ops"][field]["pl"]["l"], (d[0], d[1]), None, depth + 1)
            if sub is None:
                return None
            out.extend(sub)
        elif rv["k"] == "use" and rv["op"]["k"] in ("move", "copy") and not rv["op"]["pl"]["p"]:
            sub = _nested_deciding_defs(body, rv["op"]["pl"]["l"], (d[0], d[1]), vname, field, depth + 1)
            if sub is None:
                return None
            out.extend(sub)
        else:
            return None
    return out


def expand_discr_correlation(body, facts, inline, guards, depth=0):
    """`match classify(x) { A => .., B => .. }` where the enum value was built by plain variant constructions (typically
    in an inlined helper: `if c1 { return A }; assert!(c2); B`): being in the arm of variant V implies every fact that
    holds where V was constructed. Likewise for a flag carried in a locally built tuple / struct:
    `let (x, last) = match o { Some(h) => (h, true), None => (y, false) }; if last { .. }`."""
    if depth > 3:
        return guards
    out = list(guards)
    defs = defs_of(body)
    for (s, d, c, v) in guards:
        if v[0] not in ("eq", "eqint", "neint", "notin"):
            continue
        t = body.blocks[s]["term"]
        if t["k"] != "switch":
            continue
        op = t["discr"]
        if op["k"] not in ("copy", "move") or op["pl"]["p"]:
            continue
        l = op["pl"]["l"]
        ds = defs.get(l, [])
        for _ in range(6):
            # plain copies of the deciding value through temporaries
            if len(ds) == 1 and ds[0][2] == "assign" and ds[0][3]["k"] == "use" and ds[0][3]["op"]["k"] in ("copy", "move") \
                    and not ds[0][3]["op"]["pl"]["p"]:
                l = ds[0][3]["op"]["pl"]["l"]
                ds = defs.get(l, [])
                continue
            break
        if len(ds) != 1 or ds[0][2] != "assign":
            continue
        rv = ds[0][3]
        if rv["k"] == "discr" and not rv["pl"]["p"]:
            vd = _deciding_defs(body, rv["pl"]["l"], (ds[0][0], ds[0][1]))
        elif rv["k"] == "discr" and len(rv["pl"]["p"]) == 2 and isinstance(rv["pl"]["p"][0], dict) and "variant" in rv["pl"]["p"][0] \
                and isinstance(rv["pl"]["p"][1], dict) and "f" in rv["pl"]["p"][1]:
            # `match classify(x) { Some(Kind::A) => .., Some(Kind::B) => .., None => .. }`: the variant of the payload
            vd = _nested_deciding_defs(body, rv["pl"]["l"], (ds[0][0], ds[0][1]), rv["pl"]["p"][0].get("vname"), rv["pl"]["p"][1]["f"])
        elif rv["k"] == "use" and rv["op"]["k"] in ("copy", "move") and len(rv["op"]["pl"]["p"]) == 1 \
                and isinstance(rv["op"]["pl"]["p"][0], dict) and "f" in rv["op"]["pl"]["p"][0]:
            vd = _deciding_defs(body, rv["op"]["pl"]["l"], (ds[0][0], ds[0][1]), field=rv["op"]["pl"]["p"][0]["f"])
        else:
            continue
        if not vd or len(vd) < 2:
            continue
        if v[0] in ("eq", "eqint"):
            feas = [x for x in vd if x[2] == v[1]]
        else:
            feas = [x for x in vd if x[2] not in v[1]]
        if not feas or len(feas) == len(vd):
            continue
        common = None
        for (bb, si, _) in feas:
            g = guards_at(body, bb, facts, inline, _depth=depth + 1)
            common = list(g) if common is None else [x for x in common if x in g]
        out.extend(g for g in (common or []) if g not in out)
    return out


def expand_short_circuit(body, facts, inline, guards, depth=0):
    """`let ok = a && b && c; if ok {..}` lowers to a bool local with several definitions: `const false` on the
    short-circuit edges and the last conjunct on the full path. Knowing ok == true therefore implies every
    fact that dominates the one non-constant definition, plus that definition's own condition (dually for
    `||` and ok == false)."""
    if depth > 3:
        return guards
    out = list(guards)
    defs = defs_of(body)
    for (s, d, c, v) in guards:
        if v[0] != "eq":
            continue
        t = body.blocks[s]["term"]
        if t["k"] != "switch" or t["discr_ty"] != "bool":
            continue
        op = t["discr"]
        if op["k"] not in ("copy", "move") or op["pl"]["p"]:
            continue
        l = op["pl"]["l"]
        for _ in range(6):
            ds = defs.get(l, [])
            if len(ds) == 1 and ds[0][2] == "assign" and ds[0][3]["k"] == "use" and ds[0][3]["op"]["k"] in ("copy", "move") \
                    and not ds[0][3]["op"]["pl"]["p"]:
                l = ds[0][3]["op"]["pl"]["l"]
                continue
            break
        ds = defs.get(l, [])
        if len(ds) < 2:
            continue
        want = v[1]
        live = []
        for dd in ds:
            if dd[2] == "assign" and dd[3]["k"] == "use" and dd[3]["op"]["k"] == "const" and "v" in dd[3]["op"]:
                if dd[3]["op"]["v"] == want:
                    live.append(dd)      # a constant definition that already has the wanted value: nothing learned from it
                continue
            live.append(dd)
        consts_wanted = [dd for dd in live if dd[2] == "assign" and dd[3]["k"] == "use" and dd[3]["op"]["k"] == "const"]
        nonconst = [dd for dd in live if dd not in consts_wanted]
        if consts_wanted or len(nonconst) != 1:
            continue
        dd = nonconst[0]
        # facts that hold where the deciding definition executes
        inner = guards_at(body, dd[0], facts, inline, _depth=depth + 1)
        out.extend(g for g in inner if g not in out)
        if dd[2] == "assign":
            eb = ExprBuilder(body, facts or body.facts, inline=inline)
            e = eb.rvalue(dd[3], (dd[0], dd[1]), 0)
            out.append((dd[0], dd[0], e, ("eq", want)))
    return out


# ---------------------------------------------------------------------------------------------
# path-sensitive evaluation
# ---------------------------------------------------------------------------------------------
class PathExprBuilder(ExprBuilder):
    """expressions along ONE control-flow path (a list of blocks): a local reads as its last definition on the path, so
    values that are chosen together on a path (`parity` -> its tag and its vtable) stay together instead of becoming
    independent phis"""

    def __init__(self, body, facts, path, inline=False):
        ExprBuilder.__init__(self, body, facts, inline=inline)
        self.path = list(path)
        self.pos = {}
        for i, bb in enumerate(self.path):
            self.pos.setdefault(bb, i)

    def local(self, l, loc, depth=0):
        key = (l, loc)
        if key in self.memo:
            return self.memo[key]
        if depth > MAX_DEPTH:
            return ("unknown", "_%d" % l)
        self.memo[key] = ("unknown", "cycle_%d" % l)
        bb, si = loc
        here = self.pos.get(bb)
        best = None
        if here is not None:
            for d in defs_of(self.body).get(l, []):
                p = self.pos.get(d[0])
                if p is None:
                    continue
                if p < here or (p == here and d[1] < si):
                    if best is None or (p, d[1]) > (self.pos[best[0]], best[1]):
                        best = d
        if best is None:
            e = ("param", l) if 1 <= l <= self.body.arg_count else ("unknown", "_%d" % l)
        else:
            e = self.def_expr(best, depth + 1)
        self.memo[key] = e
        return e


def _known_on_path(body, pos, path, l, loc, depth=0):
    """constant known for local l at loc on this path: an assigned constant, a copy of one, the discriminant of a locally
    built variant, a constant field of a locally built tuple; None when not known"""
    if depth > 8:
        return None
    bb, si = loc
    here = pos.get(bb)
    best = None
    for d in defs_of(body).get(l, []):
        p = pos.get(d[0])
        if p is None:
            continue
        if p < here or (p == here and d[1] < si):
            if best is None or (p, d[1]) > (pos[best[0]], best[1]):
                best = d
    if best is None or best[2] != "assign":
        return None
    rv = best[3]
    at = (best[0], best[1])
    if rv["k"] == "use":
        op = rv["op"]
        if op["k"] == "const":
            return op.get("v")
        if op["k"] in ("copy", "move"):
            if not op["pl"]["p"]:
                return _known_on_path(body, pos, path, op["pl"]["l"], at, depth + 1)
            pr = op["pl"]["p"]
            if len(pr) == 1 and isinstance(pr[0], dict) and "f" in pr[0]:
                agg = _agg_on_path(body, pos, op["pl"]["l"], at, depth + 1)
                if agg is not None and pr[0]["f"] < len(agg["ops"]) and agg["ops"][pr[0]["f"]]["k"] == "const":
                    return agg["ops"][pr[0]["f"]].get("v")
        return None
    if rv["k"] == "discr" and not rv["pl"]["p"]:
        agg = _agg_on_path(body, pos, rv["pl"]["l"], at, depth + 1)
        if agg is not None and "dval" in agg:
            return agg["dval"]
    return None


def _agg_on_path(body, pos, l, loc, depth=0):
    if depth > 8:
        return None
    bb, si = loc
    here = pos.get(bb)
    best = None
    for d in defs_of(body).get(l, []):
        p = pos.get(d[0])
        if p is None:
            continue
        if p < here or (p == here and d[1] < si):
            if best is None or (p, d[1]) > (pos[best[0]], best[1]):
                best = d
    if best is None or best[2] != "assign":
        return None
    rv = best[3]
    if rv["k"] == "agg":
        return rv
    if rv["k"] == "use" and rv["op"]["k"] in ("copy", "move") and not rv["op"]["pl"]["p"]:
        return _agg_on_path(body, pos, rv["op"]["pl"]["l"], (best[0], best[1]), depth + 1)
    return None


def feasible_paths_to(body, target, limit=4000):
    """acyclic entry -> `target` paths (block lists) that are not refuted by values known on the path itself: a switch on a
    constant, on a copy of one, or on the discriminant / flag of a value built earlier on the same path takes its one edge"""
    cfg = cfg_of(body)
    can_reach = {target} | {b for b in range(cfg.n) if cfg.reaches(b, target)}
    out = []

    def rec(bb, path, pos):
        if len(out) >= limit:
            return
        if bb == target:
            out.append(list(path))
            return
        blk = body.blocks[bb]
        t = blk["term"]
        succ = list(cfg.succ[bb])
        if t["k"] == "switch" and t["discr"]["k"] in ("copy", "move") and not t["discr"]["pl"]["p"]:
            v = _known_on_path(body, pos, path, t["discr"]["pl"]["l"], (bb, len(blk["stmts"])))
            if v is not None:
                nxt = [d for val, d in t["targets"] if val == v]
                succ = nxt[:1] if nxt else [t["otherwise"]]
        for d in succ:
            if d in pos or d not in can_reach or cfg.cleanup(d):
                continue
            pos[d] = len(path)
            path.append(d)
            rec(d, path, pos)
            path.pop()
            del pos[d]
    if 0 in can_reach:
        rec(0, [0], {0: 0})
    return out


def refuted_by_variants(rels):
    """a relation on the discriminant of a value that this very path built as a known variant contradicts that variant:
    `discr(Some{..}) notin (1)`, `discr(None{}) == 1` - the path cannot be taken"""
    for r in rels:
        if not (isinstance(r, tuple) and len(r) >= 3 and isinstance(r[1], tuple) and r[1] and r[1][0] == "discr"):
            continue
        x = r[1][1]
        while isinstance(x, tuple) and x and x[0] in ("ref", "deref"):
            x = x[1]
        if not (isinstance(x, tuple) and x and x[0] == "agg" and isinstance(x[1], tuple) and x[1] and x[1][0] == "adt"):
            continue
        d = VARIANT_DVAL.get(x[1][1])
        if d is None:
            continue
        v = r[2]
        c = v[1] if (isinstance(v, tuple) and v and v[0] == "const") else v
        if (r[0] == "truth" and c != d) or (r[0] == "notin" and d in v) or (r[0] == "eq" and isinstance(c, int) and c != d) \
                or (r[0] == "ne" and isinstance(c, int) and c == d):
            return True
    return False


def path_relations(body, facts, path):
    """the relations established by the edges taken along `path`, with operands evaluated on the path"""
    pe = PathExprBuilder(body, facts, path)
    out = []
    for (s_, d_) in zip(path, path[1:]):
        t = body.blocks[s_]["term"]
        loc = (s_, len(body.blocks[s_]["stmts"]))
        if t["k"] == "switch":
            c = pe.operand(t["discr"], loc)
            vals = [v for v, _ in t["targets"]]
            is_int = t["discr_ty"] not in ("bool",) and t["discr_ty"] in ("usize", "u8", "u16", "u32", "u64", "u128", "isize", "i8", "i16", "i32", "i64", "i128")
            hit = [v for v, dst in t["targets"] if dst == d_]
            if hit and d_ != t["otherwise"]:
                out.append(normalize_cmp(c, ("eqint", hit[0]) if is_int else ("eq", hit[0])))
            elif d_ == t["otherwise"]:
                if t["discr_ty"] == "bool" and len(vals) == 1:
                    out.append(normalize_cmp(c, ("eq", 1 - vals[0])))
                elif is_int:
                    out.append(normalize_cmp(c, ("neint", tuple(vals))))
                else:
                    out.append(normalize_cmp(c, ("notin", tuple(vals))))
        elif t["k"] == "assert" and t.get("target") == d_:
            c = pe.operand(t["cond"], loc)
            out.append(normalize_cmp(c, ("eq", 1 if t["expected"] else 0)))
    return expand_slice_get(expand_ordering(out))


def _replace(e, fn):
    """bottom-up rewrite of an expression tree"""
    if not isinstance(e, tuple) or not e:
        return e
    e2 = tuple(_replace(x, fn) if isinstance(x, tuple) else x for x in e)
    r = fn(e2)
    return e2 if r is None else r


def apply_closure(cexpr, args, facts, depth=2):
    """value of calling the closure expression `cexpr` = ('closure', did, captured operands) (possibly behind references)
    with `args`: the closure body's return expression with parameters and captures substituted; None when unknown"""
    c = cexpr
    while isinstance(c, tuple) and c and c[0] in ("ref", "deref"):
        c = c[1]
    if not (isinstance(c, tuple) and c and c[0] == "closure") or c[1] is None:
        return None
    cb = facts.by_did.get(c[1])
    if cb is None:
        return None
    e = return_expr(cb, facts, inline=True, depth=depth)
    if isinstance(e, tuple) and e and e[0] == "unknown":
        return None
    caps = c[2]

    def sub(x):
        if x[0] == "param":
            if x[1] >= 2 and x[1] - 2 < len(args):
                return args[x[1] - 2]
            return None
        if x[0] == "field" and x[1] in (("param", 1), ("deref", ("param", 1))) and str(x[2]).isdigit() and int(x[2]) < len(caps):
            return caps[int(x[2])]
        if x[0] == "deref" and isinstance(x[1], tuple) and x[1] and x[1][0] == "ref":
            return x[1][1]
        return None
    return _replace(e, sub)


_RESULT_OK = {"Ok": 0, "Err": 1, "Some": 1, "None": 0}


def expand_combinators(e, facts, depth=0):
    """Option / Result combinators as guarded alternatives: returns [(value, [relations])] for
    `r.map(f).unwrap_or(d)`, `r.map_or(d, f)`, `r.map(f).unwrap_or_else(g)`, `r.unwrap_or(d)`, `r.ok().map(f)...`, or None.
    The payload is written as the match lowering writes it (variant(r, Ok).0), so both spellings compare equal."""
    if depth > 3 or not (isinstance(e, tuple) and e and e[0] == "call"):
        return None
    nm = e[1].rsplit("::", 1)[-1]
    is_res = "result::Result" in e[1]
    is_opt = "option::Option" in e[1]
    if not (is_res or is_opt):
        return None
    good, bad = ("Ok", "Err") if is_res else ("Some", "None")

    def scrut(r):
        """(scrutinee, payload transformer, scrutinee is a Result) looking through .ok() and one .map(f)"""
        f = None
        res_ = is_res
        while True:
            if isinstance(r, tuple) and r and r[0] == "call" and r[1].rsplit("::", 1)[-1] == "ok" and len(r[2]) == 1 and "result::Result" in r[1]:
                r = r[2][0]
                res_ = True
                continue
            if isinstance(r, tuple) and r and r[0] == "call" and r[1].rsplit("::", 1)[-1] == "map" and len(r[2]) == 2 and f is None \
                    and ("result::Result" in r[1] or "option::Option" in r[1]):
                f = r[2][1]
                res_ = "result::Result" in r[1]
                r = r[2][0]
                continue
            return r, f, res_
    args = e[2]
    if nm in ("unwrap_or", "unwrap_or_else") and len(args) == 2:
        r, f, rres = scrut(args[0])
        g0 = "Ok" if rres else "Some"
        pay = ("field", ("variant", r, g0), "0")
        val = pay if f is None else apply_closure(f, [pay], facts)
        if val is None:
            return None
        if nm == "unwrap_or":
            dv = args[1]
        else:
            dv = apply_closure(args[1], [("field", ("variant", r, "Err"), "0")] if rres and is_res else [], facts)
            if dv is None:
                return None
        return [(val, [("truth", ("discr", r), _RESULT_OK[g0])]), (dv, [("truth", ("discr", r), 1 - _RESULT_OK[g0])])]
    if nm == "map_or" and len(args) == 3:
        r, f0, rres = scrut(args[0])
        if f0 is not None:
            return None
        g0 = "Ok" if rres else "Some"
        pay = ("field", ("variant", r, g0), "0")
        val = apply_closure(args[2], [pay], facts)
        if val is None:
            return None
        return [(val, [("truth", ("discr", r), _RESULT_OK[g0])]), (args[1], [("truth", ("discr", r), 1 - _RESULT_OK[g0])])]
    return None


def first_effect_block(body, start, env=None, limit=40):
    """follow control flow from `start` through blocks that only shuffle compiler temporaries (constant assignments to
    bool locals, storage markers, gotos and switches on those constants) to the first block that does something
    observable (a call, a store through a projection, a return, a switch on unknown data)."""
    env = dict(env or {})
    bi = start
    for _ in range(limit):
        blk = body.blocks[bi]
        transparent = True
        for st in blk["stmts"]:
            if st["k"] in ("dead", "live", "nop"):
                continue
            if st["k"] == "assign" and not st["pl"]["p"] and st["rv"]["k"] == "use":
                op = st["rv"]["op"]
                if op["k"] == "const" and "v" in op:
                    env[st["pl"]["l"]] = op["v"]
                    continue
                if op["k"] in ("copy", "move") and not op["pl"]["p"] and op["pl"]["l"] in env:
                    env[st["pl"]["l"]] = env[op["pl"]["l"]]
                    continue
                if op["k"] == "const":
                    continue            # unit / zero-sized constants
            transparent = False
            break
        if not transparent:
            return bi
        t = blk["term"]
        if t["k"] == "goto":
            bi = t["target"]
            continue
        if t["k"] == "switch" and t["discr"]["k"] in ("copy", "move") and not t["discr"]["pl"]["p"] and t["discr"]["pl"]["l"] in env:
            val = env[t["discr"]["pl"]["l"]]
            nxt = [d for v_, d in t["targets"] if v_ == val]
            bi = nxt[0] if nxt else t["otherwise"]
            continue
        return bi
    return bi


def threaded_successors(body):
    """non-cleanup successors per block, with jumps threaded through constant flags: a block that ends by giving a bool local a literal
    value and joining a `switch` on that local (`let reused = 'l: { ..; true }; if !reused { .. }`) continues, for a forward dataflow,
    at the arm that value selects - the joined state of the other arm never reaches it.  Only blocks that do nothing but shuffle
    such constants are skipped (first_effect_block)."""
    k = "threaded_succ"
    if k in body._cache:
        return body._cache[k]
    cfg = cfg_of(body)
    out = {}
    for bi, blk in enumerate(body.blocks):
        if blk["cleanup"]:
            continue
        env = {}
        for st in blk["stmts"]:
            if st["k"] == "assign" and not st["pl"]["p"]:
                if st["rv"]["k"] == "use" and st["rv"]["op"]["k"] == "const" and "v" in st["rv"]["op"] and body.locals[st["pl"]["l"]]["ty"] == "bool":
                    env[st["pl"]["l"]] = st["rv"]["op"]["v"]
                else:
                    env.pop(st["pl"]["l"], None)
        t = blk["term"]
        if t["k"] == "call" and isinstance(t.get("dest"), dict) and not t["dest"]["p"]:
            env.pop(t["dest"]["l"], None)
        succ = []
        for d in cfg.succ[bi]:
            if body.blocks[d]["cleanup"]:
                continue
            d2 = first_effect_block(body, d, env) if env else d
            if body.blocks[d2]["cleanup"]:
                d2 = d
            if d2 not in succ:
                succ.append(d2)
        out[bi] = succ
    body._cache[k] = out
    return out


def normalize_cmp(c, v):
    """turn (cond_expr, ('eq', value)) into a relation tuple (rel, A, B) with rel in
    {'lt','le','eq','ne'} (A rel B), or ('truth', expr, value). Handles negation of comparisons,
    `Not`, and `Cmp`-less bool tests."""
    is_discr = isinstance(c, tuple) and c and c[0] == "discr"
    if v[0] == "eqint":
        if is_discr:
            return ("truth", c, v[1])
        return ("eq", c, ("const", v[1]))
    if v[0] == "neint":
        if is_discr:
            return ("notin", c, v[1])
        if len(v[1]) == 1:
            return ("ne", c, ("const", v[1][0]))
        return ("notin", c, v[1])
    if v[0] != "eq":
        return ("notin", c, v[1])
    val = v[1]
    if isinstance(c, tuple) and c[0] == "un" and c[1] == "Not":
        return normalize_cmp(c[2], ("eq", 1 - val))
    # `a == b` on pointer-like values (NonNull, raw pointers) is a call of their PartialEq impl, which compares addresses
    if isinstance(c, tuple) and c[0] == "call" and len(c[2]) == 2 and c[1].rsplit("::", 1)[-1] in ("eq", "ne") \
            and any(k in c[1] for k in ("ptr::non_null", "ptr::const_ptr", "ptr::mut_ptr", "NonNull<")):
        a, b = c[2]
        a = a[1] if isinstance(a, tuple) and a and a[0] == "ref" else ("deref", a)
        b = b[1] if isinstance(b, tuple) and b and b[0] == "ref" else ("deref", b)
        same = (val == 1) == (c[1].rsplit("::", 1)[-1] == "eq")
        return ("eq" if same else "ne", a, b)
    if isinstance(c, tuple) and c[0] == "bin" and c[1] in ("Lt", "Le", "Gt", "Ge", "Eq", "Ne"):
        op, a, b = c[1], c[2], c[3]
        if val == 0:
            op = {"Lt": "Ge", "Le": "Gt", "Gt": "Le", "Ge": "Lt", "Eq": "Ne", "Ne": "Eq"}[op]
        if op == "Gt":
            return ("lt", b, a)
        if op == "Ge":
            return ("le", b, a)
        if op == "Lt":
            return ("lt", a, b)
        if op == "Le":
            return ("le", a, b)
        if op == "Eq":
            return ("eq", a, b)
        return ("ne", a, b)
    return ("truth", c, val)


def relations_at(body, bb, facts=None, inline=True):
    rels = [normalize_cmp(c, v) for (_, _, c, v) in guards_at(body, bb, facts, inline)]
    return one_bit_twins(expand_classifiers(body, facts or body.facts, expand_slice_get(expand_ordering(expand_flag_phi(rels)))))


def expand_slice_get(rels):
    """`match s.get(n..)` / `s.get(..n)` / `s.get_mut(..)`: `Some` exactly when n <= s.len() - the arm taken is a bound on n"""
    out = list(rels)
    for r in rels:
        if not r or r[0] not in ("truth", "notin") or not (isinstance(r[1], tuple) and r[1] and r[1][0] == "discr"):
            continue
        c = r[1][1]
        while isinstance(c, tuple) and c and c[0] in ("ref", "deref"):
            c = c[1]
        if not (isinstance(c, tuple) and c and c[0] == "call" and c[1].rsplit("::", 1)[-1] in ("get", "get_mut") and "slice" in c[1] and len(c[2]) == 2):
            continue
        rng = c[2][1]
        if not (isinstance(rng, tuple) and rng and rng[0] == "agg" and isinstance(rng[1], tuple) and any(k in str(rng[1]) for k in ("RangeFrom", "RangeTo")) and "Inclusive" not in str(rng[1]) and len(rng[2]) == 1):
            continue
        n = rng[2][0]
        ln = ("call", "core::slice::<impl [T]>::len", (c[2][0],))
        if r[0] == "truth":
            some = r[2] == 1
        else:
            vals = set(r[2])
            if vals == {0}:
                some = True
            elif vals == {1}:
                some = False
            else:
                continue
        out.append(("le", n, ln) if some else ("lt", ln, n))
    return out


def expand_flag_phi(rels):
    """a bool that is a literal on some paths and a computed test on exactly one other (`a || b` spliced in from a predicate: the flag is
    `true` where a held, `b` elsewhere): knowing the flag to be v rules out the literal alternatives != v, so the remaining test had value v"""
    out = list(rels)
    for r in rels:
        if not r or r[0] != "truth" or not (isinstance(r[1], tuple) and r[1] and r[1][0] == "phi" and len(r[1]) > 2):
            continue
        alts = r[1][1]
        rest = [a for a in alts if not (isinstance(a, tuple) and a and a[0] == "const" and a[1] in (0, 1, True, False))]
        consts = [a for a in alts if a not in rest]
        if len(rest) == 1 and consts and all(int(bool(a[1])) != r[2] for a in consts):
            t = ("truth", rest[0], r[2])
            if t not in out:
                out.append(t)
    return out


def expand_ordering(rels):
    """`match a.cmp(&b) { Less => .., Equal => .., Greater => .. }` on integers: the arm taken is an order fact about a and b"""
    out = list(rels)
    for r in rels:
        if not r or r[0] not in ("truth", "notin") or not (isinstance(r[1], tuple) and r[1] and r[1][0] == "discr"):
            continue
        c = r[1][1]
        while isinstance(c, tuple) and c and c[0] in ("ref", "deref"):
            c = c[1]
        if not (isinstance(c, tuple) and c and c[0] == "call" and c[1].rsplit("::", 1)[-1] == "cmp" and "core::cmp::impls" in c[1] and len(c[2]) == 2):
            continue
        a, b = c[2]
        a = a[1] if isinstance(a, tuple) and a and a[0] == "ref" else ("deref", a)
        b = b[1] if isinstance(b, tuple) and b and b[0] == "ref" else ("deref", b)
        def norm(v):
            return -1 if v in (-1, 255, 0xFFFFFFFFFFFFFFFF, (1 << 128) - 1) else v
        if r[0] == "truth":
            v = norm(r[2])
        else:
            left = {-1, 0, 1} - {norm(x) for x in r[2]}
            if len(left) != 1:
                continue
            v = left.pop()
        if v == 1:
            out.append(("lt", b, a))
        elif v == 0:
            out.append(("eq", a, b))
        elif v == -1:
            out.append(("lt", a, b))
    return out


def one_bit_twins(rels):
    """(x & 1) != c  <=>  (x & 1) == 1 - c : add the equality twin so that rules looking for either spelling find it"""
    out = list(rels)
    for r in rels:
        if r[0] != "ne" or len(r) < 3:
            continue
        for (x, c) in ((r[1], r[2]), (r[2], r[1])):
            cx = canon(x) if isinstance(x, tuple) else x
            cc = canon(c) if isinstance(c, tuple) else c
            if isinstance(cx, tuple) and cx and cx[0] == "bin" and cx[1] == "BitAnd" and isinstance(cc, tuple) and cc and cc[0] == "const" and cc[1] in (0, 1) \
                    and any(isinstance(y, tuple) and y and y[0] == "const" and y[1] == 1 for y in (cx[2], cx[3])):
                t = ("eq", x, ("const", 1 - cc[1]))
                if t not in out:
                    out.append(t)
    return out


def classifier_alternatives(facts, cb, depth=0):
    """for a crate-local function every result of which is a plain enum variant construction (`fn kind(&self) -> Kind`,
    `Parity::of(ptr)`): [(variant path, dval, relations that hold where it is constructed, in the function's parameters)];
    None for any other function"""
    key = "classifier"
    if key in cb._cache:
        return cb._cache[key]
    cb._cache[key] = None
    if cb.kind not in ("fn", "assoc_fn") or len(cb.blocks) > 40 or depth > 1:
        return None
    out = []

    def follow(bi, si, k, pay, d):
        if k != "assign" or d > 4:
            return False
        if pay["k"] == "agg" and pay.get("ak") == "adt" and "dval" in pay:
            rels = [normalize_cmp(c, v) for (_, _, c, v) in guards_at(cb, bi, facts, True)]
            # variants may carry what was classified (`Promotable::Vec(shared)`): the payload, in the function's parameters
            ops = ()
            if pay["ops"]:
                eb_ = ExprBuilder(cb, facts, inline=False)
                ops = tuple(canon(eb_.operand(o, (bi, si))) for o in pay["ops"])
                if any(contains(o, ("unknown", "phi", "icall")) for o in ops):
                    return False
            out.append((pay["adt"] + "::" + pay["variant"], pay["dval"], rels, ops))
            return True
        if pay["k"] == "use" and pay["op"]["k"] in ("copy", "move") and not pay["op"]["pl"]["p"]:
            ds = reaching_defs(cb, pay["op"]["pl"]["l"], (bi, si))
            if not ds or any(x[0] == "entry" for x in ds):
                return False
            return all(follow(x[0], x[1], x[2], x[3], d + 1) for x in ds)
        return False
    ds = [d for d in defs_of(cb).get(0, []) if not cb.blocks[d[0]]["cleanup"]]
    if not ds or not all(follow(d[0], d[1], d[2], d[3], 0) for d in ds):
        return None
    if len(set(x[0] for x in out)) < 2:
        return None
    cb._cache[key] = out
    return out


def expand_classifiers(body, facts, rels):
    """a test on the result of a classifier function (`match self.kind() { Kind::Vec => .. }`, `self.kind() == Kind::Arc`)
    implies what held where that variant was constructed, with the call's arguments substituted for the parameters"""
    out = list(rels)
    for r in rels:
        if not (isinstance(r, tuple) and len(r) >= 3 and isinstance(r[1], tuple) and r[1] and r[1][0] == "discr"):
            continue
        x = r[1][1]
        while isinstance(x, tuple) and x and x[0] in ("ref", "deref"):
            x = x[1]
        if not (isinstance(x, tuple) and x and x[0] == "call"):
            continue
        cands = facts.by_id.get(x[1], [])
        if len(cands) != 1:
            continue
        alts = classifier_alternatives(facts, cands[0])
        if not alts:
            continue
        feas = None
        if r[0] in ("eq", "ne") and isinstance(r[2], tuple) and r[2] and r[2][0] == "discr" and isinstance(r[2][1], tuple) and r[2][1][0] == "agg" \
                and isinstance(r[2][1][1], tuple):
            name = r[2][1][1][1]
            feas = [a for a in alts if (a[0] == name) == (r[0] == "eq")]
        elif r[0] == "truth" and isinstance(r[2], int):
            feas = [a for a in alts if a[1] == r[2]]
        elif r[0] == "eq" and isinstance(r[2], tuple) and r[2] and r[2][0] == "const":
            feas = [a for a in alts if a[1] == r[2][1]]
        elif r[0] == "notin":
            feas = [a for a in alts if a[1] not in r[2]]
        if not feas or len(feas) == len(alts):
            continue
        common = None
        for a in feas:
            sub = [tuple(subst_params(y, x[2]) if isinstance(y, tuple) else y for y in rr) for rr in a[2]]
            common = sub if common is None else [y for y in common if y in sub]
        for y in common or []:
            if y not in out:
                out.append(y)
    return out


# ---------------------------------------------------------------------------------------------
# paths
# ---------------------------------------------------------------------------------------------
def enumerate_paths(body, start=0, limit=20000, skip_diverging=True, follow_unwind=False):
    """acyclic entry->return paths (lists of block indices), tracking boolean locals assigned
    constants so that drop-flag / cfg!(debug_assertions) switches do not create infeasible paths.
    Back edges are taken at most once."""
    cfg = cfg_of(body)
    paths = []
    blocks = body.blocks

    def const_bool_assigns(bi, env):
        for s in blocks[bi]["stmts"]:
            if s["k"] == "assign" and not s["pl"]["p"]:
                l = s["pl"]["l"]
                rv = s["rv"]
                if rv["k"] == "use" and rv["op"]["k"] == "const" and rv["op"].get("ty") == "bool" and "v" in rv["op"]:
                    env[l] = rv["op"]["v"]
                elif rv["k"] == "use" and rv["op"]["k"] in ("copy", "move") and not rv["op"]["pl"]["p"] \
                        and rv["op"]["pl"]["l"] in env:
                    env[l] = env[rv["op"]["pl"]["l"]]
                elif l in env:
                    del env[l]
        t = blocks[bi]["term"]
        if t["k"] == "call" and not t["dest"]["p"]:
            env.pop(t["dest"]["l"], None)

    def rec(bi, path, env, visits):
        if len(paths) >= limit:
            return
        path = path + [bi]
        env = dict(env)
        const_bool_assigns(bi, env)
        t = blocks[bi]["term"]
        k = t["k"]
        if k in ("return", "tailcall"):
            paths.append(path)
            return
        if k == "resume" and follow_unwind:
            paths.append(path)
            return
        succs = list(cfg.succ[bi])
        if k == "switch":
            d = t["discr"]
            if d["k"] in ("copy", "move") and not d["pl"]["p"] and d["pl"]["l"] in env:
                v = env[d["pl"]["l"]]
                tgt = t["otherwise"]
                for val, dst in t["targets"]:
                    if val == v:
                        tgt = dst
                succs = [tgt]
            elif d["k"] == "const" and "v" in d:
                v = d["v"]
                tgt = t["otherwise"]
                for val, dst in t["targets"]:
                    if val == v:
                        tgt = dst
                succs = [tgt]
        if follow_unwind:
            succs = succs + cfg.usucc[bi]
        for s in succs:
            if skip_diverging and not follow_unwind and cfg.diverges(s):
                continue
            c = visits.get(s, 0)
            if c >= 2:
                continue
            if c >= 1 and s in path and path.count(s) >= 2:
                continue
            v2 = dict(visits)
            v2[s] = c + 1
            rec(s, path, env, v2)

    rec(start, [], {}, {start: 1})
    return paths


# ---------------------------------------------------------------------------------------------
# debug-only regions (debug_assert!*): blocks control-dependent on `cfg!(debug_assertions)`
# ---------------------------------------------------------------------------------------------
def debug_regions(body):
    """list of (switch_bb, set(region blocks)) for every `if cfg!(debug_assertions) { .. }` produced by a
    debug_assert*! macro. The region is what the taken edge dominates."""
    r = body._cache.get("dbgregions")
    if r is not None:
        return r
    cfg = cfg_of(body)
    out = []
    for bi, blk in enumerate(body.blocks):
        t = blk["term"]
        if t["k"] != "switch":
            continue
        macros = t["span"].get("macros") or []
        if not any(m.startswith("debug_assert") for m in macros):
            continue
        d = t["discr"]
        # the discriminant is a literal bool (directly or through a local assigned in this block)
        lit = None
        if d["k"] == "const" and "v" in d:
            lit = d["v"]
        elif d["k"] in ("copy", "move") and not d["pl"]["p"]:
            for s in blk["stmts"]:
                if s["k"] == "assign" and s["pl"]["l"] == d["pl"]["l"] and not s["pl"]["p"] and s["rv"]["k"] == "use" \
                        and s["rv"]["op"]["k"] in ("const", "rtc"):
                    lit = s["rv"]["op"].get("v", 1)
        if lit is None:
            continue
        # region = blocks dominated by the successor that is entered when debug assertions are ON
        on_target = t["otherwise"]
        for val, dst in t["targets"]:
            if val == 1:
                on_target = dst
        if t["targets"] and t["targets"][0][0] == 0 and len(t["targets"]) == 1:
            on_target = t["otherwise"]
        region = {b for b in range(cfg.n) if cfg.dominates(on_target, b) and on_target != bi}
        # the join block is reachable from the OFF edge too, so it is not dominated: fine
        out.append((bi, region))
    body._cache["dbgregions"] = out
    return out


def in_debug_region(body, bb):
    return any(bb in reg for _, reg in debug_regions(body))


def stated_preconditions(body, facts):
    """conditions asserted by debug_assert*! in `body`, as relations over its parameters (getter calls
    inlined): the precondition the function states for itself in debug builds"""
    key = "preconds"
    if key in body._cache:
        return body._cache[key]
    cfg = cfg_of(body)
    out = []
    ecs = edge_conditions(body, facts, inline=True)
    for (sw, region) in debug_regions(body):
        for (s, d, c, v) in ecs:
            if s not in region:
                continue
            t = body.blocks[s]["term"]
            if t["k"] != "switch":
                continue
            # the other edge must diverge (panic)
            others = [x for x in cfg.succ[s] if x != d]
            if not others or not all(cfg.diverges(o) for o in others) or cfg.diverges(d):
                continue
            # a disjunction (`a == 1 || a == 2`) shows up as a chain of switches: only an assertion
            # whose test is reached unconditionally inside the region is a precondition by itself
            nested = False
            for s2 in region:
                if s2 != s and body.blocks[s2]["term"]["k"] == "switch" and cfg.dominates(s2, s):
                    nested = True
            if nested:
                continue
            rel0 = normalize_cmp(c, v)
            # an assertion about the result of a classifier (`debug_assert_eq!(self.kind(), Kind::Vec)`) states what
            # that classification means in terms of the parameters
            for rel in one_bit_twins(expand_classifiers(body, facts, [rel0])):
                if rel[0] in ("le", "lt", "eq", "ne", "truth"):
                    ex = [rel[1]] + ([rel[2]] if rel[0] != "truth" else [])
                    if any(contains(x, ("unknown", "phi", "icall", "call", "ucall")) for x in ex):
                        continue
                    if rel[0] == "ne" and any(r2[0] == "eq" and r2[1] == rel[1] for r2 in out + [rel0]):
                        continue
                    if rel not in out:
                        out.append(rel)
    # a checking helper (`self.debug_assert_kind(KIND_VEC)`, `debug_check_pos(pos)`): a crate function that consists of nothing
    # but debug assertions, called unconditionally - its stated preconditions, over the actual arguments, are the caller's
    body._cache[key] = out
    returns = [i for i, b_ in enumerate(body.blocks) if b_["term"]["k"] == "return" and not b_["cleanup"]]
    eb = None
    for bi, t in body.calls():
        if body.blocks[bi]["cleanup"] or in_debug_region(body, bi) or not all(cfg.dominates(bi, r) for r in returns):
            continue
        fn = callee(t)
        r = (fn.get("res") or {}) if fn else {}
        if not r.get("local") or r.get("did") is None:
            continue
        cb = facts.by_did.get(r["did"])
        if cb is None or cb.did == body.did or cb.kind not in ("fn", "assoc_fn") or has_effects(cb) or not debug_regions(cb):
            continue
        regs = set()
        for _, reg in debug_regions(cb):
            regs |= reg
        # outside its debug regions the helper only branches on the debug constant and returns
        plain = [i for i, b_ in enumerate(cb.blocks) if i not in regs and not b_["cleanup"]]
        if any(cb.blocks[i]["term"]["k"] == "call" for i in plain):
            continue
        sub = stated_preconditions(cb, facts)
        if not sub:
            continue
        if eb is None:
            eb = ExprBuilder(body, facts, inline=True)
        args = tuple(eb.operand(a, (bi, len(body.blocks[bi]["stmts"]))) for a in t["args"])
        for rel in sub:
            rr = tuple(canon(subst_params(x, args)) if isinstance(x, tuple) else x for x in rel)
            ex = [rr[1]] + ([rr[2]] if rr[0] != "truth" else [])
            if any(contains(x, ("unknown", "phi", "icall", "ucall")) for x in ex):
                continue
            if rr not in out:
                out.append(rr)
    body._cache[key] = out
    return out
