"""E6 PTR-DIFF-ORDER: a difference of two addresses is taken only as (pointer into a buffer) - (start of that buffer).

`offset_from(dst, original)` is `dst as usize - original as usize`: with overflow checks (debug builds) it panics when
`dst < original`, without them (release builds) it wraps to a huge value.  Code that relies on either outcome behaves
differently per build profile (C16), and a wrapped "offset" that reaches a length or capacity is memory-unsafe (C02).

For every call of a crate function whose result is `(p as usize) - (q as usize)` of two pointer parameters, and every
subtraction of two exposed addresses written inline, the subtrahend must be a *buffer start*:

   x.as_ptr() / x.as_mut_ptr() of a Vec,   the `buf` field of a control block,   the decoded data word
   (`ptr_map(..)`, the result of the address transformer passed to a promotable helper),   or a parameter of a private
   helper for which every caller passes one of these (followed transitively);

or a dominating guard orders the two addresses (`assert!(sub_p >= bytes_p)` in `slice_ref`).  A subtrahend that is itself a
view pointer (`self.ptr`, `other.ptr`, the `ptr` of a vtable slot) can lie on either side of the minuend.
"""
from .base import Result
from .facts import callee
from .flow import ExprBuilder, canon, walk, fmt_expr, return_expr, relations_at
from .r_a6 import strip_ptr
from .logic import is_call, uncast


def is_ptr_ty(t):
    return t.startswith("*const ") or t.startswith("*mut ")


def diff_helpers(facts):
    """did -> (minuend param, subtrahend param) for crate fns returning (param i as usize) - (param j as usize)"""
    out = {}
    for b in facts.fn_bodies():
        if b.kind != "fn" or b.arg_count != 2 or not all(is_ptr_ty(b.locals[i]["ty"]) for i in (1, 2)):
            continue
        e = canon(return_expr(b, facts, inline=False))
        if isinstance(e, tuple) and e and e[0] == "bin" and e[1] in ("Sub", "SubWithOverflow", "SubUnchecked"):
            a, c = uncast(e[2]), uncast(e[3])
            while isinstance(a, tuple) and a and a[0] == "cast":
                a = a[2]
            while isinstance(c, tuple) and c and c[0] == "cast":
                c = c[2]
            if isinstance(a, tuple) and a[0] == "param" and isinstance(c, tuple) and c[0] == "param":
                out[b.did] = (a[1], c[1])
    return out


class E6:
    def __init__(self, facts):
        self.facts = facts
        self.callers = {}
        for b in facts.fn_bodies():
            for bi, t in b.calls():
                fn = callee(t)
                r = (fn.get("res") or {}) if fn else {}
                if r.get("local") and r.get("did") is not None:
                    self.callers.setdefault(r["did"], []).append((b, bi))

    def buffer_start(self, b, e, depth=0):
        """-> reason string if expression e (in body b) denotes the start of a buffer, else None"""
        raw = e
        while isinstance(raw, tuple) and raw and raw[0] in ("ref", "deref", "cast"):
            raw = raw[2] if raw[0] == "cast" else raw[1]
        if isinstance(raw, tuple) and raw and raw[0] == "phi" and len(raw) > 2 and depth < 6:
            # one of several alternatives (`match parity { Even => ptr_map(..), Odd => data.cast() }`): each must be a buffer start
            ws = [self.buffer_start(b, x, depth + 1) for x in raw[1]]
            if ws and all(ws):
                return " / ".join(sorted(set(ws)))
            return None
        e = strip_ptr(canon(e))
        while isinstance(e, tuple) and e and e[0] in ("ref", "deref", "cast"):
            e = e[2] if e[0] == "cast" else e[1]
            e = strip_ptr(e)
        if not isinstance(e, tuple) or not e:
            return None
        if is_call(e, "as_ptr") or is_call(e, "as_mut_ptr"):
            if "NonNull" not in e[1]:
                return "start of %s" % fmt_expr(e[2][0])[:40]
            return None
        if e[0] == "field" and e[2] == "buf":
            return "the control block's buf"
        if e[0] == "call" and e[1].endswith("::load") and "tomic" in e[1] and ("*mut" in e[1] or "AtomicPtr" in e[1]):
            return "the data word (an odd-tagged / untagged buffer pointer loaded from the handle)"
        if e[0] == "param" and b.kind == "closure" and e[1] >= 2 and b.locals[e[1]]["ty"].replace(" ", "") in ("&mut*mut()", "&*mut()", "*mut()"):
            return "the data word (argument of the with_mut closure)"
        if e[0] == "icall":
            return "the decoded data word (address transformer)"
        if is_call(e, "ptr_map"):
            return "the decoded data word (ptr_map)"
        if e[0] in ("call", "ucall") and str(e[1]).rsplit("::", 1)[-1] in ("call_once", "call_mut", "call"):
            return "the decoded data word (address transformer)"
        # a small crate helper that computes the buffer start (`promotable_even_buf(shared)`, `shared_into_raw_parts(shared).0`):
        # look at what it returns, in terms of the arguments it is given
        proj = None
        ce = e
        if e[0] == "field" and len(e) == 3 and isinstance(e[1], tuple) and e[1] and e[1][0] == "call":
            proj, ce = e[2], e[1]
        if ce[0] == "call" and depth < 4:
            cands = self.facts.by_id.get(ce[1], [])
            if len(cands) == 1 and cands[0].kind in ("fn", "assoc_fn") and len(cands[0].blocks) <= 40:
                from .logic import subst
                re_ = return_expr(cands[0], self.facts, inline=False)
                if proj is not None:
                    re_ = canon(re_)
                    idx = int(proj) if str(proj).isdigit() else None
                    if isinstance(re_, tuple) and re_ and re_[0] == "agg" and idx is not None and idx < len(re_[2]):
                        re_ = re_[2][idx]
                    else:
                        re_ = None
                if re_ is not None:
                    args = {i + 1: a for i, a in enumerate(ce[2])}
                    w = self.buffer_start(b, subst(re_, args), depth + 1)
                    if w:
                        return "%s (through %s)" % (w, ce[1].rsplit("::", 1)[-1])
        if e[0] == "param" and depth < 4 and b.kind in ("fn", "assoc_fn"):
            sites = self.callers.get(b.did, [])
            if not sites:
                return None
            why = set()
            for (cb, cbi) in sites:
                t = cb.blocks[cbi]["term"]
                if e[1] - 1 >= len(t["args"]):
                    return None
                eb = ExprBuilder(cb, self.facts, inline=False)
                a = eb.operand(t["args"][e[1] - 1], (cbi, len(cb.blocks[cbi]["stmts"])))
                w = self.buffer_start(cb, a, depth + 1)
                if not w:
                    return None
                why.add(w)
            return "parameter; every caller passes %s" % " / ".join(sorted(why))
        if e[0] == "phi":
            ws = [self.buffer_start(b, x, depth + 1) for x in e[1]]
            if all(ws):
                return " / ".join(sorted(set(ws)))
        return None


def run(facts):
    res = Result("E6", "address differences are taken as (pointer into a buffer) - (start of that buffer), or under a guard that orders the two addresses: "
                       "the subtrahend of every offset_from-style call / inline address subtraction is a Vec start, a control block's buf, the decoded data word, "
                       "or a helper parameter for which all callers pass one of these")
    helpers = diff_helpers(facts)
    e6 = E6(facts)
    n = 0
    for b in facts.fn_bodies():
        if facts.is_test(b) or b.did in helpers:
            continue
        eb = None
        cnt = 0
        for bi, t in b.calls():
            fn = callee(t)
            r = (fn.get("res") or {}) if fn else {}
            if b.blocks[bi]["cleanup"] or not r.get("local") or r.get("did") not in helpers:
                continue
            eb = eb or ExprBuilder(b, facts, inline=False)
            mi, si = helpers[r["did"]]
            loc = (bi, len(b.blocks[bi]["stmts"]))
            d = canon(eb.operand(t["args"][mi - 1], loc))
            o = canon(eb.operand(t["args"][si - 1], loc))
            n += 1
            cnt += 1
            key = "%s|%s%s" % (b.id, fn["name"], "#%d" % cnt if cnt > 1 else "")
            why = e6.buffer_start(b, o)
            if not why:
                # a dominating guard that orders the two addresses
                for rel in relations_at(b, bi, facts, inline=False):
                    if rel[0] in ("le", "lt") and strip_ptr(canon(rel[1])) == strip_ptr(o) and strip_ptr(canon(rel[2])) == strip_ptr(d):
                        why = "guard %s <= %s" % (fmt_expr(o)[:30], fmt_expr(d)[:30])
            if why:
                res.ok(key, b.loc(bi), "subtrahend is %s" % why, nontrivial=True)
            else:
                res.bad(key, b.loc(bi), "%s(%s, %s): the subtrahend is not the start of the buffer the minuend points into and no guard orders the two - "
                                        "when it is the larger address, debug builds panic on the subtraction and release builds wrap" % (
                                            fn["name"], fmt_expr(d)[:50], fmt_expr(o)[:50]))
    res.floor("pointer-difference call sites", n, 5)
    res.floor("pointer-difference helpers", len(helpers), 1)
    return res
