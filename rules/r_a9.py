"""A9 COPYBACK / OFFSET-REAPPLY — (i) a Vec that starts at the *buffer start* but is given the
*view's* length is preceded by a copy of the view to the buffer start; (ii) a handle rebuilt over the
whole buffer (length len + off) is advanced by the same off afterwards on every path."""
from .base import Result, RuleError
from .facts import callee
from .flow import ExprBuilder, cfg_of, canon, walk, fmt_expr, enumerate_paths
from .logic import uncast, is_call
from .r_a6 import strip_ptr


def strip_ref(e):
    while isinstance(e, tuple) and e and e[0] in ("ref", "deref"):
        e = e[1]
    return e


LEN_DEPENDENT = ("len", "is_empty", "truncate", "drain", "extend_from_slice", "push", "pop", "clone", "into_boxed_slice", "resize", "split_off",
                 "as_slice", "as_mut_slice", "deref", "deref_mut", "iter", "iter_mut", "reserve", "reserve_exact", "try_reserve", "shrink_to_fit",
                 "shrink_to", "to_vec", "extend", "insert", "remove", "retain", "dedup", "append", "index", "index_mut", "spare_capacity_mut",
                 "split_at_spare_mut", "as_ref", "as_mut", "borrow", "into_iter", "first", "last", "get", "copy_within", "fill", "extend_from_within")


def shared_vec_root(e):
    """e denotes the Vec<u8> kept inside a control block (its `len` is dead state: the handles carry the length), directly or
    after it was taken out with mem::replace / mem::take"""
    e = strip_ref(e)
    for _ in range(4):
        if isinstance(e, tuple) and e and e[0] == "call" and e[1].rsplit("::", 1)[-1] in ("replace", "take") and e[2]:
            e = strip_ref(e[2][0])
            continue
        break
    return isinstance(e, tuple) and len(e) == 3 and e[0] == "field" and e[2] == "vec" and isinstance(e[1], tuple)


def dead_len(res, facts):
    """(iv) the length of the Vec stored in a control block is never relied upon: the handles carry their own lengths and only
    `reserve_inner` refreshes it (right before it grows the Vec).  Any length-dependent Vec operation on it - truncate, drain, len,
    a slice view, reserve - must be dominated by a `set_len` on the same Vec in the same function."""
    n = 0
    for b in facts.fn_bodies():
        if facts.is_test(b):
            continue
        eb = ExprBuilder(b, facts, inline=True)
        cfg = cfg_of(b)
        sets, uses = [], []
        for bi, t in b.calls():
            if b.blocks[bi]["cleanup"]:
                continue
            fn = callee(t)
            if fn is None or not t["args"]:
                continue
            rp = (fn.get("res") or fn).get("path", "")
            if "Vec" not in rp and "vec" not in rp and "slice" not in rp:
                continue
            recv = canon(eb.operand(t["args"][0], (bi, len(b.blocks[bi]["stmts"]))))
            if not shared_vec_root(recv):
                continue
            R = strip_ref(recv)
            if fn["name"] == "set_len":
                sets.append((bi, R))
            elif fn["name"] in LEN_DEPENDENT:
                uses.append((bi, R, fn["name"]))
        cnt = {}
        for (bi, R, nm) in uses:
            n += 1
            k0 = "%s|shared Vec.%s" % (b.id, nm)
            c = cnt.get(k0, 0)
            cnt[k0] = c + 1
            key = k0 + ("#%d" % c if c else "")
            if any(R2 == R and sb != bi and cfg.dominates(sb, bi) for (sb, R2) in sets):
                res.ok(key, b.loc(bi), "the control block's Vec is given its length (set_len) before `%s` relies on it" % nm, nontrivial=True)
            else:
                res.bad(key, b.loc(bi), "`%s` relies on the length of the Vec stored in the control block, which no handle keeps up to date "
                                        "(only set_len right before growing refreshes it): the bytes a handle appended later are not counted" % nm)
    return n


def judge_view_len(facts, b, only_blocks=None):
    """sites: every Vec::from_raw_parts(B, L, _) / v.set_len(L); when L is a *view* length (the `len` of a slot function, the len field of the
    consumed handle) a copy of the view to the buffer start must dominate.  A site whose L is not a view length demands nothing (emitted with
    skip=True so that a helper's site can be matched in the views of its callers)."""
    out = []
    eb = ExprBuilder(b, facts, inline=True)
    cfg = cfg_of(b)
    calls = []
    for bi, t in b.calls():
        if b.blocks[bi]["cleanup"]:
            continue
        fn = callee(t)
        if fn is None:
            continue
        loc = (bi, len(b.blocks[bi]["stmts"]))
        rp = (fn.get("res") or fn)["path"]
        calls.append((bi, rp, rp.rsplit("::", 1)[-1] if (fn.get("res") or {}).get("via") else fn["name"], [canon(eb.operand(a, loc)) for a in t["args"]], t))
    copies = [(bi, strip_ptr(a[0]), strip_ptr(a[1]), a[2]) for (bi, p, nm, a, t) in calls if nm in ("copy", "copy_nonoverlapping") and p.startswith("core::") and len(a) == 3]
    for (bi, p, nm, a, t) in calls:
        if only_blocks is not None and bi not in only_blocks:
            continue
        site = None
        if p == "alloc::vec::Vec::<T>::from_raw_parts":
            B, L, C = strip_ptr(a[0]), a[1], a[2]
            site = ("from_raw_parts", B, L)
        elif nm == "set_len" and "alloc::vec::Vec" in p:
            V = strip_ref(a[0])
            site = ("set_len", ("call", "alloc::vec::Vec::<T, A>::as_mut_ptr", (("ref", V),)), a[1])
        if site is None:
            continue
        kind, B, L = site
        view_len = (L[0] == "param" and b.locals[L[1]]["ty"] == "usize" and b.safety == "unsafe") or \
                   (isinstance(L, tuple) and L[0] == "field" and L[2] == "len" and strip_ref(L[1])[0] == "param")
        if not view_len:
            out.append({"bi": bi, "j": 0, "ok": True, "skip": True, "kind": kind, "text": "length is not a view length"})
            continue
        ok = False
        for (cbi, src, dst, cn) in copies:
            if not (cfg.dominates(cbi, bi) and cbi != bi):
                continue
            if cn != L:
                continue
            d0 = dst
            same_dst = (d0 == B) or (is_call(d0, "as_mut_ptr") and is_call(B, "as_mut_ptr") and strip_ref(d0[2][0]) == strip_ref(B[2][0]))
            if same_dst:
                ok = True
        out.append({"bi": bi, "j": 0, "ok": ok, "kind": kind, "nontrivial": True,
                    "text": "copy(view ptr -> buffer start, len) dominates giving the Vec the view's length" if ok else
                            "a Vec over the buffer start gets the view's length without a dominating copy of the view to the buffer start: "
                            "wrong bytes whenever the view has a front offset"})
    return out


def run(facts):
    res = Result("A9", "Vec conversions copy the view back to the buffer start before shrinking to the view's length; handles rebuilt over the "
                       "whole buffer re-apply the front offset with the same operand")
    n = 0
    for b in facts.fn_bodies():
        eb = ExprBuilder(b, facts, inline=True)
        cfg = cfg_of(b)
        calls = []
        for bi, t in b.calls():
            if b.blocks[bi]["cleanup"]:
                continue
            fn = callee(t)
            if fn is None:
                continue
            loc = (bi, len(b.blocks[bi]["stmts"]))
            rp = (fn.get("res") or fn)["path"]
            calls.append((bi, rp, rp.rsplit("::", 1)[-1] if (fn.get("res") or {}).get("via") else fn["name"], [canon(eb.operand(a, loc)) for a in t["args"]], t))
        copies = [(bi, strip_ptr(a[0]), strip_ptr(a[1]), a[2]) for (bi, p, nm, a, t) in calls if nm in ("copy", "copy_nonoverlapping") and p.startswith("core::") and len(a) == 3]
        cnt = {}
        # ---- (i) view length on a buffer-start Vec: judged as sites (helpers in the views of their callers, rules/inline.resolve_sites) ----
        if b.kind in ("fn", "assoc_fn", "closure") and not (b.id.endswith("rebuild_vec") or "reserve_inner" in b.id):
            from .inline import resolve_sites
            for x in resolve_sites(facts, b, lambda view, only: judge_view_len(facts, view, only), keep_names=("rebuild_vec", "offset_from")):
                if x.get("skip"):
                    continue
                n += 1
                k0 = "%s|%s(view len)" % (b.id, x["kind"])
                c = cnt.get(k0, 0)
                cnt[k0] = c + 1
                key = k0 + ("#%d" % c if c else "")
                if x["ok"]:
                    res.ok(key, b.loc(x["bi"]), x["text"], nontrivial=True)
                else:
                    res.bad(key, b.loc(x["bi"]), x["text"])
        # ---- (iii) a copy-back of the view to the buffer start is followed by giving the Vec exactly that length ----
        if not (b.id.endswith("rebuild_vec") or "reserve_inner" in b.id):
            for (cbi, src, dst, cn) in copies:
                view_len = (cn[0] == "param" and b.locals[cn[1]]["ty"] == "usize" and b.safety == "unsafe") or \
                           (isinstance(cn, tuple) and cn[0] == "field" and cn[2] == "len" and strip_ref(cn[1])[0] == "param")
                to_start = is_call(dst, "as_mut_ptr") or dst[0] in ("param", "icall", "field") or is_call(dst, "ptr_map") or is_call(dst, "cast")
                if not view_len or not to_start or b.blocks[cbi]["cleanup"]:
                    continue
                # only copies whose destination is a buffer start that then becomes a Vec (not copies into spare capacity)
                if is_call(dst, "add") or is_call(dst, "offset"):
                    continue
                n += 1
                k0 = "%s|copy-back then exact length" % b.id
                c = cnt.get(k0, 0)
                cnt[k0] = c + 1
                key = k0 + ("#%d" % c if c else "")
                ok = False
                for (bi, p, nm, a, t) in calls:
                    if not (cfg.dominates(cbi, bi) and bi != cbi):
                        continue
                    if p == "alloc::vec::Vec::<T>::from_raw_parts" and strip_ptr(a[0]) == dst and a[1] == cn:
                        ok = True
                    if nm == "set_len" and "alloc::vec::Vec" in p and a[1] == cn and is_call(dst, "as_mut_ptr") and strip_ref(dst[2][0]) == strip_ref(a[0]):
                        ok = True
                if ok:
                    res.ok(key, b.loc(cbi), "the Vec over the buffer start gets exactly the copied length (set_len / from_raw_parts)", nontrivial=True)
                else:
                    res.bad(key, b.loc(cbi), "the view is copied to the buffer start but the Vec is not given exactly that length afterwards "
                                             "(set_len(len) / from_raw_parts(buf, len, ..)): the result has the wrong length")
        # ---- (ii) whole-buffer handle + advance(off) -------------------------------------------
        for (bi, p, nm, a, t) in calls:
            vec = None
            off = None
            if p == "alloc::vec::Vec::<T>::from_raw_parts":
                B, L, C = strip_ptr(a[0]), uncast(a[1]), a[2]
                # L = len + off or (off + len) named as cap
                offs = [x for x in walk(L) if is_call(x, "offset_from")]
                if not offs:
                    continue
                off = offs[0]
                vec = "from_raw_parts"
            elif nm == "rebuild_vec" and not b.id.endswith("rebuild_vec") and len(a) >= 4:
                off = a[3]
                vec = "rebuild_vec"
            if vec is None:
                continue
            # does this Vec become a handle (from_vec / into / From<Vec>)?
            becomes = [(cbi, cp) for (cbi, cp, cn, ca, ct) in calls if (cn in ("from_vec", "from") and cfg.dominates(bi, cbi) and cbi != bi
                       and any(is_call(strip_ref(x), "from_raw_parts") or is_call(strip_ref(x), "rebuild_vec") for x in ca))]
            if not becomes:
                continue
            n += 1
            key = "%s|%s -> handle" % (b.id, vec)
            hb = becomes[0][0]
            advs = [(cbi, ca) for (cbi, cp, cn, ca, ct) in calls if cn in ("advance", "advance_unchecked") and cfg.dominates(hb, cbi) and cbi != hb]
            good = [x for x in advs if x[1][1] == off]
            if not good:
                res.bad(key, b.loc(bi), "a handle is rebuilt over the whole buffer (length includes the front offset %s) but is not advanced by that offset afterwards" % fmt_expr(off)[:60])
                continue
            abi = good[0][0]
            missing = False
            for path in enumerate_paths(b):
                if hb in path and abi not in path:
                    missing = True
            if missing:
                res.bad(key, b.loc(bi), "a returning path builds the whole-buffer handle without re-applying the offset")
            else:
                res.ok(key, b.loc(bi), "advance(off) with the same off follows on every path", nontrivial=True)
    res.floor("copyback_and_reoffset_sites", n, 6)
    nd = dead_len(res, facts)
    res.floor("length-dependent uses of a control block's Vec", nd, 1)
    return res
