"""MIR-level inlining of crate-local helper functions (over the exported JSON facts).

`inlined(facts, body, ...)` returns a new Body in which calls to resolved crate-local functions are replaced by the
callee's blocks (locals and blocks renumbered, arguments assigned to the callee's parameter locals, `return` turned into
an assignment to the call's destination followed by a jump to the call's target, unwinding chained to the call's
cleanup block).  Every spliced block carries `origin` (the callee's DefId) and `inl_stack`.

Why: a rule that needs to see a guard, a computation or a field write must not care whether the code sits in the
function itself or in a private helper it calls (`ensure_available(len, cnt)`, `resolve_range_bounds(..)`,
`take_shared_parts(..)`).  Rules keep analysing the original bodies first (stable keys, stable counts) and fall back to
the inlined view of the same function - or, for a site inside a helper, to the inlined views of the helper's callers -
before they report anything.
"""
import copy
from .facts import Body, callee

MAX_BLOCKS = 900


def _remap(x, loff, boff, poff, call_unwind):
    """deep copy of a JSON fragment with locals shifted by loff, blocks by boff, promoted indices by poff"""
    if isinstance(x, list):
        return [_remap(y, loff, boff, poff, call_unwind) for y in x]
    if not isinstance(x, dict):
        return x
    out = {}
    is_place = "l" in x and "p" in x and isinstance(x.get("p"), list)
    for k, v in x.items():
        if k == "l" and isinstance(v, int) and (is_place or x.get("k") in ("dead", "live")):
            out[k] = v + loff
        elif k == "idx" and isinstance(v, int):
            out[k] = v + loff
        elif k == "promoted" and isinstance(v, int) and x.get("k") == "const":
            out[k] = v + poff
        elif k == "span" or k == "fn_span" or k == "fn":
            out[k] = v
        else:
            out[k] = _remap(v, loff, boff, poff, call_unwind)
    return out


def _remap_term(t, loff, boff, poff, call_unwind):
    t = _remap(t, loff, boff, poff, call_unwind)
    k = t["k"]
    if k == "goto":
        t["target"] += boff
    elif k == "switch":
        t["targets"] = [[v, b + boff] for v, b in t["targets"]]
        t["otherwise"] += boff
    elif k in ("drop", "assert", "call"):
        if t.get("target") is not None:
            t["target"] += boff
    if "unwind" in t:
        u = t["unwind"]
        if isinstance(u, int):
            t["unwind"] = u + boff
        elif u == "continue" and isinstance(call_unwind, int):
            t["unwind"] = call_unwind
    return t


def default_pred(facts, caller, cb, fn):
    return keep_pred()(facts, caller, cb, fn)


def _const_generics(x, cmap):
    """replace uses of the callee's const generic parameters by the values the call instantiates them with"""
    if isinstance(x, list):
        return [_const_generics(y, cmap) for y in x]
    if not isinstance(x, dict):
        return x
    if x.get("k") == "const" and "v" not in x and x.get("s") in cmap:
        y = dict(x)
        y["v"] = cmap[x["s"]]
        return y
    out = {}
    for k, v in x.items():
        if k == "n" and isinstance(v, str) and v in cmap and x.get("k") == "repeat":
            out[k] = cmap[v]
        elif k in ("span", "fn_span", "fn"):
            out[k] = v
        else:
            out[k] = _const_generics(v, cmap)
    return out


def _splice(state, bi, cb, arg_assigns, dest, target, cu, cmap=None):
    """append the blocks of `cb` to state, wire block bi into them; arg_assigns = statements that initialise the callee's
    parameter locals, written against callee-local numbering 1.. (they get the offset added here)"""
    blocks, locals_, promoted, vars_ = state["blocks"], state["locals"], state["promoted"], state["vars"]
    blk = blocks[bi]
    t = blk["term"]
    loff, boff = len(locals_), len(blocks)
    poff = max([p["index"] for p in promoted] + [-1]) + 1
    locals_.extend(cb.j["locals"])
    promoted.extend(dict(p, index=p["index"] + poff) for p in cb.j.get("promoted", []))
    for v in cb.j.get("vars", []):
        p = v.get("place")
        if p is not None:
            v2 = dict(v)
            v2["place"] = {"l": p["l"] + loff, "p": p["p"]}
            vars_.append(v2)
    stack = blk["inl_stack"] + [cb.did]
    for ci, cblk in enumerate(cb.j["blocks"]):
        if cmap:
            cblk = _const_generics(cblk, cmap)
        nb = {"cleanup": cblk["cleanup"], "stmts": _remap(cblk["stmts"], loff, boff, poff, cu), "origin": cb.did, "orig_bb": ci, "inl_stack": stack}
        ct = cblk["term"]
        if ct["k"] == "return":
            nb["stmts"] = nb["stmts"] + [{"k": "assign", "pl": dest, "rv": {"k": "use", "op": {"k": "move", "pl": {"l": loff, "p": []}}},
                                          "span": ct["span"], "inl_return": True}]
            nb["term"] = {"k": "goto", "target": target, "span": ct["span"]} if target is not None else {"k": "unreachable", "span": ct["span"]}
        elif ct["k"] == "resume" and isinstance(cu, int):
            nb["term"] = {"k": "goto", "target": cu, "span": ct["span"]}
        else:
            nb["term"] = _remap_term(ct, loff, boff, poff, cu)
        blocks.append(nb)
    for (pl_local, rv) in arg_assigns:
        blk["stmts"].append({"k": "assign", "pl": {"l": loff + pl_local, "p": []}, "rv": rv, "span": t["span"], "inl_arg": True})
    blk["inl_call"] = {"did": cb.did, "id": cb.id, "span": t["span"], "entry": boff}
    blk["term"] = {"k": "goto", "target": boff, "span": t["span"]}
    state["spliced"].append(cb.id)
    return range(boff, len(blocks))


def _direct_pass(facts, body, state, work, depth, pred):
    blocks = state["blocks"]
    changed = False
    while work:
        bi = work.pop(0)
        blk = blocks[bi]
        t = blk["term"]
        if t["k"] != "call" or len(blocks) > MAX_BLOCKS:
            continue
        fn = callee(t)
        if fn is None:
            continue
        r = fn.get("res") or {}
        if not r.get("local") or r.get("did") is None:
            continue
        if r.get("impl_self") in ("&mut T", "alloc::boxed::Box<T>"):
            continue        # generic forwarding impls: the expression builder peels them with the concrete receiver type
        cb = facts.by_did.get(r["did"])
        if cb is None or cb.did in blk["inl_stack"] or len(blk["inl_stack"]) > depth:
            continue
        if cb.arg_count != len(t["args"]) or not pred(facts, body, cb, fn):
            continue
        assigns = [(1 + i, {"k": "use", "op": a}) for i, a in enumerate(t["args"])]
        # const generic arguments of this instantiation (`helper::<.., 8>`)
        cmap = {}
        gen = [g for g in (facts.fns_by_did.get(cb.did) or {}).get("generics", []) if not g.startswith("'")]
        targs = [a for a in (fn.get("args") or []) if not str(a).startswith("'")]
        if gen and len(gen) == len(targs):
            for g, a in zip(gen, targs):
                if str(a).lstrip("-").isdigit():
                    cmap[g] = int(a)
        work.extend(_splice(state, bi, cb, assigns, t["dest"], t.get("target"), t.get("unwind"), cmap or None))
        changed = True
    return changed


FN_TRAITS = ("core::ops::FnOnce::call_once", "core::ops::FnMut::call_mut", "core::ops::Fn::call")


def _closure_pass(facts, body, state, depth):
    """calls of a closure value through FnOnce/FnMut/Fn whose callee is a closure written in this crate and known at this
    point of the (partly inlined) view: `helper(data, |x| ..)` after `helper` was spliced in"""
    from .flow import ExprBuilder
    blocks = state["blocks"]
    tmp = Body(dict(state["j"], blocks=blocks, locals=state["locals"], promoted=state["promoted"], vars=state["vars"]), facts)
    eb = ExprBuilder(tmp, facts, inline=False)
    todo = []
    devirt = []
    for bi, blk in enumerate(blocks):
        t = blk["term"]
        if t["k"] != "call" or blk["cleanup"]:
            continue
        fn = callee(t)
        if fn is None or fn.get("path") not in FN_TRAITS or len(t["args"]) != 2:
            continue
        if len(blk["inl_stack"]) > depth + 1:
            continue
        r = fn.get("res")
        if r is not None:
            # the compiler already resolved the call to a closure of this crate (`(|| ..)()`)
            cb0 = facts.by_did.get(r.get("did")) if r.get("local") else None
            if cb0 is None or cb0.kind != "closure":
                continue
            cdid = cb0.did
        else:
            c = eb.operand(t["args"][0], (bi, len(blk["stmts"])))
            while isinstance(c, tuple) and c and c[0] in ("ref", "deref"):
                c = c[1]
            if isinstance(c, tuple) and c and c[0] == "fn":
                # a named function handed over as the callable (`self.consume(cnt, T::advance)`): the call through FnOnce is a
                # direct call of that function with the argument tuple spread
                if _devirtualize_fn_item(blocks, bi):
                    devirt.append(bi)
                continue
            if not (isinstance(c, tuple) and c and c[0] == "closure" and c[1] is not None):
                continue
            cdid = c[1]
        cb = facts.by_did.get(cdid)
        if cb is None or cb.did in blk["inl_stack"] or len(cb.blocks) > 120:
            continue
        todo.append((bi, cb))
    new_blocks = []
    for bi, cb in todo:
        if len(blocks) > MAX_BLOCKS:
            break
        t = blocks[bi]["term"]
        a0, a1 = t["args"]
        want_ref = cb.locals[1]["ty"].startswith("&")
        assigns = []
        if want_ref and fnpath(t) == "core::ops::FnOnce::call_once" and a0["k"] in ("move", "copy"):
            # a by-reference closure called by value: its body reads the environment through a reference
            assigns.append((1, {"k": "ref", "pl": a0["pl"], "bk": "shared"}))
        else:
            assigns.append((1, {"k": "use", "op": a0}))
        nparams = cb.arg_count - 1
        if nparams and a1["k"] in ("move", "copy"):
            for i in range(nparams):
                assigns.append((2 + i, {"k": "use", "op": {"k": a1["k"], "pl": {"l": a1["pl"]["l"], "p": list(a1["pl"]["p"]) + [{"f": i, "ty": cb.locals[2 + i]["ty"]}]}}}))
        elif nparams:
            continue
        new_blocks.extend(_splice(state, bi, cb, assigns, t["dest"], t.get("target"), t.get("unwind")))
    return list(new_blocks) + devirt


def _devirtualize_fn_item(blocks, bi):
    """rewrite `<F as FnOnce>::call_once(f, (a, b))` in block bi, where f is (a copy of) a function item constant, to `f(a, b)`"""
    t = blocks[bi]["term"]
    a0, a1 = t["args"]
    op = a0
    for _ in range(8):
        if op["k"] == "const":
            break
        if op["k"] not in ("move", "copy") or op["pl"]["p"]:
            return False
        l = op["pl"]["l"]
        ds = [s for blk in blocks if not blk["cleanup"] for s in blk["stmts"] if s["k"] == "assign" and s["pl"]["l"] == l and not s["pl"]["p"]]
        if len(ds) != 1 or ds[0]["rv"]["k"] != "use":
            return False
        op = ds[0]["rv"]["op"]
    if op["k"] != "const" or "fn" not in op:
        return False
    if a1["k"] not in ("move", "copy") or a1["pl"]["p"]:
        return False
    tl = a1["pl"]["l"]
    ds = [s for blk in blocks if not blk["cleanup"] for s in blk["stmts"] if s["k"] == "assign" and s["pl"]["l"] == tl and not s["pl"]["p"]]
    if len(ds) != 1 or ds[0]["rv"]["k"] != "agg" or ds[0]["rv"].get("ak") != "tuple":
        return False
    n = len(ds[0]["rv"]["ops"])
    t["func"] = copy.deepcopy(op)
    t["args"] = [{"k": "move", "pl": {"l": tl, "p": [{"f": i, "ty": "?"}]}} for i in range(n)]
    return True


def fnpath(t):
    fn = callee(t)
    return fn.get("path") if fn else None


def inlined(facts, body, depth=3, pred=None):
    """Body with crate-local callees (and closures passed to them) spliced in (cached per (body, depth, pred))"""
    key = ("inlined", depth, id(pred) if pred else 0)
    if key in body._cache:
        return body._cache[key]
    pred = pred or default_pred
    j = {k: v for k, v in body.j.items() if k not in ("blocks", "locals", "promoted", "vars")}
    blocks = copy.deepcopy(body.j["blocks"])
    for i, b in enumerate(blocks):
        b.setdefault("origin", body.did)
        b.setdefault("orig_bb", i)
        b.setdefault("inl_stack", [body.did])
    state = {"j": j, "blocks": blocks, "locals": list(body.j["locals"]), "promoted": list(body.j.get("promoted", [])),
             "vars": list(body.j.get("vars", [])), "spliced": []}
    work = list(range(len(blocks)))
    for _round in range(4):
        _direct_pass(facts, body, state, work, depth, pred)
        work = _closure_pass(facts, body, state, depth)
        if not work:
            break
    j["blocks"] = blocks
    j["locals"] = state["locals"]
    j["promoted"] = state["promoted"]
    j["vars"] = state["vars"]
    nb = Body(j, facts)
    nb._cache["inlined_from"] = sorted(set(state["spliced"]))
    body._cache[key] = nb
    return nb


_ATOMS = None


def rule_atoms():
    """identifiers that the rule sources mention as string literals. A crate function whose name is among them is
    something a rule anchors on or treats as an atom of its expression language (`offset_from`, `ptr_map`, `clone`,
    `inc_start`, ...) and therefore stays a call in the fallback views; every other crate-local function - in
    particular any helper a refactoring introduces - is inlined."""
    global _ATOMS
    if _ATOMS is None:
        import os, re
        here = os.path.dirname(os.path.abspath(__file__))
        names = set()
        for fn in os.listdir(here):
            if fn.endswith(".py") and fn != "inline.py":
                names.update(re.findall(r"[\"']([a-z_][a-z0-9_]*)[\"']", open(os.path.join(here, fn)).read()))
        _ATOMS = frozenset(names)
    return _ATOMS


def keep_pred(keep_names=(), keep_dids=(), atoms=True):
    """inline every crate-local fn except the ones a rule anchors on (by last path segment or DefId)"""
    keep_names, keep_dids = tuple(keep_names), frozenset(keep_dids)
    k = (keep_names, keep_dids, atoms)
    if k not in _PREDS:
        at = rule_atoms() if atoms else frozenset()
        def anchored(cb, names):
            nm = cb.id.rsplit("::", 1)[-1]
            # an anchor is a name *and* a shape: `rebuild_vec(ptr, len, cap, off)` is what the rules read; a method
            # `self.rebuild_vec(off)` that a refactoring introduces is just another helper, to be looked into
            return nm in names and ANCHOR_ARITY.get(nm, cb.arg_count) == cb.arg_count
        _PREDS[k] = lambda facts, caller, cb, fn: (cb.kind in ("fn", "assoc_fn") and len(cb.blocks) <= 120
                                                   and not anchored(cb, keep_names) and not anchored(cb, at)
                                                   and cb.did not in keep_dids)
    return _PREDS[k]


ANCHOR_ARITY = {"rebuild_vec": 4}


_PREDS = {}


def views(facts, body, keep_names=(), keep_dids=()):
    """the fallback views of a function, most conservative first: helpers inlined except everything any rule mentions by
    name; then helpers inlined except only what the calling rule itself anchors on (a refactoring may give a new helper a
    name that happens to be mentioned somewhere)"""
    seen = []
    for atoms in (True, False):
        v = inlined(facts, body, pred=keep_pred(keep_names, keep_dids, atoms=atoms))
        got = tuple(v._cache.get("inlined_from") or ())
        if got and got not in seen:
            seen.append(got)
            yield v


def sites_in(ibody, origin_did, orig_bb):
    """block indices of an inlined view that are copies of block `orig_bb` of function `origin_did`"""
    return [i for i, blk in enumerate(ibody.blocks) if blk.get("origin") == origin_did and blk.get("orig_bb") == orig_bb]


def callers_of(facts, did):
    """bodies with a resolved call to `did`"""
    idx = facts.__dict__.setdefault("_callers_idx", None)
    if idx is None:
        idx = {}
        for b in facts.fn_bodies():
            for _, t in b.calls():
                fn = callee(t)
                if fn is None:
                    continue
                r = fn.get("res") or {}
                if r.get("local") and r.get("did") is not None:
                    idx.setdefault(r["did"], set()).add(b.did)
        facts.__dict__["_callers_idx"] = idx
    return [facts.by_did[d] for d in sorted(idx.get(did, ())) if d in facts.by_did]


def contexts(facts, body, depth=3, pred=None):
    """the inlined views in which the code of `body` is analysed in context: its (transitive) callers, each with
    `body` spliced in. Empty when nobody in the crate calls it."""
    out = []
    seen = set()
    frontier = [body.did]
    for _ in range(depth):
        nxt = []
        for d in frontier:
            for c in callers_of(facts, d):
                if c.did in seen or c.did == body.did:
                    continue
                seen.add(c.did)
                out.append(inlined(facts, c, depth=depth, pred=pred))
                nxt.append(c.did)
        frontier = nxt
    return [b for b in out if any(blk.get("origin") == body.did for blk in b.blocks)]


def resolve_sites(facts, body, judge, keep_names=(), keep_dids=(), is_entry=None):
    """Site verdicts for `body` with the two fallbacks every site rule shares.

    judge(view, only_blocks) -> [ {bi, j, ok, text, ...} ] judges the sites found in the given blocks of `view`
    (an original body or an inlined view); (bi, j) identifies an obligation within its block.
      (a) a failing site is re-judged in the views of the same function with its crate-local helpers inlined
          (a guard or a computation that moved into a helper is still seen);
      (b) a site that still fails and lives in a non-public function that has crate callers (it *is* the helper) is
          judged in the inlined view of every (transitive) caller and accepted when it holds in all of them.
    Rescued sites get ok=True and an explanatory text."""
    sites = judge(body, None)
    # verdicts that rest on a bare parameter of a non-public helper hold only if they hold for what every caller passes
    dep = [x for x in sites if x["ok"] and x.get("ctx_dep")]
    if dep and body.kind in ("fn", "assoc_fn") and not str(body.vis).startswith("Public") and not (is_entry and is_entry(body)):
        ctxs = contexts(facts, body, pred=keep_pred(keep_names, keep_dids, atoms=True))
        if not ctxs:
            # the helper itself is one of the names the rules mention (it stays a call in the conservative views): splice it anyway
            ctxs = contexts(facts, body, pred=keep_pred(keep_names, keep_dids, atoms=False))
        for cb in ctxs:
            blocks = set()
            for x in dep:
                blocks.update(sites_in(cb, body.did, x["bi"]))
            for y in judge(cb, blocks):
                blk = cb.blocks[y["bi"]]
                for x in dep:
                    if blk.get("origin") == body.did and blk.get("orig_bb") == x["bi"] and y["j"] == x["j"] and not y["ok"] and x["ok"]:
                        x["ok"] = False
                        x["final"] = True           # a context refutes it: nothing to rescue
                        x["text"] = "in the context of %s: %s" % (cb.id.rsplit("::", 1)[-1], y["text"])
    failing = [x for x in sites if not x["ok"] and not x.get("final")]
    if not failing:
        return sites
    for ib in views(facts, body, keep_names, keep_dids):
        still = [x for x in failing if not x["ok"]]
        if not still:
            break
        alt = {(x["bi"], x["j"]): x for x in judge(ib, set(x["bi"] for x in still))}
        for x in still:
            y = alt.get((x["bi"], x["j"]))
            if y is not None and y["ok"]:
                x["ok"], x["text"], x["nontrivial"] = True, y["text"] + " (with helpers inlined)", True
    still = [x for x in failing if not x["ok"]]
    if still and body.kind in ("fn", "assoc_fn") and not str(body.vis).startswith("Public") and not (is_entry and is_entry(body)):
        for atoms in (True, False):
            still = [x for x in failing if not x["ok"]]
            if not still:
                break
            ctxs = contexts(facts, body, pred=keep_pred(keep_names, keep_dids, atoms=atoms))
            per_ctx = []
            for cb in ctxs:
                blocks = set()
                for x in still:
                    blocks.update(sites_in(cb, body.did, x["bi"]))
                per_ctx.append((cb, judge(cb, blocks)))
            for x in still:
                verdicts = []
                for cb, js in per_ctx:
                    for y in js:
                        blk = cb.blocks[y["bi"]]
                        if blk.get("origin") == body.did and blk.get("orig_bb") == x["bi"] and y["j"] == x["j"]:
                            verdicts.append(y)
                if verdicts and all(y["ok"] for y in verdicts):
                    x["ok"], x["nontrivial"] = True, True
                    x["text"] = verdicts[0]["text"] + " (in the context of all %d call chains: %s)" % (
                        len(verdicts), ", ".join(sorted(set(cb.id.rsplit("::", 1)[-1] for cb, _ in per_ctx))[:4]))
    return sites
