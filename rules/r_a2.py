"""A2 REFBAL — exactly-once disposal as a path property (linear-token accounting).

Every function that steps outside rustc's own move/drop discipline (vtable slot functions and their
crate callees, the BytesMut drop/conversion functions, ptr::read duplications, ManuallyDrop'd handles)
is enumerated path by path (acyclic, constant-folded, infeasible tag combinations pruned). Each path
gets an event vector; the vector must be one of the legal ones for the function's role.

events: inc (refcount fetch_add)  rel (call of a release primitive)  teardown (Box::<CB>::from_raw of a
published block)  fresh (same, of a block this path created and failed to publish)  dtor (a control
block destructor runs)  box_free (a control-block box is freed)  buf_own (the byte buffer is taken into
a Vec / deallocated directly)  owner_drop (indirect call of the stored drop fn)  hout (a handle is built
around the *incoming* data pointer: the reference moves into it)  dup (bitwise handle copy)
init:[c] (refcount initial value)  slot:<name> (indirect vtable call)  hdrop (MIR drop of a handle)
"""
from collections import Counter
from .base import Result, RuleError
from .facts import callee
from .flow import ExprBuilder, cfg_of, enumerate_paths, edge_conditions, normalize_cmp, canon, walk, fmt_expr
from . import roles
from .r_b1 import atomic_sites

MAX_VECTORS = 200


def all_control_blocks(facts):
    cbs = dict(roles.control_blocks(facts))
    changed = True
    while changed:
        changed = False
        for path, a in facts.adts.items():
            if path in cbs:
                continue
            for v in a["variants"]:
                for f in v["fields"]:
                    if f["ty"].split("<")[0] in cbs:
                        cbs[path] = "%s.%s" % (f["name"], cbs[f["ty"].split("<")[0]])
                        changed = True
    return cbs


def mints_block(facts, e, depth=0):
    """the expression is (or contains) a pointer to a control block boxed right here: `Box::into_raw(..)`, directly or inside a private constructor
    helper of the crate (`Shared::into_raw(buf, cap, ref_cnt)`)"""
    from .flow import return_expr
    for x in walk(e):
        if not (isinstance(x, tuple) and x and x[0] == "call"):
            continue
        if x[1] == "alloc::boxed::Box::<T>::into_raw":
            return True
        if depth < 2:
            cands = facts.by_id.get(x[1], [])
            if len(cands) == 1 and cands[0].kind in ("fn", "assoc_fn") and str(cands[0].vis) != "Public":
                re_ = return_expr(cands[0], facts, inline=False)
                if any(isinstance(y, tuple) and y and y[0] == "call" and y[1] == "alloc::boxed::Box::<T>::into_raw" for y in walk(re_)) or mints_block(facts, re_, depth + 1) and False:
                    return True
    return False


def ty_head(t):
    return t.split("<")[0].strip()


class A2:
    def __init__(self, facts):
        self.facts = facts
        self.handles = roles.handle_types(facts)
        self.cbs = all_control_blocks(facts)
        self.vts = roles.vtables(facts)
        self.sites = atomic_sites(facts)
        self.release_prims = {s["body"].did for s in self.sites if s["obj"] == "refcount" and s["method"] == "fetch_sub"}
        self.inc_sites = {(s["body"].did, s["bb"]) for s in self.sites if s["obj"] == "refcount" and s["method"] == "fetch_add"}
        # how many references an increment mints: the literal added (anything else counts as "not one": reported through the balance)
        self.inc_amount = {}
        for s in self.sites:
            if s["obj"] == "refcount" and s["method"] == "fetch_add":
                a = canon(s["args"][1]) if len(s["args"]) > 1 else None
                self.inc_amount[(s["body"].did, s["bb"])] = a[1] if isinstance(a, tuple) and a and a[0] == "const" and isinstance(a[1], int) else 2
        self.summ = {}
        self.ret_variants = {}      # did -> {event vector: set of returned variants ("Some", "None", "Ok", "Err", "true", "false", None = unknown)}
        self.path_cache = {}

    def is_cb(self, t):
        return ty_head(t) in self.cbs

    def is_box_cb(self, t):
        return t.startswith("alloc::boxed::Box<") and self.is_cb(t[len("alloc::boxed::Box<"):-1])

    def is_handle(self, t):
        return t in self.handles

    # ---- per-block events ---------------------------------------------------------------------
    def block_events(self, b, bi, eb):
        ev = Counter()
        calls = []
        blk = b.blocks[bi]
        from .flow import in_debug_region
        if in_debug_region(b, bi):
            # evaluated for a debug_assert! only: release builds never run it, so whatever it mints or releases does not count
            # (rule E5 reports effects placed there)
            return ev, calls
        for si, s in enumerate(blk["stmts"]):
            if s["k"] != "assign":
                continue
            rv = s["rv"]
            if rv["k"] == "agg" and rv.get("ak") == "adt" and rv["adt"] in self.handles:
                f = dict(zip(rv["fields"], rv["ops"]))
                d = f.get("data")
                if d is not None:
                    e = eb.operand(d, (bi, si))
                    if self.derives_from_incoming(e, b):
                        ev["hout"] += 1
                    else:
                        ev["hnew"] += 1
            if rv["k"] == "agg" and rv.get("ak") == "adt" and ty_head(rv["adt"]) in self.cbs:
                # a control block that stores the buffer as an owned Vec<u8> takes that Vec over:
                # VEC-mode storage is re-labelled, not disposed (promote_to_shared)
                adt = self.facts.adts.get(rv["adt"])
                if adt and any(f["ty"].startswith("alloc::vec::Vec<u8") for v in adt["variants"] for f in v["fields"]):
                    ev["buf_own"] -= 1
                    ev["cb_new"] += 1
        t = blk["term"]
        if t["k"] == "drop":
            ty = t["ty"]
            if self.is_box_cb(ty):
                ev["dtor"] += 1
                ev["box_free"] += 1
            elif self.is_cb(ty):
                ev["dtor"] += 1
            elif self.is_handle(ty):
                ev["hdrop"] += 1
        if t["k"] != "call":
            return ev, calls
        fn = callee(t)
        loc = (bi, len(blk["stmts"]))
        if fn is None:
            # indirect call: vtable slot or stored fn pointer
            f = eb.operand(t["func"], loc)
            slot = None
            x = f
            while isinstance(x, tuple) and x[0] in ("deref", "ref"):
                x = x[1]
            if isinstance(x, tuple) and x[0] == "field":
                slot = x[2]
            if slot in ("clone", "into_vec", "into_mut", "is_unique", "drop") and any(
                    isinstance(y, tuple) and y[0] == "field" and y[2] == "vtable" for y in walk(f)):
                ev["slot:%s" % slot] += 1
            elif isinstance(x, tuple) and x[0] == "param" and ("fn(" in b.locals[x[1]]["ty"].split("->")[0]) and 1 <= x[1] <= b.arg_count:
                # a slot function handed over by the caller (`unsafe fn consume_with(self, f: unsafe fn(&AtomicPtr<()>, *const u8, usize) -> T)`):
                # which slot it is is known where the helper is called
                ev["slot:param%d" % x[1]] += 1
            elif slot == "drop":
                ev["owner_drop"] += 1
            else:
                # the slot is picked by a closure of the caller (`entry(bytes.vtable)(&bytes.data, ..)` with `entry: impl FnOnce(&Vtable) -> fn`):
                # which slot it is is known where the helper is called
                pk = None
                if isinstance(x, tuple) and x and x[0] in ("call", "ucall") and x[1].rsplit("::", 1)[-1] in ("call_once", "call_mut", "call") and x[2]:
                    c0 = x[2][0]
                    while isinstance(c0, tuple) and c0 and c0[0] in ("ref", "deref"):
                        c0 = c0[1]
                    if isinstance(c0, tuple) and c0 and c0[0] == "param" and 1 <= c0[1] <= b.arg_count and any(
                            isinstance(y, tuple) and y and y[0] == "field" and y[2] == "vtable" for y in walk(x)):
                        pk = c0[1]
                if pk is not None:
                    ev["slot:param%d" % pk] += 1
                else:
                    ev["indirect"] += 1
            return ev, calls
        res = fn.get("res") or fn
        p = res["path"]
        targ0 = (fn.get("args") or [""])[0] if fn.get("args") else ""
        if (b.did, bi) in self.inc_sites:
            ev["inc"] += self.inc_amount.get((b.did, bi), 1)
        elif p == "alloc::boxed::Box::<T>::from_raw" and self.is_cb(targ0):
            a = eb.operand(t["args"][0], loc)
            fresh = mints_block(self.facts, a)
            ev["fresh" if fresh else "teardown"] += 1
        elif p == "<alloc::boxed::Box<T, A> as core::ops::Drop>::drop" and self.is_box_cb(targ0):
            ev["box_free"] += 1
        elif p == "core::mem::drop":
            if self.is_box_cb(targ0):
                ev["dtor"] += 1
                ev["box_free"] += 1
            elif self.is_cb(targ0):
                ev["dtor"] += 1
            elif self.is_handle(targ0):
                ev["hdrop"] += 1
        elif p in ("core::ptr::drop_in_place",) and self.is_cb(targ0):
            ev["dtor"] += 1
        elif p == "alloc::vec::Vec::<T>::from_raw_parts":
            ev["buf_own"] += 1
        elif p.endswith("alloc::dealloc"):
            ev["buf_own"] += 1
        elif p == "core::ptr::read" and self.is_handle(targ0):
            ev["dup"] += 1
        elif p == "core::sync::atomic::Atomic::<usize>::new" or (fn["name"] == "new" and "tomic" in p and "usize" in (res.get("impl_self") or p).lower()):
            a = eb.operand(t["args"][0], loc)
            c = canon(a)
            if isinstance(c, tuple) and c[0] == "const":
                ev["init:%s" % c[1]] += 1
            elif isinstance(c, tuple) and c[0] == "param":
                ev["init:param%d" % c[1]] += 1
            else:
                ev["init:?"] += 1
        elif res.get("local") and res.get("did") is not None:
            cb = self.facts.by_did.get(res["did"])
            if cb is not None:
                if cb.did in self.release_prims:
                    ev["rel"] += 1
                else:
                    args = [canon(eb.operand(a, loc)) for a in t["args"]]
                    calls.append((cb, args))
        return ev, calls

    def closures_under(self, b):
        """closures written in `b` or in a crate-local function `b` calls (a slot function that hands its work to a shared
        private helper whose body is the `with_mut` closure); closures whose creating function is a slot function or a
        release primitive of its own are accounted there"""
        slot_dids = set()
        for slots in self.vts.values():
            for s_ in slots.values():
                if s_:
                    d = s_.get("did") if s_.get("did") is not None else (s_.get("res") or {}).get("did")
                    slot_dids.add(d)
        out, seen, todo = [], set(), [b]
        while todo:
            x = todo.pop()
            if x.did in seen:
                continue
            seen.add(x.did)
            out.extend(c for c in self.facts.children.get(x.did, []) if c.kind == "closure")
            for _, t in x.calls():
                fn = callee(t)
                r = (fn or {}).get("res") or {}
                if r.get("local") and r.get("did") is not None:
                    cb = self.facts.by_did.get(r["did"])
                    if cb is not None and cb.kind in ("fn", "assoc_fn") and cb.did not in slot_dids and cb.did not in self.release_prims:
                        todo.append(cb)
        return out

    def derives_from_incoming(self, e, b):
        """the data operand of a handle aggregate comes from a pointer this function received
        (parameter, load of the data atom, field of self) rather than from a fresh allocation/tag"""
        # a crate-local helper that builds the data word (`vec_data(repr)` = invalid_ptr(repr << .. | KIND_VEC)): look at
        # what it returns, in terms of its arguments
        from .flow import return_expr, subst_params
        for _ in range(3):
            sub = None
            for x in walk(e):
                if x[0] == "call" and x[1] not in ("bytes_mut::invalid_ptr",):
                    cands = self.facts.by_id.get(x[1], [])
                    if len(cands) == 1 and cands[0].kind in ("fn", "assoc_fn") and "unknown" not in str(return_expr(cands[0], self.facts, inline=False))[:40]:
                        r = return_expr(cands[0], self.facts, inline=False)
                        if any(y[0] == "call" and y[1] in ("bytes_mut::invalid_ptr", "core::ptr::null_mut") for y in walk(r)):
                            sub = (x, subst_params(r, x[2]))
                            break
            if sub is None:
                break
            from .flow import _replace
            e = _replace(e, lambda y, s0=sub: s0[1] if y == s0[0] else None)
        for x in walk(e):
            if x[0] == "call" and x[1] in ("alloc::boxed::Box::<T>::into_raw", "bytes_mut::invalid_ptr", "core::ptr::null_mut", "ptr_map"):
                if x[1] == "ptr_map" or x[1] == "alloc::boxed::Box::<T>::into_raw" and False:
                    continue
                if x[1] in ("bytes_mut::invalid_ptr", "core::ptr::null_mut"):
                    return False
        has_fresh = mints_block(self.facts, e)
        if has_fresh:
            return False
        return any(x[0] == "param" for x in walk(e))

    # ---- paths --------------------------------------------------------------------------------
    def feasible(self, b, path, edges):
        """prune paths that require a one-bit tag to be neither 0 nor 1 (or both)"""
        seen = {}
        from .flow import expand_classifiers, one_bit_twins
        expanded = []
        for (s, d) in zip(path, path[1:]):
            r0 = edges.get((s, d))
            if r0 is None:
                continue
            key = ("xrel", s, d)
            if key not in b._cache:
                b._cache[key] = one_bit_twins(expand_classifiers(b, self.facts, [r0]))
            expanded.extend(b._cache[key])
        for r in expanded:
            if r is not None and r[0] == "notin":
                # `match x & 1 { 0 => .., 1 => .., _ => .. }`: the fall-through arm cannot be taken
                x = canon(r[1])
                if isinstance(x, tuple) and x[0] == "bin" and x[1] == "BitAnd" and any(isinstance(y, tuple) and y[0] == "const" and y[1] == 1 for y in (x[2], x[3])) \
                        and {0, 1} <= set(r[2]):
                    return False
            if r is None or r[0] not in ("eq", "ne"):
                continue
            for (x, c) in ((canon(r[1]), canon(r[2])), (canon(r[2]), canon(r[1]))):
                if isinstance(x, tuple) and x[0] == "bin" and x[1] == "BitAnd" and isinstance(c, tuple) and c[0] == "const" and c[1] in (0, 1):
                    val = c[1] if r[0] == "eq" else 1 - c[1]
                    if x in seen and seen[x] != val:
                        return False
                    seen[x] = val
        return True

    def summary(self, b, stack=()):
        """set of event vectors (frozenset of (event, count)) over the feasible returning paths"""
        if b.did in self.summ:
            return self.summ[b.did]
        if b.did in stack:
            raise RuleError("recursion through %s" % b.id)
        eb = ExprBuilder(b, self.facts, inline=False)
        edges = {(s, d): normalize_cmp(c, v) for (s, d, c, v) in edge_conditions(b, self.facts, inline=True)}
        paths = [p for p in enumerate_paths(b, limit=5000) if self.feasible(b, p, edges)]
        if len(paths) >= 5000:
            raise RuleError("path explosion in %s" % b.id)
        bev = {}
        vecs = {}
        rvs = {}
        for path in paths:
            cur = [Counter()]
            for bi in path:
                if bi not in bev:
                    bev[bi] = self.block_events(b, bi, eb)
                ev, calls = bev[bi]
                for c in cur:
                    c.update(ev)
                for (cb, args) in calls:
                    sub = self.summary(cb, stack + (b.did,))
                    # a helper that reports what it did through Option / Result / bool (`take_if_unique() -> Option<Vec>`): the arm the
                    # caller takes on this path selects the helper's paths that return that variant
                    tv = self.ret_variants.get(cb.did) or {}
                    if len(sub) > 1 and tv:
                        arm = taken_variant(b, path, bi)
                        if arm is not None:
                            sel = {sv: pth for sv, pth in sub.items() if not tv.get(sv) or None in tv[sv] or arm in tv[sv]}
                            if sel:
                                sub = sel
                    nxt = []
                    for c in cur:
                        for sv in sub:
                            c2 = Counter(c)
                            for k, n in sv:
                                # a callee's `init:paramN` is resolved with the actual argument
                                if k.startswith("init:param"):
                                    i = int(k[len("init:param"):]) - 1
                                    a = args[i] if i < len(args) else None
                                    if isinstance(a, tuple) and a[0] == "const":
                                        c2["init:%s" % a[1]] += n
                                    elif isinstance(a, tuple) and a[0] == "param":
                                        c2["init:param%d" % a[1]] += n      # handed on from this function's own caller
                                    else:
                                        c2["init:?"] += n
                                elif k.startswith("slot:param"):
                                    i = int(k[len("slot:param"):]) - 1
                                    a = args[i] if i < len(args) else None
                                    name = None
                                    for y in (walk(a) if isinstance(a, tuple) else ()):
                                        if isinstance(y, tuple) and len(y) == 3 and y[0] == "field" and y[2] in ("clone", "into_vec", "into_mut", "is_unique", "drop") \
                                                and any(isinstance(z, tuple) and len(z) == 3 and z[0] == "field" and z[2] == "vtable" for z in walk(y)):
                                            name = y[2]
                                    if name:
                                        c2["slot:%s" % name] += n
                                    elif isinstance(a, tuple) and a[0] == "param":
                                        c2["slot:param%d" % a[1]] += n
                                    else:
                                        c2["indirect"] += n
                                elif k == "hout":
                                    # the callee built a handle around *its* incoming pointer; for the caller this
                                    # moves the reference only if the argument was the caller's incoming pointer
                                    c2["hout"] += n
                                else:
                                    c2[k] += n
                            nxt.append(c2)
                    # dedupe
                    seen = set()
                    cur = []
                    for c in nxt:
                        f = frozenset(c.items())
                        if f not in seen:
                            seen.add(f)
                            cur.append(c)
                    if len(cur) > MAX_VECTORS:
                        raise RuleError("vector explosion in %s" % b.id)
            rv_ = ret_variant(b, path)
            for c in cur:
                f = frozenset((k, n) for k, n in c.items() if n and k not in ("indirect", "cb_new"))
                vecs.setdefault(f, path)
                rvs.setdefault(f, set()).add(rv_)
        self.summ[b.did] = vecs
        self.ret_variants[b.did] = rvs
        # closures: a closure passed to with_mut runs exactly once in the callee
        return vecs


def ret_variant(b, path):
    """the variant / bool constant a path returns, when the last assignment to the return place on the path says so"""
    for bi in reversed(path):
        blk = b.blocks[bi]
        t = blk["term"]
        if t["k"] == "call" and isinstance(t.get("dest"), dict) and t["dest"]["l"] == 0 and not t["dest"]["p"]:
            return None
        for s in reversed(blk["stmts"]):
            if s["k"] != "assign" or s["pl"]["l"] != 0:
                continue
            if s["pl"]["p"]:
                return None
            rv = s["rv"]
            if rv["k"] == "agg" and rv.get("variant"):
                return str(rv["variant"])
            if rv["k"] == "use" and rv["op"]["k"] == "const" and b.locals[0]["ty"] == "bool":
                v = rv["op"].get("val", rv["op"].get("v"))
                return {"true": "true", "false": "false", 1: "true", 0: "false", True: "true", False: "false"}.get(v)
            return None
    return None


VARIANT_OF = {"core::option::Option": {0: "None", 1: "Some"}, "core::result::Result": {0: "Ok", 1: "Err"}}


def taken_variant(b, path, bi):
    """the call in block `bi` returns Option / Result / bool into a local; which variant does the rest of `path` assume? None = not examined"""
    t = b.blocks[bi]["term"]
    d = t.get("dest")
    if not isinstance(d, dict) or d["p"]:
        return None
    ty = b.locals[d["l"]]["ty"]
    names = VARIANT_OF.get(ty.split("<")[0])
    if names is None and ty != "bool":
        return None
    cand = {d["l"]}
    i0 = path.index(bi)
    for j in range(i0 + 1, len(path)):
        blk = b.blocks[path[j]]
        dl = None
        for s in blk["stmts"]:
            if s["k"] != "assign":
                continue
            rv = s["rv"]
            if rv["k"] == "use" and rv["op"]["k"] in ("move", "copy") and not rv["op"]["pl"]["p"] and rv["op"]["pl"]["l"] in cand and not s["pl"]["p"]:
                cand.add(s["pl"]["l"])
            elif rv["k"] == "discr" and not rv["pl"]["p"] and rv["pl"]["l"] in cand and not s["pl"]["p"]:
                dl = s["pl"]["l"]
            elif not s["pl"]["p"] and s["pl"]["l"] in cand:
                cand.discard(s["pl"]["l"])
        tt = blk["term"]
        if tt["k"] == "switch" and j + 1 < len(path) and tt["discr"]["k"] in ("move", "copy") and not tt["discr"]["pl"]["p"]:
            l = tt["discr"]["pl"]["l"]
            vals = [v for v, _ in tt["targets"]]
            hit = [v for v, dst in tt["targets"] if dst == path[j + 1]]
            if (dl is not None and l == dl) or (ty == "bool" and l in cand):
                if hit and path[j + 1] != tt["otherwise"]:
                    v = hit[0]
                elif len(vals) == 1 and vals[0] in (0, 1):
                    v = 1 - vals[0]
                else:
                    return None
                if ty == "bool":
                    return "true" if v else "false"
                return names.get(v)
    return None


def param_slot_consuming(a2, b, pi):
    from .inline import callers_of
    sites = 0
    for cb in callers_of(a2.facts, b.did):
        eb = ExprBuilder(cb, a2.facts, inline=False)
        for bi, t in cb.calls():
            fn = callee(t)
            r = (fn.get("res") or {}) if fn else {}
            if r.get("did") != b.did or pi - 1 >= len(t["args"]):
                continue
            sites += 1
            a = canon(eb.operand(t["args"][pi - 1], (bi, len(cb.blocks[bi]["stmts"]))))
            if isinstance(a, tuple) and a and a[0] == "closure":
                # `|vtable| vtable.into_mut`: what the closure returns
                from .flow import return_expr
                clb = a2.facts.by_did.get(a[1])
                if clb is None:
                    return False
                ra = canon(return_expr(clb, a2.facts, inline=False))
                names = [y[2] for y in walk(ra) if isinstance(y, tuple) and len(y) == 3 and y[0] == "field" and y[2] in ("clone", "into_vec", "into_mut", "is_unique", "drop")]
                if len(names) != 1 or names[0] not in ("into_vec", "into_mut", "drop"):
                    return False
                continue
            names = [y[2] for y in walk(a) if isinstance(y, tuple) and len(y) == 3 and y[0] == "field" and y[2] in ("clone", "into_vec", "into_mut", "is_unique", "drop")
                     and any(isinstance(z, tuple) and len(z) == 3 and z[0] == "field" and z[2] == "vtable" for z in walk(y))]
            if len(names) != 1 or names[0] not in ("into_vec", "into_mut", "drop"):
                return False
    return sites > 0


def vec_str(v):
    return "{" + ", ".join("%s=%d" % (k, n) for k, n in sorted(v)) + "}"


def get(v, k):
    for kk, n in v:
        if kk == k:
            return n
    return 0


def inits(v):
    return sorted(k[5:] for k, n in v if k.startswith("init:") for _ in range(n))


def structural(v):
    """invariants that hold on every path of every function"""
    probs = []
    td, fr = get(v, "teardown"), get(v, "fresh")
    if get(v, "box_free") != td + fr + (get(v, "dtor_only_box") or 0):
        # every re-boxed control block is freed exactly once; a deep drop of Box<CB> counts as dtor+box_free
        if get(v, "box_free") != td + fr:
            probs.append("re-boxed control blocks: %d, boxes freed: %d (each must be freed exactly once)" % (td + fr, get(v, "box_free")))
    if fr and get(v, "dtor") > td:
        probs.append("the destructor of a never-published control block runs (it would free a buffer it does not own)")
    if td:
        # the buffer of a torn-down block goes exactly one way: destructor, or taken into a Vec
        if get(v, "dtor") + get(v, "buf_own") + get(v, "owner_drop") != td:
            probs.append("control block torn down %d time(s) but its buffer is released %d time(s) (destructor=%d, taken=%d)" % (
                td, get(v, "dtor") + get(v, "buf_own"), get(v, "dtor"), get(v, "buf_own")))
    return probs


def disposals(v):
    td = get(v, "teardown")
    return get(v, "rel") + td + (get(v, "buf_own") if td == 0 else 0) + get(v, "hout") + get(v, "owner_drop")


def run(facts):
    res = Result("A2", "on every CFG path of every vtable / drop / conversion / duplication function the handle's reference is "
                       "disposed exactly once (or minted exactly once for clone); initial counts match the number of handles")
    a2 = A2(facts)
    n_paths = 0
    role_fns = []
    # --- vtable slot functions -------------------------------------------------------------------
    for vt, slots in sorted(a2.vts.items()):
        fam_vecs = {}
        for sn, s in slots.items():
            if not s:
                res.bad("%s.%s" % (vt, sn), "-", "slot is not bound to a function")
                continue
            d = s.get("did") if s.get("did") is not None else (s.get("res") or {}).get("did")
            b = facts.by_did.get(d)
            if b is None:
                res.bad("%s.%s" % (vt, sn), "-", "slot function has no MIR body")
                continue
            # a slot function whose body is a with_mut closure: analyse closure inline (summary of closure)
            vecs = dict(a2.summary(b))
            for c in a2.closures_under(b):
                if c.kind == "closure":
                    cv = a2.summary(c)
                    merged = {}
                    for v1, p1 in vecs.items():
                        for v2, p2 in cv.items():
                            cc = Counter(dict(v1))
                            cc.update(dict(v2))
                            merged[frozenset(cc.items())] = p1
                    vecs = merged
            fam_vecs[sn] = (b, vecs)
        owns_nothing = all(disposals(v) == 0 and get(v, "inc") == 0 and not inits(v)
                           for sn, (b, vecs) in fam_vecs.items() if sn in ("drop", "into_vec", "into_mut", "clone") for v in vecs)
        for sn, (b, vecs) in sorted(fam_vecs.items()):
            for v, path in vecs.items():
                n_paths += 1
                key = "%s.%s|%s" % (vt, sn, vec_str(v))
                loc = b.loc()
                probs = structural(v)
                if sn == "clone":
                    ok_static = owns_nothing
                    if get(v, "rel") or get(v, "teardown") or get(v, "buf_own") or get(v, "owner_drop") or get(v, "dtor"):
                        probs.append("clone disposes of something")
                    # on the losing path the count of 2 belongs to the block that is freed unpublished
                    minted = get(v, "inc") + (1 if (inits(v) == ["2"] and not get(v, "fresh")) else 0)
                    if inits(v) not in ([], ["2"]):
                        probs.append("clone initialises a count of %s (must be 2: the existing handle and the new one)" % inits(v))
                    if not ok_static and minted != 1:
                        probs.append("clone mints %d references (must be exactly 1)" % minted)
                    if not ok_static and get(v, "inc") and get(v, "hout") < 1:
                        probs.append("clone increments the count but the handle it returns does not carry the incoming control block (%s): the minted reference is "
                                     "never given back" % vec_str(v))
                    if get(v, "fresh") and not (get(v, "inc") == 1 and get(v, "dtor") == 0):
                        probs.append("losing the publication race must free only its own block and increment the winner's count")
                elif sn in ("drop", "into_vec", "into_mut"):
                    d = disposals(v)
                    if get(v, "inc") or inits(v) not in ([],):
                        # into_mut of an owned family builds a fresh Vec-backed handle: no counts involved
                        if get(v, "inc"):
                            probs.append("consuming function increments a count")
                    if owns_nothing:
                        if d != 0:
                            probs.append("family owns no storage but disposes %d" % d)
                    elif d != 1:
                        probs.append("disposes of the handle's reference %d time(s) on this path (must be exactly once)" % d)
                elif sn == "is_unique":
                    if disposals(v) or get(v, "inc") or get(v, "dtor"):
                        probs.append("is_unique has an ownership effect")
                if probs:
                    res.bad(key, loc, "; ".join(probs), path="bb" + "->bb".join(str(x) for x in path))
                else:
                    res.ok(key, loc, "legal vector for role %s" % sn, nontrivial=True)
    # --- release primitives ----------------------------------------------------------------------
    for d in sorted(a2.release_prims):
        b = facts.by_did[d]
        for v, path in a2.summary(b).items():
            n_paths += 1
            key = "%s|%s" % (b.id, vec_str(v))
            probs = structural(v)
            td = get(v, "teardown") + get(v, "owner_drop")
            if td not in (0, 1):
                probs.append("frees %d times" % td)
            if get(v, "teardown") and get(v, "dtor") != 1:
                probs.append("last reference must run the control block destructor exactly once")
            if probs:
                res.bad(key, b.loc(), "; ".join(probs))
            else:
                res.ok(key, b.loc(), "release primitive: frees on the last-reference path only", nontrivial=True)
    # --- functions that duplicate a handle bitwise / wrap one in ManuallyDrop / drop glue ----------
    for b in facts.fn_bodies():
        if b.kind == "closure":
            continue
        md = False
        dup = False
        writes_data = False
        for bi, t in b.calls():
            fn = callee(t)
            if fn is None:
                continue
            p = (fn.get("res") or fn)["path"]
            a0 = (fn.get("args") or [""])[0] if fn.get("args") else ""
            if p in ("core::mem::ManuallyDrop::<T>::new", "core::mem::forget") and a0 in a2.handles:
                md = True           # `mem::forget(handle)` suppresses the drop just as ManuallyDrop does: the reference must go somewhere else on that path
            if p == "core::ptr::read" and a0 in a2.handles:
                dup = True
        im = facts.impl_of(b)
        is_drop = bool(im and im.get("trait") == "core::ops::Drop" and im["self_ty"] in a2.handles and b.id.endswith("::drop"))
        if not (md or dup or is_drop):
            continue
        vecs = a2.summary(b)
        for v, path in vecs.items():
            n_paths += 1
            key = "%s|%s" % (b.id, vec_str(v))
            probs = structural(v)
            slot_consume = get(v, "slot:into_vec") + get(v, "slot:into_mut") + get(v, "slot:drop")
            for (k_, n_) in v:
                if k_.startswith("slot:param") and n_:
                    # the slot function is the caller's choice: it consumes the handle if every caller hands over a consuming slot of a vtable
                    if param_slot_consuming(a2, b, int(k_[len("slot:param"):])):
                        slot_consume += n_
            if dup:
                paid = get(v, "inc") + sum(1 for i in inits(v) if i == "2")
                if get(v, "dup") != paid:
                    probs.append("%d bitwise handle copies but %d references minted (inc=%d, init=%s)" % (get(v, "dup"), paid, get(v, "inc"), inits(v)))
            if md or is_drop:
                d = disposals(v) + slot_consume + (get(v, "hdrop") if md else 0)
                if d != 1:
                    probs.append("the handle's reference is disposed %d time(s) on this path (must be exactly once): %s" % (d, vec_str(v)))
            if probs:
                res.bad(key, b.loc(), "; ".join(probs), path="bb" + "->bb".join(str(x) for x in path))
            else:
                res.ok(key, b.loc(), "balanced (%s)" % ("duplication" if dup else "ManuallyDrop / drop"), nontrivial=True)
    # --- by-value handle parameters: storage taken by raw means must not also be dropped -------------
    for b in facts.fn_bodies():
        if b.kind == "closure":
            continue
        hp = [i for i in range(1, b.arg_count + 1) if b.locals[i]["ty"] in a2.handles]
        if not hp:
            continue
        eb = ExprBuilder(b, facts, inline=False)

        def field_of_param(e):
            for x in walk(e):
                if x[0] == "field" and x[2] in ("ptr", "len", "cap", "data"):
                    r = x[1]
                    while isinstance(r, tuple) and r[0] in ("deref", "ref"):
                        r = r[1]
                    if r[0] == "param" and r[1] in hp:
                        return True
            return False
        # locals that hold the by-value handle (moved around)
        alias = set(hp)
        changed = True
        while changed:
            changed = False
            for blk in b.blocks:
                for st in blk["stmts"]:
                    if st["k"] == "assign" and not st["pl"]["p"] and st["rv"]["k"] == "use" and st["rv"]["op"]["k"] in ("move", "copy") \
                            and not st["rv"]["op"]["pl"]["p"] and st["rv"]["op"]["pl"]["l"] in alias and st["pl"]["l"] not in alias:
                        alias.add(st["pl"]["l"])
                        changed = True
        raw_blocks = {}
        for bi, blk in enumerate(b.blocks):
            if blk["cleanup"]:
                continue
            for si, st in enumerate(blk["stmts"]):
                if st["k"] == "assign" and st["rv"]["k"] == "agg" and st["rv"].get("adt") in a2.handles:
                    if any(field_of_param(eb.operand(o, (bi, si))) for o in st["rv"]["ops"]):
                        raw_blocks[bi] = "handle rebuilt from its fields"
            t = blk["term"]
            if t["k"] != "call":
                continue
            fn = callee(t)
            if fn is None:
                # a consuming vtable slot called on the fields of the by-value handle (directly, or picked by the caller's closure / fn pointer)
                ev_, _ = a2.block_events(b, bi, eb)
                loc = (bi, len(blk["stmts"]))
                if any(field_of_param(eb.operand(a, loc)) for a in t["args"]):
                    for k_, n_ in ev_.items():
                        if n_ and (k_ in ("slot:into_vec", "slot:into_mut", "slot:drop") or (k_.startswith("slot:param") and param_slot_consuming(a2, b, int(k_[len("slot:param"):])))):
                            raw_blocks[bi] = "consuming vtable slot"
                continue
            r = fn.get("res") or fn
            loc = (bi, len(blk["stmts"]))
            args = [eb.operand(a, loc) for a in t["args"]]
            if not any(field_of_param(a) for a in args):
                continue
            if r["path"] == "alloc::vec::Vec::<T>::from_raw_parts":
                raw_blocks[bi] = "Vec::from_raw_parts"
            elif r.get("local") and r.get("did") is not None:
                cb = facts.by_did.get(r["did"])
                if cb is not None and (cb.did in a2.release_prims or any(
                        get(v, "rel") + get(v, "teardown") + get(v, "buf_own") + get(v, "hout") > 0 for v in a2.summary(cb))):
                    raw_blocks[bi] = cb.id.rsplit("::", 1)[-1]
        if not raw_blocks:
            continue
        n_paths += 1
        bad = None
        for path in enumerate_paths(b, limit=5000):
            raws = [raw_blocks[x] for x in path if x in raw_blocks]
            drops = [x for x in path if b.blocks[x]["term"]["k"] == "drop" and b.blocks[x]["term"]["ty"] in a2.handles
                     and b.blocks[x]["term"]["pl"]["l"] in alias]
            if raws and drops:
                bad = (path, raws)
                break
        key = "%s|by-value handle" % b.id
        if bad:
            res.bad(key, b.loc(), "a handle received by value is dropped on a path that already took its storage apart by raw means (%s): "
                                  "missing ManuallyDrop / mem::forget" % ", ".join(bad[1]), path="bb" + "->bb".join(str(x) for x in bad[0]))
        else:
            res.ok(key, b.loc(), "raw disposal (%s) never followed by a drop of the same parameter" % ", ".join(sorted(set(raw_blocks.values()))), nontrivial=True)
    # --- handles behind `&mut`: a reference released by hand must not be released again by an in-place drop ----------------------
    # (`release_shared(shared); *self = BytesMut::from_vec(v)`: the assignment drops the old value of `*self`, whose Drop releases once more)
    for b in facts.fn_bodies():
        if b.kind == "closure" or b.arg_count < 1 or facts.is_test(b):
            continue
        ty1 = b.locals[1]["ty"]
        if not (ty1.startswith("&") and "mut " in ty1 and ty1.split("mut ", 1)[1].strip() in a2.handles):
            continue
        eb = ExprBuilder(b, facts, inline=False)

        def of_self(e):
            for x in walk(e):
                if x[0] == "field" and x[2] in ("data",):
                    r = x[1]
                    while isinstance(r, tuple) and r[0] in ("deref", "ref"):
                        r = r[1]
                    if r == ("param", 1):
                        return True
            return False
        rel_blocks, drop_blocks = {}, []
        for bi, blk in enumerate(b.blocks):
            if blk["cleanup"]:
                continue
            t = blk["term"]
            if t["k"] == "drop" and t["pl"]["l"] == 1 and t["pl"]["p"] == ["*"] and t["ty"] in a2.handles:
                drop_blocks.append(bi)
            if t["k"] != "call":
                continue
            fn = callee(t)
            if fn is None:
                continue
            r = fn.get("res") or fn
            loc = (bi, len(blk["stmts"]))
            if r.get("local") and r.get("did") is not None:
                cb = facts.by_did.get(r["did"])
                if cb is not None and cb.did in a2.release_prims and any(of_self(eb.operand(a, loc)) for a in t["args"]):
                    rel_blocks[bi] = cb.id.rsplit("::", 1)[-1]
        if not rel_blocks:
            continue
        n_paths += 1
        key = "%s|released by hand" % b.id
        bad = None
        if drop_blocks:
            for path in enumerate_paths(b, limit=5000):
                rs = [x for x in path if x in rel_blocks]
                ds = [x for x in path if x in drop_blocks and rs and path.index(x) > path.index(rs[0])]
                if rs and ds:
                    bad = path
                    break
        # .. and the handle must not keep pointing at the control block it gave up: a later store to `self.data` (or a whole new value) follows
        im_ = facts.impl_of(b)
        is_drop_ = bool(im_ and im_.get("trait") == "core::ops::Drop")
        if not bad and not is_drop_:
            stores = set()
            for bi, blk in enumerate(b.blocks):
                for s_ in blk["stmts"]:
                    if s_["k"] == "assign" and s_["pl"]["l"] == 1 and len(s_["pl"]["p"]) >= 1 and s_["pl"]["p"][0] == "*" and (
                            len(s_["pl"]["p"]) == 1 or (isinstance(s_["pl"]["p"][1], dict) and str(s_["pl"]["p"][1].get("n")) == "data")):
                        stores.add(bi)
            for bi, t_ in b.calls():
                fn_ = callee(t_)
                if fn_ and fn_["name"] in ("write", "replace", "swap") and t_["args"] and ("ptr" in (fn_.get("res") or fn_).get("path", "") or "mem" in (fn_.get("res") or fn_).get("path", "")):
                    e_ = canon(eb.operand(t_["args"][0], (bi, len(b.blocks[bi]["stmts"]))))
                    while isinstance(e_, tuple) and e_ and e_[0] in ("ref", "deref"):
                        e_ = e_[1]
                    if e_ == ("param", 1):
                        stores.add(bi)
            for path in enumerate_paths(b, limit=5000):
                rs = [x for x in path if x in rel_blocks]
                if rs and not any(x in stores and path.index(x) >= path.index(rs[0]) for x in path):
                    res.bad(key, b.loc(), "a path releases the handle's reference by hand (%s) and returns with `self.data` still pointing at the control block it gave up: "
                                          "the handle's own Drop releases it a second time" % ", ".join(sorted(set(rel_blocks.values()))), path="bb" + "->bb".join(str(x) for x in path))
                    bad = "reported"
                    break
        if bad == "reported":
            pass
        elif bad:
            res.bad(key, b.loc(), "a path releases the handle's reference by hand (%s) and then drops the handle in place (`*self = ..`), whose Drop releases "
                                  "it a second time" % ", ".join(sorted(set(rel_blocks.values()))), path="bb" + "->bb".join(str(x) for x in bad))
        else:
            res.ok(key, b.loc(), "%s by hand; the handle is re-pointed field by field, never dropped in place afterwards" % ", ".join(sorted(set(rel_blocks.values()))), nontrivial=True)
    # --- initial counts ----------------------------------------------------------------------------
    for b in facts.fn_bodies():
        if b.kind == "closure" or b.did in a2.release_prims:
            continue
        own_init = False
        for bi, t in b.calls():
            fn = callee(t)
            if fn and fn["name"] == "new" and "tomic" in (fn.get("res") or fn)["path"] and "usize" in ((fn.get("res") or fn).get("full", "")).lower():
                own_init = True
        # a helper that only builds the control block (or its header: `OwnedLifetime::new::<T>()`) and hands it back by value mints no handle
        # itself: the count is judged in the function that wraps a handle around the block - its callers, whose summaries include the helper's
        def block_ty(t_):
            t_ = str(t_)
            for pre in ("*mut ", "*const ", "alloc::boxed::Box<", "core::ptr::NonNull<"):
                if t_.startswith(pre):
                    t_ = t_[len(pre):]
            return ty_head(t_.rstrip(">"))
        out_ty = str(b.j.get("output") or b.locals[0]["ty"])
        builds_block_only = own_init and b.kind in ("fn", "assoc_fn") and str(b.vis) != "Public" and block_ty(out_ty) in a2.cbs and out_ty not in a2.handles
        if not own_init:
            for bi, t in b.calls():
                fn = callee(t)
                r_ = (fn.get("res") or fn) if fn else {}
                cb_ = facts.by_did.get(r_.get("did")) if r_.get("local") else None
                if cb_ is not None and cb_.kind in ("fn", "assoc_fn") and str(cb_.vis) != "Public" and block_ty(cb_.j.get("output") or cb_.locals[0]["ty"]) in a2.cbs \
                        and any(inits(v) for v in a2.summary(cb_)):
                    own_init = True
        if not own_init or builds_block_only:
            continue
        for v, path in a2.summary(b).items():
            ii = inits(v)
            if not ii:
                continue
            n_paths += 1
            key = "%s|init=%s|%s" % (b.id, ",".join(ii), vec_str(v))
            handles = get(v, "hnew") + get(v, "hout")
            ok = False
            how = ""
            if ii == ["1"] and handles == 1:
                ok, how = True, "count 1 for the one handle returned"
            elif ii == ["2"] and handles == 1 and get(v, "fresh") == 0 and any(
                    s_["body"].did == b.did and s_["method"].startswith("compare_exchange") for s_ in a2.sites):
                ok, how = True, "count 2: the existing handle and the one returned (published by CAS)"
            elif ii == ["2"] and get(v, "fresh") == 1 and get(v, "inc") == 1:
                ok, how = True, "count 2 on a block that lost the race and was freed unpublished"
            elif len(ii) == 1 and ii[0].startswith("param"):
                ok, how = True, "count is a parameter: checked at the callers (dup rule)"
            if ok:
                res.ok(key, b.loc(), how)
            else:
                res.bad(key, b.loc(), "initial count %s does not match the %d handle(s) that reference the block when the function returns" % (ii, handles))
    # --- counts passed down to a promoting helper: k = 1 + number of bitwise copies on the path ----
    for b in facts.fn_bodies():
        if b.kind == "closure":
            continue
        lexical_init = any(fn and fn["name"] == "new" and "tomic" in (fn.get("res") or fn)["path"] for fn in (callee(t) for _, t in b.calls()))
        if lexical_init:
            continue
        # only direct callers of a function whose count is a parameter
        direct = False
        for bi, t in b.calls():
            fn = callee(t)
            if fn and (fn.get("res") or fn).get("local"):
                cb = facts.by_did.get((fn.get("res") or fn).get("did"))
                if cb is not None and any(k.startswith("init:param") for v in a2.summary(cb) for k, n in v):
                    direct = True
        if not direct:
            continue
        for v, path in a2.summary(b).items():
            ii = inits(v)
            if not ii:
                continue
            if all(x.startswith("param") for x in ii):
                continue            # hands its own parameter on: decided at this function's callers
            n_paths += 1
            key = "%s|passes count %s|%s" % (b.id, ",".join(ii), vec_str(v))
            want = str(1 + get(v, "dup"))
            if ii == [want]:
                res.ok(key, b.loc(), "promotes with count %s = 1 + %d bitwise handle copies" % (want, get(v, "dup")), nontrivial=True)
            else:
                res.bad(key, b.loc(), "promotes the buffer to shared with count %s but %d handle(s) will reference it (self + %d copies)" % (ii, 1 + get(v, "dup"), get(v, "dup")))
    # --- A1: who may call which vtable slot ----------------------------------------------------------
    n_slot_calls = 0
    for b in facts.fn_bodies():
        vecs = a2.summary(b) if any(callee(t) is None for _, t in b.calls()) else {}
        kinds = set(k for v in vecs for k, n in v if k.startswith("slot:"))
        if not kinds:
            continue
        im = facts.impl_of(b)
        trait = im.get("trait") if im else None
        self_ty = im["self_ty"] if im else None
        has_md = any((callee(t) or {}).get("path") == "core::mem::ManuallyDrop::<T>::new" for _, t in b.calls())
        for k in sorted(kinds):
            # only the function that performs the indirect call itself
            own = False
            eb = ExprBuilder(b, facts, inline=False)
            for bi, t in b.calls():
                if callee(t) is None:
                    ev, _ = a2.block_events(b, bi, eb)
                    if ev.get(k):
                        own = True
            if not own:
                continue
            n_slot_calls += 1
            key = "%s|%s" % (b.id, k)
            slot = k[5:]
            probs = []
            if slot == "clone" and not (trait == "core::clone::Clone" and self_ty in a2.handles):
                probs.append("the clone slot may only be called from <handle as Clone>::clone")
            if slot == "drop" and not (trait == "core::ops::Drop" and self_ty in a2.handles):
                probs.append("the drop slot may only be called from <handle as Drop>::drop")
            if slot in ("into_vec", "into_mut"):
                if not has_md:
                    probs.append("a consuming slot is called on a handle that is not wrapped in ManuallyDrop (it would be dropped again)")
                for v in vecs:
                    if get(v, k) > 1 or (get(v, k) and get(v, "hdrop")):
                        probs.append("path calls the consuming slot %d time(s) and drops %d handle(s)" % (get(v, k), get(v, "hdrop")))
            if probs:
                res.bad(key, b.loc(), "; ".join(probs))
            else:
                res.ok(key, b.loc(), "slot called from its only legitimate caller")
    res.floor("slot_call_sites", n_slot_calls, 5)
    # --- re-tagging a BytesMut from shared to inline-Vec storage releases the shared reference first ---
    for b in facts.fn_bodies():
        if b.kind == "closure":
            continue
        eb = ExprBuilder(b, facts, inline=True)
        retag_blocks = []
        for bi, blk in enumerate(b.blocks):
            for si, st in enumerate(blk["stmts"]):
                if st["k"] == "assign" and st["pl"]["l"] == 1 and st["pl"]["p"] and isinstance(st["pl"]["p"][-1], dict) \
                        and st["pl"]["p"][-1].get("n") == "data" and st["pl"]["p"][-1].get("adt") in a2.handles:
                    e = eb.rvalue(st["rv"], (bi, si), 0)
                    if any(x[0] == "call" and x[1] == "bytes_mut::invalid_ptr" for x in walk(e)) or \
                            any(x[0] == "bin" and x[1] == "BitOr" for x in walk(e)):
                        retag_blocks.append(bi)
        if not retag_blocks:
            continue
        from .flow import stated_preconditions
        pre = stated_preconditions(b, facts)
        vec_mode = any(r[0] == "eq" and canon(r[2]) == ("const", 1) and any(x[0] == "bin" and x[1] == "BitAnd" for x in walk(r[1])) for r in pre)
        edges = {(s_, d_): normalize_cmp(c, v) for (s_, d_, c, v) in edge_conditions(b, facts, inline=True)}
        eb2 = ExprBuilder(b, facts, inline=False)
        for rb in sorted(set(retag_blocks)):
            key = "%s|retag data" % b.id
            bad = None
            n_p = 0
            for path in enumerate_paths(b, limit=5000):
                if rb not in path or not a2.feasible(b, path, edges):
                    continue
                n_p += 1
                pre_path = path[:path.index(rb)]
                # was the handle in inline-Vec mode on this path?
                vec_guard = vec_mode
                for (s_, d_) in zip(path, path[1:]):
                    r = edges.get((s_, d_))
                    if r and r[0] == "eq" and canon(r[2]) == ("const", 1) and any(x[0] == "bin" and x[1] == "BitAnd" for x in walk(r[1])):
                        vec_guard = True
                if vec_guard:
                    continue
                rel = 0
                for bi in pre_path:
                    ev, calls = a2.block_events(b, bi, eb2)
                    rel += ev.get("rel", 0)
                if rel != 1:
                    bad = (path, rel)
                    break
            n_paths += 1
            if bad:
                res.bad(key, b.loc(rb), "the handle is re-tagged as inline-Vec storage on a path that released the shared reference %d time(s) (must be exactly once, before)" % bad[1])
            else:
                res.ok(key, b.loc(rb), "every path to the re-tagging either was already inline-Vec or released the shared reference exactly once (%d paths)" % n_p, nontrivial=True)
    # --- the reference is released last: no read of the view after giving the reference up ------------
    READ_CALLS = ("core::slice::from_raw_parts", "alloc::slice::<impl [T]>::to_vec", "core::ptr::copy", "core::ptr::copy_nonoverlapping",
                  "core::intrinsics::copy", "core::intrinsics::copy_nonoverlapping", "alloc::vec::Vec::<T, A>::extend_from_slice")
    n_rl = 0
    for b in facts.fn_bodies():
        eb = ExprBuilder(b, facts, inline=False)
        kinds = {}
        for bi, blk in enumerate(b.blocks):
            if blk["cleanup"]:
                continue
            ev, calls = a2.block_events(b, bi, eb)
            t = blk["term"]
            k = set()
            if ev.get("rel") or ev.get("owner_drop"):
                k.add("rel")
            if ev.get("teardown") or ev.get("buf_own"):
                k.add("take")
            for (cb, args) in calls:
                sub = a2.summary(cb)
                if any(get(v, "rel") or get(v, "owner_drop") for v in sub) and all(get(v, "rel") or get(v, "owner_drop") for v in sub):
                    k.add("rel")
                    # a helper that takes the buffer over before it gives the reference up (`take_vec_and_release`: mem::replace(&mut (*p).vec, ..)
                    # then release_shared(p)): for the caller the buffer is taken when the reference goes
                    ebc = ExprBuilder(cb, facts, inline=False)
                    cfgc = cfg_of(cb)
                    rel_b, take_b = [], []
                    for cbi, cblk in enumerate(cb.blocks):
                        if cblk["cleanup"]:
                            continue
                        cev, _ = a2.block_events(cb, cbi, ebc)
                        if cev.get("rel") or cev.get("owner_drop"):
                            rel_b.append(cbi)
                        if cev.get("teardown") or cev.get("buf_own"):
                            take_b.append(cbi)
                        ct = cblk["term"]
                        cfn = callee(ct) if ct["k"] == "call" else None
                        if cfn is not None and (cfn.get("res") or cfn)["path"] in ("core::mem::replace", "core::mem::take", "core::mem::swap"):
                            take_b.append(cbi)
                    if rel_b and take_b and all(any(cfgc.dominates(tb, rb) for tb in take_b) for rb in rel_b):
                        k.add("take")
            if t["k"] == "call":
                fn = callee(t)
                if fn is not None:
                    p = (fn.get("res") or fn)["path"]
                    if p in READ_CALLS:
                        k.add("read")
                    if p in ("core::mem::replace", "core::mem::take", "core::mem::swap"):
                        k.add("take")
            if k:
                kinds[bi] = k
        if not any("rel" in k for k in kinds.values()) or not any("read" in k for k in kinds.values()):
            continue
        n_rl += 1
        bad = None
        for path in enumerate_paths(b, limit=5000):
            released = False
            took = False
            took_before = False
            for bi in path:
                k = kinds.get(bi, ())
                if "take" in k:
                    took = True
                if "read" in k and released and not took_before:
                    bad = (path, bi)
                    break
                if "rel" in k and not released:
                    released = True
                    took_before = took
            if bad:
                break
        key = "%s|release last" % b.id
        if bad:
            res.bad(key, b.loc(bad[1]), "the view is read at %s after this handle's reference was already released (another owner may free or reuse the "
                                        "buffer in between): copy first, release last" % b.loc(bad[1]), path="bb" + "->bb".join(str(x) for x in bad[0]))
        else:
            res.ok(key, b.loc(), "every read of the view precedes the release (or follows a take-over of the buffer)", nontrivial=True)
    # ---- a live handle is never overwritten in place without being disposed -----------------------------------------
    # `*self = other` drops the old value first (MIR Drop + assign); `ptr::write(self, other)` does not: whatever reference the
    # old handle held is never given back. Accepted only when the old value was moved out / dropped in place before.
    from .flow import cfg_of as _cfg_of
    for b in facts.fn_bodies():
        if facts.is_test(b):
            continue
        sites = []
        for bi, t in b.calls():
            if b.blocks[bi]["cleanup"]:
                continue
            fn = callee(t)
            if fn is None or fn["name"] not in ("write", "write_unaligned", "write_volatile") or "ptr" not in (fn.get("res") or fn).get("path", ""):
                continue
            targs = " ".join(str(x) for x in (fn.get("args") or ()))
            if not any(h in targs for h in a2.handles):
                continue
            sites.append((bi, t))
        if not sites:
            continue
        eb = ExprBuilder(b, facts, inline=True)
        cfg = _cfg_of(b)
        for (bi, t) in sites:
            dst = canon(eb.operand(t["args"][0], (bi, len(b.blocks[bi]["stmts"]))))
            moved_out = False
            for bj, t2 in b.calls():
                fn2 = callee(t2)
                if fn2 and fn2["name"] in ("read", "drop_in_place", "replace", "take", "read_unaligned") and bj != bi and cfg.dominates(bj, bi) and t2["args"]:
                    if canon(eb.operand(t2["args"][0], (bj, len(b.blocks[bj]["stmts"])))) == dst:
                        moved_out = True
            # .. or its reference was given back by hand before (release primitive on the handle's own control block)
            for bj, t2 in b.calls():
                fn2 = callee(t2)
                r2 = (fn2.get("res") or fn2) if fn2 else {}
                if fn2 and r2.get("local") and r2.get("did") in a2.release_prims and bj != bi and cfg.dominates(bj, bi):
                    for a_ in t2["args"]:
                        ea = canon(eb.operand(a_, (bj, len(b.blocks[bj]["stmts"]))))
                        base = dst[1] if isinstance(dst, tuple) and dst and dst[0] == "ref" else ("deref", dst)
                        if any(isinstance(y, tuple) and y and y[0] == "field" and y[2] == "data" and canon(y[1]) in (canon(base), dst) for y in walk(ea)):
                            moved_out = True
            key = "%s|handle overwritten in place" % b.id
            if moved_out or not any(x[0] == "param" for x in walk(dst) if isinstance(x, tuple) and x):
                res.ok(key, b.loc(bi), "the old value was moved out / dropped before ptr::write (or the destination is fresh memory)", nontrivial=True)
            else:
                res.bad(key, b.loc(bi), "ptr::write overwrites the handle at `%s` without dropping it: the reference (or the whole buffer) the old handle "
                                        "held is never released - `*dst = value` would drop it first" % fmt_expr(dst)[:60])
    res.floor("release_last_functions", n_rl, 4)
    res.floor("paths", n_paths, 60)
    res.floor("vtables", len(a2.vts), 6)
    return res
