"""A8 FIELD-WRITE-JUSTIFY — every assignment to BytesMut.{ptr,len,cap} (and every BytesMut aggregate)
is justified by one of the accepted forms: bounded by the allocation, paired with its companion
writes, bytes moved before the pointer, non-overlap guard before copy_nonoverlapping; split halves are
cut with one operand; merging needs all four adjacency conjuncts; Clone never shares."""
from .base import Result, RuleError
from .facts import callee
from .flow import ExprBuilder, cfg_of, canon, walk, fmt_expr, relations_at, enumerate_paths
from .logic import Ctx, uncast, is_call, const_of
from . import roles
from .r_a6 import strip_ptr, reserve_postcondition
from .inline import resolve_sites, views

HANDLE = "bytes_mut::BytesMut"


def self_field(e, name, base=None):
    e = canon(uncast(e))
    if isinstance(e, tuple) and e[0] == "field" and e[2] == name:
        if base is None or e[1] == base:
            return e[1]
    return None


def writes_of(b, facts, eb):
    out = []
    for bi, blk in enumerate(b.blocks):
        if blk["cleanup"]:
            continue
        for si, s in enumerate(blk["stmts"]):
            if s["k"] != "assign":
                continue
            pl = s["pl"]
            if pl["p"] and isinstance(pl["p"][-1], dict) and pl["p"][-1].get("adt") == HANDLE and pl["p"][-1].get("n") in ("ptr", "len", "cap", "data"):
                base = eb.place({"l": pl["l"], "p": pl["p"][:-1]}, (bi, si))
                out.append({"bb": bi, "si": si, "field": pl["p"][-1]["n"], "expr": canon(eb.rvalue(s["rv"], (bi, si), 0)), "base": canon(base), "kind": "write"})
            if s["rv"]["k"] == "agg" and s["rv"].get("adt") == HANDLE:
                f = dict(zip(s["rv"]["fields"], s["rv"]["ops"]))
                out.append({"bb": bi, "si": si, "field": "AGG", "kind": "agg",
                            "fields": {k: canon(eb.operand(v, (bi, si))) for k, v in f.items()}})
    return out


def rebuilt_parts(v):
    """(ptr, len, cap, off) when v is the inline Vec put together again: `rebuild_vec(ptr, len, cap, off)` or, written out,
    `Vec::from_raw_parts(ptr.sub(off), len + off, cap + off)`"""
    if is_call(v, "rebuild_vec") and len(v[2]) == 4:
        return tuple(v[2])
    if is_call(v, "from_raw_parts") and "Vec" in v[1] and len(v[2]) == 3:
        p, l, c = strip_ptr(v[2][0]), v[2][1], v[2][2]
        if is_call(p, "sub") and len(p[2]) == 2:
            o = p[2][1]
            for (x, y) in ((l, c),):
                if isinstance(x, tuple) and x[0] == "bin" and x[1] == "Add" and o in (x[2], x[3]) \
                        and isinstance(y, tuple) and y[0] == "bin" and y[1] == "Add" and o in (y[2], y[3]):
                    ln = x[3] if x[2] == o else x[2]
                    cp = y[3] if y[2] == o else y[2]
                    return (p[2][0], ln, cp, o)
    return None


def same_path(cfg, a, b):
    la, lb = (a["bb"], a["si"]), (b["bb"], b["si"])
    return cfg.loc_dominates(la, lb) or cfg.loc_dominates(lb, la)


def vec_of_ptr(p):
    """p = [vptr](as_mut_ptr(V) [+ off])  ->  (V, off or None)"""
    p = strip_ptr(p)
    if is_call(p, "add") and len(p[2]) == 2:
        inner = strip_ptr(p[2][0])
        if is_call(inner, "as_mut_ptr") or is_call(inner, "as_ptr"):
            return inner[2][0], p[2][1]
    if is_call(p, "as_mut_ptr") or is_call(p, "as_ptr"):
        return p[2][0], None
    return None, None


def calls_with(b, eb):
    out = []
    for bi, t in b.calls():
        if b.blocks[bi]["cleanup"]:
            continue
        fn = callee(t)
        if fn is None:
            continue
        loc = (bi, len(b.blocks[bi]["stmts"]))
        out.append((bi, (fn.get("res") or fn)["path"], fn["name"], [canon(eb.operand(a, loc)) for a in t["args"]]))
    return out


def judge_nonoverlap(facts, b, only_blocks=None):
    """every copy_nonoverlapping whose source is the handle's own pointer (both ends in one allocation) is dominated by
    a guard distance >= n"""
    out = []
    eb = ExprBuilder(b, facts, inline=True)
    for (bi, path, name, args) in calls_with(b, eb):
        if name != "copy_nonoverlapping" or len(args) != 3:
            continue
        if only_blocks is not None and bi not in only_blocks:
            continue
        src, dst, n = strip_ptr(args[0]), strip_ptr(args[1]), args[2]
        if self_field(src, "ptr") is None:
            continue      # copies between distinct objects (user slice -> spare capacity) are A6's
        ctx = Ctx(b, bi, facts)
        dist = None
        if is_call(dst, "sub") and strip_ptr(dst[2][0]) == src:
            dist = dst[2][1]
        else:
            # dst = v.ptr, distance = offset_from(self.ptr, v.ptr)
            for r in ctx.rels:
                for x in walk(r[1]) if isinstance(r[1], tuple) else []:
                    if is_call(x, "offset_from") and strip_ptr(x[2][0]) == src and strip_ptr(x[2][1]) == dst:
                        dist = x
                for x in walk(r[2]) if len(r) > 2 and isinstance(r[2], tuple) else []:
                    if is_call(x, "offset_from") and strip_ptr(x[2][0]) == src and strip_ptr(x[2][1]) == dst:
                        dist = x
        if dist is not None and ctx.le(n, dist):
            out.append({"bi": bi, "j": 0, "ok": True, "text": "distance %s >= n dominates the copy" % fmt_expr(dist)[:60]})
        else:
            out.append({"bi": bi, "j": 0, "ok": False, "text": "copy_nonoverlapping inside one allocation without a dominating guard distance >= n (regions may overlap)"})
    return out


def judge_writes(facts, b, only_blocks=None):
    """verdict for every write to BytesMut.{ptr,len,cap} (and every BytesMut aggregate) in `b` (a body or an inlined view)"""
    out = []
    eb = ExprBuilder(b, facts, inline=True)
    ws = writes_of(b, facts, eb)
    if not ws:
        return out
    cfg = cfg_of(b)
    calls = calls_with(b, eb)
    for w in ws:
        if w["field"] == "data":
            continue
        if only_blocks is not None and w["bb"] not in only_blocks:
            continue
        extra = reserve_postcondition(b, w["bb"], facts, eb)
        ctx = Ctx(b, w["bb"], facts, extra=extra)
        mates = [x for x in ws if x is not w and x["kind"] == "write" and x.get("base") == w.get("base") and same_path(cfg, x, w)]

        def mate(field):
            m = [x for x in mates if x["field"] == field]
            # nearest in the same block if several
            same = [x for x in m if x["bb"] == w["bb"]]
            return (same or m or [None])[0]
        ok, how = False, ""
        if w["kind"] == "agg":
            f = w["fields"]
            V, off = vec_of_ptr(f["ptr"])
            if V is not None and off is None and is_call(f["cap"], "capacity") and f["cap"][2] == (V,) and is_call(f["len"], "len") and f["len"][2] == (V,):
                ok, how = True, "(ptr, len, cap) are the start, len() and capacity() of one Vec"
            else:
                # view into a shared Vec: cap = capacity(V) - offset_from(ptr, V.ptr)
                cp = f["cap"]
                if isinstance(cp, tuple) and cp[0] == "bin" and cp[1] == "Sub" and is_call(cp[2], "capacity") and is_call(uncast(cp[3]), "offset_from"):
                    o = uncast(cp[3])
                    V2 = cp[2][2][0]
                    p0, v0 = strip_ptr(o[2][0]), strip_ptr(o[2][1])
                    if strip_ptr(f["ptr"]) == p0 and (is_call(v0, "as_mut_ptr") or is_call(v0, "as_ptr")) and v0[2][0] == V2:
                        ok, how = True, "cap = capacity(v) - (ptr - v.ptr) for the ptr stored in the handle"
            if not ok:
                how = "aggregate fields are not (v.ptr, v.len, v.capacity) nor a view with cap = capacity - offset: %s" % {k: fmt_expr(v)[:80] for k, v in f.items()}
        elif w["field"] == "cap":
            E = w["expr"]
            base = w["base"]
            pm = mate("ptr")
            # a3: cap +/- k with the pointer moved the other way by the same k
            if isinstance(E, tuple) and E[0] == "bin" and E[1] in ("Add", "Sub") and self_field(E[2], "cap", base) is not None:
                k = E[3]
                if pm is not None:
                    p = strip_ptr(pm["expr"])
                    want = "sub" if E[1] == "Add" else "add"
                    if is_call(p, want) and p[2][1] == k and self_field(strip_ptr(p[2][0]), "ptr", base) is not None:
                        ok, how = True, "cap %s k paired with ptr.%s(k), same k" % ("+" if E[1] == "Add" else "-", want)
                # a6: merge
                if not ok and E[1] == "Add" and self_field(E[3], "cap") is not None:
                    ok, how = unsplit_guard(ctx, base, self_field(E[3], "cap"))
            # a1/a2: capacity(V) [- off] with ptr = V.ptr [+ off]
            if not ok and pm is not None:
                V, off = vec_of_ptr(pm["expr"])
                if V is not None:
                    if off is None and is_call(E, "capacity") and E[2] == (V,):
                        ok, how = True, "cap = capacity(v) with ptr = v.ptr"
                    elif off is not None and isinstance(E, tuple) and E[0] == "bin" and E[1] == "Sub" and is_call(E[2], "capacity") and E[2][2] == (V,) and E[3] == off:
                        ok, how = True, "cap = capacity(v) - off with ptr = v.ptr + off, same off"
            # a4: cut at `at` under at <= cap / at <= len
            if not ok and pm is None:
                for fld in ("cap", "len"):
                    if not ok and ctx.le(E, ("field", base, fld)):
                        ok, how = True, "cap = x under the guard x <= %s" % fld
                # the written handle is a bitwise copy (`other`) of self: compare against self's fields
                if not ok:
                    for r in ctx.rels:
                        if r[0] in ("le", "lt") and r[1] == E and isinstance(r[2], tuple) and r[2][0] == "field" and r[2][2] in ("len", "cap"):
                            ok, how = True, "cap = x under the guard x <= source.%s" % r[2][2]
            # a5: reclaim without moving: guard capacity(V) - offset >= E
            if not ok and pm is None:
                for r in ctx.rels:
                    if r[0] in ("le", "lt") and r[1] == E:
                        y = r[2]
                        if isinstance(y, tuple) and y[0] == "bin" and y[1] == "Sub" and is_call(y[2], "capacity") and is_call(uncast(y[3]), "offset_from"):
                            o = uncast(y[3])
                            if self_field(strip_ptr(o[2][0]), "ptr", base) is not None:
                                ok, how = True, "cap = x under the guard x <= capacity(v) - (self.ptr - v.ptr)"
            if not ok and not how:
                how = "cap = %s matches no accepted form (capacity - offset paired with ptr; cap +/- k paired with ptr move; guarded cut; guarded reclaim; guarded merge)" % fmt_expr(E)[:160]
        elif w["field"] == "len":
            E = w["expr"]
            base = w["base"]
            ln = ("field", base, "len")
            if b.safety == "unsafe" and E == ("param", 2) and b.id.endswith("::set_len"):
                ok, how = True, "unsafe fn: `len <= cap` is the caller's contract (checked at every safe caller by A6)"
            elif is_call(E, "min") and ln in E[2]:
                ok, how = True, "min(len, _) <= len"
            elif is_call(E, "unwrap_or") and is_call(E[2][0], "checked_sub") and E[2][0][2][0] == ln:
                ok, how = True, "checked_sub(len, k).unwrap_or(0) <= len"
            elif isinstance(E, tuple) and E[0] == "bin" and E[1] == "Sub" and E[2] == ln:
                ok, how = True, "len - k <= len"
            elif isinstance(E, tuple) and E[0] == "bin" and E[1] == "Add" and E[2] == ln:
                k = E[3]
                if ctx.le(k, ("bin", "Sub", ("field", base, "cap"), ln)):
                    ok, how = True, "len + k under the guard k <= cap - len"
                elif ctx.le(E, ("field", base, "cap")) or (k == ("const", 1) and ctx.lt(ln, ("field", base, "cap"))):
                    ok, how = True, "len + k under the guard len + k <= cap"
                elif self_field(k, "len") is not None:
                    ok, how = unsplit_guard(ctx, base, self_field(k, "len"))
            if not ok:
                if ctx.le(E, ln):
                    ok, how = True, "len = x under the guard x <= len"
                else:
                    for r in ctx.rels:
                        if r[0] in ("le", "lt") and r[1] == E and isinstance(r[2], tuple) and r[2][0] == "field" and r[2][2] == "len":
                            ok, how = True, "len = x under the guard x <= source.len"
            if not ok and not how:
                how = "len = %s is not bounded by the old len / the spare capacity" % fmt_expr(E)[:160]
        elif w["field"] == "ptr":
            E = strip_ptr(w["expr"])
            base = w["base"]
            cm = mate("cap")
            if cm is None:
                how = "ptr is re-pointed without reassigning cap on the same path"
            elif is_call(E, "add") and self_field(strip_ptr(E[2][0]), "ptr", base) is not None:
                k = E[2][1]
                ce = cm["expr"]
                if isinstance(ce, tuple) and ce[0] == "bin" and ce[1] == "Sub" and ce[3] == k:
                    ok, how = True, "ptr + k with cap - k"
                else:
                    how = "ptr advanced by k without cap -= k"
            else:
                ok, how = bytes_before_pointer(b, w, E, base, calls, cfg, ctx)
        out.append({"bi": w["bb"], "si": w["si"], "j": (w["si"], w["field"], w["kind"]), "keytail": w["field"], "ok": ok,
                    "text": how or "unjustified write", "nontrivial": True})
    return out


def run(facts):
    # A8 justifies each store by what held *before* the function's stores (`self.len += other.len; self.cap += other.cap` under the
    # adjacency test that mentions the old len): its conditions are facts about the state at the time of the check.  What the
    # function leaves behind after all its stores is A18's business (state at the end of the path).
    from .flow import allow_stale_guards
    with allow_stale_guards():
        return _run(facts)


def _run(facts):
    res = Result("A8", "every write to BytesMut.{ptr,len,cap} is bounded by the allocation, paired with its companions, preceded by the byte move; "
                       "copy_nonoverlapping is guarded by distance >= n; split halves use one cut operand; merge needs all adjacency conjuncts")
    n_writes = 0
    for b in facts.fn_bodies():
        eb = ExprBuilder(b, facts, inline=True)
        ws = writes_of(b, facts, eb)
        if not ws:
            continue
        cfg = cfg_of(b)
        calls = calls_with(b, eb)
        cnt = {}
        for x in resolve_sites(facts, b, lambda view, only: judge_writes(facts, view, only), keep_names=("offset_from", "rebuild_vec", "vptr")):
            n_writes += 1
            k0 = "%s|%s" % (b.id, x["keytail"])
            c = cnt.get(k0, 0)
            cnt[k0] = c + 1
            key = k0 + ("#%d" % c if c else "")
            loc = b.loc(x["bi"], x["si"])
            if x["ok"]:
                res.ok(key, loc, x["text"], nontrivial=True)
            else:
                res.bad(key, loc, x["text"])
        # d. NONOVERLAP (judged like the writes: as written, then with helpers inlined / in the callers' context)
        if b.safety == "safe" and any(name == "copy_nonoverlapping" for (_, _, name, _) in calls):
            for x in resolve_sites(facts, b, lambda view, only: judge_nonoverlap(facts, view, only), keep_names=("offset_from", "rebuild_vec", "vptr")):
                n_writes += 1
                key = "%s|copy_nonoverlapping" % b.id
                c = cnt.get(key, 0)
                cnt[key] = c + 1
                if c:
                    key += "#%d" % c
                if x["ok"]:
                    res.ok(key, b.loc(x["bi"]), x["text"], nontrivial=True)
                else:
                    res.bad(key, b.loc(x["bi"]), x["text"])
    res.floor("field_writes", n_writes, 18)
    reclaim_contract(res, facts)
    reserve_promise(res, facts)
    promise_numeric_verdict(res, facts)
    split_pair(res, facts)
    clone_never_shares(res, facts)
    return res


def unsplit_guard(ctx, base, other):
    """merging another handle's len/cap needs: end-adjacency, both shared-kind, same control block"""
    need = {"adjacent": False, "self_arc": False, "other_arc": False, "same_block": False}
    for r in ctx.rels:
        if r[0] != "eq":
            continue
        a, b_ = r[1], r[2]
        for (x, y) in ((a, b_), (b_, a)):
            sx = strip_ptr(x)
            if is_call(sx, "add") and self_field(strip_ptr(sx[2][0]), "ptr", base) is not None and sx[2][1] == ("field", base, "len") \
                    and self_field(strip_ptr(y), "ptr", other) is not None:
                need["adjacent"] = True
            if isinstance(x, tuple) and x[0] == "bin" and x[1] == "BitAnd" and const_of(y) == 0:
                src = uncast(x[2])
                while isinstance(src, tuple) and src[0] == "cast":
                    src = src[2]
                if src == ("field", base, "data"):
                    need["self_arc"] = True
                if src == ("field", other, "data"):
                    need["other_arc"] = True
            if x == ("field", base, "data") and y == ("field", other, "data"):
                need["same_block"] = True
    missing = [k for k, v in need.items() if not v]
    if missing:
        return False, "merge of another handle's extent without the conjunct(s): %s" % ", ".join(missing)
    # ... and under nothing more that depends on who else holds the buffer: two adjacent views of one control block are merged in place
    # whenever they are adjacent (C07: unsplit of contiguous halves never copies); a test of the reference count / uniqueness on the way
    # sends contiguous halves to the copying fallback as soon as a third view exists
    for r in ctx.rels:
        for side in r[1:3]:
            if not isinstance(side, tuple):
                continue
            for x in walk(side):
                if isinstance(x, tuple) and x and x[0] == "call" and ((x[1].endswith("::load") and "tomic" in x[1]) or x[1].rsplit("::", 1)[-1] == "is_unique"):
                    return False, "the in-place merge of adjacent halves additionally depends on `%s`: contiguous halves are copied instead of merged when other views of the buffer exist" % fmt_expr(x)[:60]
    return True, "merge under end-adjacency, both shared-kind and same control block (and no condition on other holders)"


def bytes_before_pointer(b, w, E, base, calls, cfg, ctx):
    """ptr = <other base>: the live bytes must already be there"""
    wloc = (w["bb"], w["si"])
    old_ptr = ("field", base, "ptr")
    ln = ("field", base, "len")
    # (1) a copy of len bytes from the old ptr to exactly that base dominates
    for (bi, path, name, args) in calls:
        if name in ("copy_nonoverlapping", "copy") and len(args) == 3 and cfg.loc_dominates((bi, 10 ** 6), wloc) or \
                (name in ("copy_nonoverlapping", "copy") and len(args) == 3 and bi == w["bb"]):
            src, dst, n = strip_ptr(args[0]), strip_ptr(args[1]), args[2]
            if src == old_ptr and dst == E and n == ln:
                return True, "copy(self.ptr -> new base, len) dominates the re-pointing"
    V, off = vec_of_ptr(E)
    if V is not None:
        reserves = [(bi, args) for (bi, path, name, args) in calls if name == "reserve" and "Vec" in path and strip_ref(args[0]) == strip_ref(V)
                    and cfg.loc_dominates((bi, 10 ** 6), wloc)]
        # (2a) V = rebuild_vec(self.ptr, self.len, self.cap, off) — the Vec owns the live bytes — then V.reserve
        rv = strip_ref(V)
        if rebuilt_parts(rv) and reserves:
            a = rebuilt_parts(rv)
            if strip_ptr(a[0]) == old_ptr and a[1] == ln and a[3] == off:
                return True, "new base is the buffer of rebuild_vec(self.ptr, len, cap, off) after reserve; offset re-applied with the same off"
        # (2b) V.set_len(off + len) dominates V.reserve (realloc preserves [0, len))
        if reserves:
            for (sbi, path, name, args) in calls:
                if name == "set_len" and "Vec" in path and strip_ref(args[0]) == rv:
                    if all(cfg.loc_dominates((sbi, 10 ** 6), (rbi, 0)) for rbi, _ in reserves):
                        x = args[1]
                        if isinstance(x, tuple) and x[0] == "bin" and x[1] == "Add" and (x[3] == ln or x[2] == ln) and (off is None or off in (x[2], x[3])):
                            return True, "v.set_len(off + len) dominates v.reserve: the live bytes survive reallocation; offset re-applied with the same off"
            return False, "pointer re-based into a Vec after reserve() without first extending the Vec's len over the live bytes (realloc only preserves [0, len))"
        # (3) fresh Vec: extend_from_slice(view of self) into it dominates
        if is_call(rv, "with_capacity") and off is None:
            for (ebi, path, name, args) in calls:
                if name == "extend_from_slice" and strip_ref(args[0]) == rv and cfg.loc_dominates((ebi, 10 ** 6), wloc):
                    return True, "fresh Vec filled by extend_from_slice(self view) before the re-pointing"
            return False, "pointer re-based to a fresh Vec that was not filled from the old view first"
        # (4) reclaim: start of the shared Vec
        if off is None:
            return False, "pointer moved to the start of a Vec without a dominating copy of the live bytes"
    if is_call(E, "sub") and strip_ptr(E[2][0]) == old_ptr:
        return False, "pointer moved back without a dominating copy of the live bytes to the new base"
    return False, "ptr = %s matches no accepted form" % fmt_expr(E)[:120]


def strip_ref(e):
    while isinstance(e, tuple) and e and e[0] in ("ref", "deref"):
        e = e[1]
    return e


def split_pair(res, facts):
    """callers of shallow_clone are exactly the split functions; both halves are cut with the same operand"""
    sc = [b for b in facts.fn_bodies() if b.id == "bytes_mut::BytesMut::shallow_clone"]
    if len(sc) != 1:
        raise RuleError("BytesMut::shallow_clone not found")
    callers = []
    for b in facts.fn_bodies():
        for bi, t in b.calls():
            fn = callee(t)
            if fn and (fn.get("res") or fn).get("did") == sc[0].did:
                callers.append(b)
    for b in callers:
        eb = ExprBuilder(b, facts, inline=True)
        key = "%s|split-pair" % b.id
        adv = []
        for bi, t in b.calls():
            fn = callee(t)
            if fn and fn["name"] == "advance_unchecked":
                loc = (bi, len(b.blocks[bi]["stmts"]))
                adv.append((canon(eb.operand(t["args"][0], loc)), canon(eb.operand(t["args"][1], loc))))
        ws = [w for w in writes_of(b, facts, eb) if w["kind"] == "write" and w["field"] == "cap"]
        if len(adv) == 1 and len(ws) == 1:
            recv, cut = adv[0]
            w = ws[0]
            recv_b = strip_ref(recv)
            is_clone = lambda e: is_call(strip_ref(e), "shallow_clone")
            # one half is self, the other the shallow clone; advance on one, cap on the other, same operand
            halves = {("clone" if is_clone(recv_b) else "self"), ("clone" if is_clone(w["base"]) else "self")}
            if w["expr"] == cut and halves == {"clone", "self"}:
                res.ok(key, b.loc(), "one half advance_unchecked(x), the other cap = x, same x", nontrivial=True)
                continue
            res.bad(key, b.loc(), "the two halves are not cut with the same operand on different handles: advance(%s) on %s, cap = %s on %s" % (
                fmt_expr(cut), "clone" if is_clone(recv_b) else "self", fmt_expr(w["expr"]), "clone" if is_clone(w["base"]) else "self"))
        else:
            res.bad(key, b.loc(), "caller of shallow_clone is not a split (expected one advance_unchecked and one cap write; found %d, %d)" % (len(adv), len(ws)))
    res.floor("shallow_clone_callers", len(callers), 2)


def clone_never_shares(res, facts):
    cands = facts.by_id.get("<bytes_mut::BytesMut as core::clone::Clone>::clone", [])
    if len(cands) != 1:
        raise RuleError("Clone for BytesMut not found")
    seen = set()
    st = [cands[0]]
    bad = []
    while st:
        b = st.pop()
        if b.did in seen:
            continue
        seen.add(b.did)
        for bi, t in b.calls():
            fn = callee(t)
            if fn is None:
                continue
            r = fn.get("res") or fn
            if r["path"].endswith("::shallow_clone") or (fn["name"] == "fetch_add" and "tomic" in r["path"]) or r["path"] == "core::ptr::read":
                bad.append(r["path"])
            if r.get("local") and r.get("did") is not None and facts.by_did.get(r["did"]) is not None:
                st.append(facts.by_did[r["did"]])
    key = "<BytesMut as Clone>::clone|deep"
    if bad:
        res.bad(key, cands[0].loc(), "Clone for BytesMut reaches %s: two BytesMut would share writable storage" % sorted(set(bad)))
    else:
        res.ok(key, cands[0].loc(), "reaches neither shallow_clone nor a refcount increment (%d fns)" % len(seen))


def reserve_helper(facts):
    """the bool-returning reservation helper fn(&mut BytesMut, usize, bool) -> bool (reserve_inner)"""
    cands = [b for b in facts.fn_bodies() if b.kind == "assoc_fn" and b.j.get("output") == "bool" and b.arg_count == 3
             and b.locals[1]["ty"] == "&mut " + HANDLE and b.locals[2]["ty"] == "usize" and b.locals[3]["ty"] == "bool"]
    if len(cands) != 1:
        return None         # reshaped (parameter object, split per representation): judged from the public entry points
    return cands[0]


def reserve_roots(facts):
    """the public entry points of the reservation logic, each with everything it calls inlined (used when the private
    helper no longer has the recognisable signature): try_reclaim(n) -> bool states the contract itself, reserve(n)
    covers the allocating paths"""
    roots = []
    for name in ("try_reclaim", "reserve"):
        l = facts.by_id.get("bytes_mut::BytesMut::" + name, [])
        if len(l) != 1:
            raise RuleError("BytesMut::%s not found" % name)
        vs = list(views(facts, l[0], keep_names=("rebuild_vec", "offset_from", "vptr", "release_shared", "is_unique", "get_vec_pos", "set_vec_pos", "kind")))
        if not vs:
            raise RuleError("BytesMut::%s calls no reservation helper" % name)
        roots.append((l[0], vs[-1]))
    return roots


def judged_on_views(res, facts, b0, judge):
    """judge(view) -> [(key, ok, text, extra)]; the function as written first, its inlined views before anything is reported"""
    out = judge(b0)
    for ib in views(facts, b0, keep_names=("rebuild_vec", "offset_from", "vptr", "release_shared", "is_unique", "get_vec_pos", "set_vec_pos", "kind")):
        alt = judge(ib)
        if not alt:
            continue
        hidden = len(alt) > len(out)            # a helper holds sites the function as written does not show: the view decides
        rescued = any(not x[1] for x in out) and all(x[1] for x in alt)
        if hidden or rescued:
            out = [(k, ok, t + " (with helpers inlined)", e) for (k, ok, t, e) in alt]
            if all(x[1] for x in out):
                break
    for (key, ok, text, extra) in out:
        if ok:
            res.ok(key, b0.loc(), text, nontrivial=True)
        else:
            res.bad(key, b0.loc(), text, **(extra or {}))


def reclaim_contract(res, facts):
    """try_reclaim(n) == false leaves address, length and capacity unchanged; == true means capacity was
    (re)established: in the bool-returning reservation helper every path that returns false performs no
    state write / byte move before, and every path that returns true reassigns cap."""
    b0 = reserve_helper(facts)
    if b0 is None:
        root, view = reserve_roots(facts)[0]            # try_reclaim: its boolean result *is* the contract
        for (key, ok, text, extra) in reclaim_verdicts(facts, view, root.id):
            (res.ok if ok else res.bad)(key, root.loc(), text + " (judged at the public entry point, helpers inlined)", **((extra or {}) if not ok else {"nontrivial": True}))
        return
    judged_on_views(res, facts, b0, lambda v: reclaim_verdicts(facts, v, b0.id))


def reclaim_verdicts(facts, b, bid):
    out = []
    eb = ExprBuilder(b, facts, inline=False)
    wblocks = {}
    for w in writes_of(b, facts, eb):
        if w["kind"] == "write":
            wblocks.setdefault(w["bb"], []).append(w["field"])
    for bi, t in b.calls():
        fn = callee(t)
        if fn and fn["name"] in ("copy_nonoverlapping", "copy", "set_len", "reserve", "extend_from_slice", "set_vec_pos", "release_shared"):
            wblocks.setdefault(bi, []).append(fn["name"])
    n_false = n_true = 0
    bad_false = bad_true = bad_flag = None
    # the helper's "may allocate" flag: `reserve` passes true and discards the result ("will always succeed")
    bools = [i for i in range(1, b.arg_count + 1) if b.locals[i]["ty"] == "bool"]
    flag = bools[0] if len(bools) == 1 else None
    for path in enumerate_paths(b, limit=5000):
        # the constant returned on this path (read along the path: in an inlined view it travels through result locals)
        val = None
        for bi in path:
            for s_ in b.blocks[bi]["stmts"]:
                if s_["k"] == "assign" and s_["pl"]["l"] == 0 and not s_["pl"]["p"] and s_["rv"]["k"] == "use" and s_["rv"]["op"]["k"] == "const":
                    val = s_["rv"]["op"].get("v")
        if val is None:
            from .flow import PathExprBuilder
            e = canon(PathExprBuilder(b, facts, path).local(0, (path[-1], len(b.blocks[path[-1]]["stmts"]))))
            if isinstance(e, tuple) and e and e[0] == "const":
                val = e[1]
        touched = [x for bi in path for x in wblocks.get(bi, [])]
        if val == 0:
            n_false += 1
            if touched and bad_false is None:
                bad_false = (path, touched)
            if flag is not None and bad_flag is None:
                from .flow import path_relations as _pr
                rels = _pr(b, facts, path)
                said_no = any((r[0] == "truth" and canon(r[1]) == ("param", flag) and r[2] == 0) or
                              (r[0] == "eq" and canon(r[1]) == ("param", flag) and canon(r[2]) == ("const", 0)) for r in rels if r)
                if not said_no:
                    bad_flag = path
        elif val == 1:
            n_true += 1
            if "cap" not in touched and bad_true is None:
                # nothing to re-establish when the path knows additional <= cap - len already (the early return of the entry point)
                base = ("deref", ("param", 1))
                from .flow import path_relations
                ctx = Ctx(b, path[0], facts, extra=path_relations(b, facts, path))
                if not ctx.le(("param", 2), ("bin", "Sub", ("field", base, "cap"), ("field", base, "len"))):
                    bad_true = (path, touched)
    key = "%s|false => unchanged" % bid
    if bad_false:
        out.append((key, False, "a path returns false after modifying the handle / moving bytes (%s): try_reclaim must leave address, length and capacity unchanged" % ", ".join(bad_false[1]),
                    {"path": "bb" + "->bb".join(str(x) for x in bad_false[0])}))
    elif n_false == 0:
        out.append((key, False, "no path returns false", None))
    else:
        out.append((key, True, "%d paths return false, none of them writes a field or moves bytes before" % n_false, None))
    if flag is not None:
        key = "%s|false only when told not to allocate" % bid
        if bad_flag:
            out.append((key, False, "a path returns false although the caller allowed allocation (no `!allocate` condition on it): `reserve` discards the result, so it "
                                    "would return without the capacity it promises (an overflowing request must panic, not be dropped)",
                        {"path": "bb" + "->bb".join(str(x) for x in bad_flag)}))
        else:
            out.append((key, True, "%d paths return false, each under the condition that allocation was not allowed" % n_false, None))
    key = "%s|true => capacity re-established" % bid
    if bad_true:
        out.append((key, False, "a path returns true without reassigning cap", {"path": "bb" + "->bb".join(str(x) for x in bad_true[0])}))
    else:
        out.append((key, True, "%d paths return true, each through a justified cap write" % n_true, None))
    return out


def reserve_promise(res, facts):
    """when the reservation helper returns true, capacity() - len() >= additional: every cap it writes is
    related to NEW = len + additional (checked) by one of the recognised arguments"""
    b0 = reserve_helper(facts)
    if b0 is None:
        seen = set()
        total = 0
        for root, view in reserve_roots(facts):
            for (key, ok, text, extra) in promise_verdicts(facts, view, root.id, min_writes=0):
                total += 1
                if (key, ok, text) in seen:
                    continue
                seen.add((key, ok, text))
                (res.ok if ok else res.bad)(key, root.loc(), text + " (judged at the public entry point, helpers inlined)", **({} if not ok else {"nontrivial": True}))
        if total < 4:
            res.bad("reserve|promise|cap writes", "-", "only %d capacity writes found below reserve / try_reclaim: the rule would pass vacuously" % total)
        return
    judged_on_views(res, facts, b0, lambda v: promise_verdicts(facts, v, b0.id))


def promise_numeric(facts, b):
    """reserve's promise as an entailment: on every path of the reservation helper that returns true, the state at the end of
    the path (stores and Vec mutations applied, rules/pathstate.py) satisfies  len + additional <= cap  in the linear-inequality
    domain, given the relations on the path's release-mode edges and the documented effects of the Vec calls met on it.
    -> (n_paths, failing) with failing = [(path, cap expression)]"""
    from .pathstate import StatePathBuilder
    from .lin import State
    n = 0
    failing = []
    for path in enumerate_paths(b, limit=8000):
        sp = StatePathBuilder(b, facts, path)
        end = (path[-1], len(b.blocks[path[-1]]["stmts"]))
        ret = canon(sp.local(0, end))
        if not (isinstance(ret, tuple) and ret and ret[0] == "const" and ret[1] in (1, True)):
            continue
        n += 1
        fld = lambda i, nm: canon(sp.place({"l": 1, "p": ["*", {"f": i, "n": nm, "adt": HANDLE}]}, end))
        cap_, len_ = fld(2, "cap"), fld(1, "len")
        st = State(sp.path_relations() + sp.vec_facts())
        if not st.entails(("le", ("bin", "Add", len_, ("param", 2)), cap_)):
            failing.append((path, cap_))
    return n, failing


def promise_numeric_verdict(res, facts):
    b0 = reserve_helper(facts)
    if b0 is None:
        return
    fields = [f["name"] for a in [facts.adts.get(HANDLE)] if a for v in a["variants"] for f in v["fields"]]
    if fields[:3] != ["ptr", "len", "cap"]:
        return          # field order changed: the place constructor above would be wrong; the pattern rules still decide
    n, failing = promise_numeric(facts, b0)
    how = ""
    if failing:
        for ib in views(facts, b0, keep_names=("rebuild_vec", "offset_from", "vptr", "release_shared", "is_unique", "get_vec_pos", "set_vec_pos", "kind")):
            n2, f2 = promise_numeric(facts, ib)
            if n2 and not f2:
                n, failing, how = n2, [], " (with helpers inlined)"
                break
    key = "%s|promise|every true-returning path" % b0.id
    if n == 0:
        res.bad(key, b0.loc(), "no path of the reservation helper returns true")
    elif failing:
        path, cap_ = failing[0]
        res.bad(key, b0.loc(), "on the path bb%s the helper returns true with cap = %s, which the conditions on that path and the documented effects of the Vec "
                               "calls on it do not make >= len + additional: reserve(n) / try_reclaim(n) can return with capacity() - len() < n" % (
                                   "->bb".join(str(x) for x in path), fmt_expr(cap_)[:110]), path="bb" + "->bb".join(str(x) for x in path))
    else:
        res.ok(key, b0.loc(), "%d paths return true; on each, len + additional <= cap is entailed by the path's conditions and the effects of the Vec calls "
                              "(state at the end of the path, linear-inequality domain)%s" % (n, how), nontrivial=True)


def promise_verdicts(facts, b, bid, min_writes=4):
    out = []
    eb = ExprBuilder(b, facts, inline=True)
    cfg = cfg_of(b)
    calls = calls_with(b, eb)
    base = ("deref", ("param", 1))
    ln = ("field", base, "len")
    cap = ("field", base, "cap")
    add = ("param", 2)

    def is_new(e):
        e = uncast(e)
        if isinstance(e, tuple) and e[0] == "field" and isinstance(e[1], tuple) and e[1][0] == "variant" and is_call(e[1][1], "checked_add"):
            a = e[1][1][2]
            return set(a) == {ln, add}
        return False

    def contains_new_plus(e, off):
        """e >= NEW + off : e is (a max over) a checked sum of NEW and off"""
        for x in walk(e):
            if is_call(x, "checked_add") and any(is_new(y) for y in x[2]) and (off is None or off in x[2]):
                return True
        return False
    cnt = 0
    for w in writes_of(b, facts, eb):
        if w["kind"] != "write" or w["field"] != "cap":
            continue
        cnt += 1
        C = w["expr"]
        key = "%s|promise|cap#%d" % (bid, cnt)
        ctx = Ctx(b, w["bb"], facts)
        wloc = (w["bb"], w["si"])
        ok, how = False, ""
        if is_new(C):
            ok, how = True, "cap = len + additional (checked)"
        elif is_call(C, "capacity"):
            V = C[2][0]
            rv = strip_ref(V)
            if is_call(rv, "with_capacity") and (is_new(rv[2][0]) or (is_call(rv[2][0], "max") and any(is_new(x) for x in rv[2][0][2]))):
                ok, how = True, "capacity of a fresh Vec::with_capacity(max(len + additional, _))"
            else:
                for r in ctx.rels:
                    if r[0] in ("le", "lt") and is_new(r[1]) and r[2] == C:
                        ok, how = True, "guard len + additional <= capacity(v)"
        elif isinstance(C, tuple) and C[0] == "bin" and C[1] == "Sub" and is_call(C[2], "capacity"):
            V = strip_ref(C[2][2][0])
            off = C[3]
            for (bi, p, nm, a) in calls:
                if nm == "reserve" and "Vec" in p and strip_ref(a[0]) == V and cfg.loc_dominates((bi, 10 ** 6), wloc):
                    k = a[1]
                    if rebuilt_parts(V) and rebuilt_parts(V)[1] == ln and rebuilt_parts(V)[3] == off and k == add:
                        ok, how = True, "rebuild_vec(.., len, .., off).reserve(additional): capacity >= len + off + additional"
                    elif isinstance(k, tuple) and k[0] == "bin" and k[1] == "Sub" and contains_new_plus(k[2], off) and is_call(k[3], "len") and strip_ref(k[3][2][0]) == V:
                        ok, how = True, "v.reserve(X - v.len()) with X >= len + additional + off: capacity >= X"
                    elif isinstance(k, tuple) and k[0] == "bin" and k[1] == "Sub" and contains_new_plus(k[2], off) and any(
                            nm2 == "set_len" and "Vec" in p2 and strip_ref(a2[0]) == V and canon(uncast(a2[1])) == canon(uncast(k[3])) and cfg.loc_dominates((bi2, 10 ** 6), (bi, 0))
                            for (bi2, p2, nm2, a2) in calls):
                        ok, how = True, "v.set_len(E); v.reserve(X - E) with X >= len + additional + off: capacity >= X"
        elif isinstance(C, tuple) and C[0] == "bin" and C[1] == "Add" and C[2] == cap:
            off = C[3]
            want = ("bin", "Add", ("bin", "Sub", cap, ln), off)
            for r in ctx.rels:
                if r[0] in ("le", "lt") and r[1] == add and r[2] == want:
                    ok, how = True, "guard additional <= (cap - len) + off with cap += off"
        if ok:
            out.append((key, True, how, None))
        else:
            out.append((key, False, "capacity is re-established as %s without relating it to len + additional: reserve(n)/try_reclaim(n) could return "
                                    "with capacity() - len() < n" % fmt_expr(C)[:100], None))
    if cnt < min_writes:
        out.append(("%s|promise|cap writes" % bid, False, "only %d capacity writes found in the reservation helper (expected >= 4): the rule would pass vacuously" % cnt, None))
    return out

