"""C2 CODEC-NAME — every typed getter / putter of Buf / BufMut uses the conversion function, integer
type, byte order and width that its *name* promises; get_X and try_get_X have the same decode
signature; error fields are filled from the right values."""
import re
from .base import Result, RuleError
from .facts import callee, is_unresolved
from .flow import ExprBuilder, cfg_of, contains, fmt_expr, walk

NAME = re.compile(r"^(try_)?(get|put)_(u8|i8|u16|i16|u32|i32|u64|i64|u128|i128|f32|f64|uint|int)(_le|_ne)?$")
CONV = re.compile(r"^core::num::<impl (u|i)(\d+)>::(from|to)_(be|le|ne)_bytes$")
ARITH = ("BitAnd", "BitOr", "BitXor", "Shl", "Shr", "Add", "Sub", "Mul", "AddWithOverflow", "SubWithOverflow", "MulWithOverflow", "ShlUnchecked", "ShrUnchecked", "AddUnchecked", "SubUnchecked")
BITS = re.compile(r"^core::f(\d+)::<impl f(\d+)>::(from|to)_bits$")


def eval_width(e, n, depth=0):
    """value of an integer expression that depends only on the width argument nbytes (= ('param', 2)) and literals, for nbytes = n;
    None when it is anything else (finite-domain abstract evaluation: nbytes ranges over 0..=8)"""
    from .flow import canon
    M = (1 << 64) - 1
    if depth > 30 or not isinstance(e, tuple) or not e:
        return None
    h = e[0]
    if h == "const":
        return e[1] if isinstance(e[1], int) and not isinstance(e[1], bool) else None
    if h == "param":
        return n if e[1] == 2 else None
    if h in ("cast",):
        return eval_width(e[2], n, depth + 1)
    if h in ("ref", "deref"):
        return eval_width(e[1], n, depth + 1)
    if h == "bin":
        a, b = eval_width(e[2], n, depth + 1), eval_width(e[3], n, depth + 1)
        if a is None or b is None:
            return None
        op = e[1].replace("WithOverflow", "").replace("Unchecked", "")
        if op == "Add":
            return (a + b) & M
        if op == "Sub":
            return (a - b) & M if a >= b else None
        if op == "Mul":
            return (a * b) & M
        if op == "Shl":
            return (a << b) & M if b < 64 else None
        if op == "Shr":
            return a >> b if b < 64 else None
        if op == "BitAnd":
            return a & b
        if op == "BitOr":
            return a | b
        return None
    if h == "call":
        nm = str(e[1]).rsplit("::", 1)[-1]
        if nm == "len" and e[2]:
            # len(buf.get_mut(..n).unwrap()) / len(&buf[..n]) = n
            for x in walk(e[2][0]):
                if isinstance(x, tuple) and x and x[0] == "agg" and "RangeTo" in str(x[1]) and x[2]:
                    return eval_width(x[2][0], n, depth + 1)
            return None
        if nm in ("checked_shr", "checked_shl") and len(e[2]) == 2:
            a, b = eval_width(e[2][0], n, depth + 1), eval_width(e[2][1], n, depth + 1)
            if a is None or b is None:
                return None
            if b >= 64:
                return ("none",)
            return (a >> b) if nm == "checked_shr" else (a << b) & M
        if nm in ("wrapping_shr", "wrapping_shl") and len(e[2]) == 2:
            a, b = eval_width(e[2][0], n, depth + 1), eval_width(e[2][1], n, depth + 1)
            if a is None or b is None:
                return None
            b &= 63
            return (a >> b) if nm == "wrapping_shr" else (a << b) & M
        if nm == "unwrap_or" and len(e[2]) == 2:
            a = eval_width(e[2][0], n, depth + 1)
            if a == ("none",):
                return eval_width(e[2][1], n, depth + 1)
            return a
        if nm in ("saturating_sub",) and len(e[2]) == 2:
            a, b = eval_width(e[2][0], n, depth + 1), eval_width(e[2][1], n, depth + 1)
            return None if a is None or b is None else max(a - b, 0)
        if nm in ("min", "max") and len(e[2]) == 2:
            a, b = eval_width(e[2][0], n, depth + 1), eval_width(e[2][1], n, depth + 1)
            return None if a is None or b is None else (min(a, b) if nm == "min" else max(a, b))
    return None


def width_arith_ok(op, decoded_left, other, order, ty):
    """arithmetic applied to a decoded 8-byte word in a variable-width getter: accepted only when, for every width 0..=8, it is exactly the
    operation that keeps the `nbytes` bytes of the value - `word & low_mask(nbytes)` on a little-endian word, `word >> 8 * (8 - nbytes)` on a
    big-endian one.  -> True or a reason"""
    if ty not in ("uint", "int"):
        return "the result is not the value of the bytes read"
    op = op.replace("WithOverflow", "").replace("Unchecked", "")
    bad = []
    for n in range(0, 9):
        v = eval_width(other, n)
        if v is None or v == ("none",):
            return "the other operand is not a function of the width argument alone, so the result cannot be shown to be the value of the bytes read"
        if op == "BitAnd" and order == "le":
            want = (1 << (8 * n)) - 1
        elif op == "Shr" and order == "be" and decoded_left:
            want = 8 * (8 - n)
            if want == 64:
                want = None         # a shift by 64 is not expressible: nbytes = 0 must be handled separately
        else:
            return "`%s` does not select the low / high `nbytes` bytes of a %s-endian word" % (op, order)
        if want is None or v != want:
            bad.append((n, v, want))
    if bad:
        n, v, want = bad[0]
        return "for nbytes = %d the operand is %#x where %s is needed: the result is not the value of the %d byte(s) read" % (
            n, v, ("%#x" % want) if want is not None else "no single shift", n)
    return True


def value_root(e):
    """strip bit-preserving conversions from a value expression"""
    from .flow import canon
    e = canon(e)
    for _ in range(8):
        if not isinstance(e, tuple) or not e:
            break
        if e[0] in ("ref", "deref"):
            e = e[1]
        elif e[0] == "cast":
            e = e[2]
        elif e[0] == "call" and len(e[2]) == 1 and (BITS.match(e[1]) or e[1].rsplit("::", 1)[-1] in ("to_bits", "cast_unsigned", "cast_signed")):
            e = e[2][0]
        else:
            break
    return e


def family_bodies(facts, body):
    """the method body, all closures nested in it, and the private non-trait helper functions it calls (with their
    closures): `try_get_uint_be_impl(self, nbytes)` shared by get_uint and try_get_uint. Trait methods of Buf / BufMut are
    never followed (they are recorded as delegations), nor is sign_extend (recorded as a transform)."""
    out = [body]
    seen = {body.did}
    st = [body]
    spliced = set(body._cache.get("inlined_from") or ())         # an inlined view: what was spliced in is already part of `body`
    while st:
        x = st.pop()
        for c in facts.children.get(x.did, []):
            if c.kind == "closure" and c.did not in seen and c.id not in spliced:
                seen.add(c.did)
                out.append(c)
                st.append(c)
        for _, t in x.calls():
            fn = callee(t)
            if fn is None or fn.get("trait"):
                continue
            r = fn.get("res") or {}
            if not r.get("local") or r.get("did") is None or r["did"] in seen:
                continue
            cb = facts.by_did.get(r["did"])
            if cb is None or cb.kind != "fn" or fn["name"] == "sign_extend" or fn["name"].startswith("panic_") or str(cb.vis).startswith("Public"):
                continue
            if len(seen) > 12:
                continue
            seen.add(cb.did)
            out.append(cb)
            st.append(cb)
    return out


def live_blocks(body):
    """blocks reachable from entry when switches on literal constants are folded
    (cfg!(target_endian = ..) is a literal `const false/true` in MIR)"""
    from .flow import defs_of
    defs = defs_of(body)

    def const_of(op):
        if op["k"] == "const" and "v" in op:
            return op["v"]
        if op["k"] in ("copy", "move") and not op["pl"]["p"]:
            ds = defs.get(op["pl"]["l"], [])
            if len(ds) == 1 and ds[0][2] == "assign" and ds[0][3]["k"] == "use" and not (1 <= op["pl"]["l"] <= body.arg_count):
                return const_of(ds[0][3]["op"])
        return None

    seen = set()
    st = [0]
    while st:
        b = st.pop()
        if b in seen:
            continue
        seen.add(b)
        t = body.blocks[b]["term"]
        k = t["k"]
        if k == "switch" and const_of(t["discr"]) is not None:
            v = const_of(t["discr"])
            tgt = t["otherwise"]
            for val, dst in t["targets"]:
                if val == v:
                    tgt = dst
            st.append(tgt)
            continue
        if k == "goto":
            st.append(t["target"])
        elif k == "switch":
            st.extend(x[1] for x in t["targets"])
            st.append(t["otherwise"])
        elif k in ("drop", "assert"):
            st.append(t["target"])
        elif k == "call" and t["target"] is not None:
            st.append(t["target"])
    return seen


def dead_const_blocks(body):
    return set(range(len(body.blocks))) - live_blocks(body)


class Sig:
    def __init__(self):
        self.transforms = set()
        self.delegates = []     # (method name, arg exprs)
        self.dead_delegates = []
        self.notes = []


def closure_captures(facts, fb):
    """the operands captured by closure `fb`, as expressions of its parent function (through nested closures)"""
    parent = facts.by_did.get(fb.parent_did)
    if parent is None:
        return None
    peb = ExprBuilder(parent, facts, inline=False)
    for bi, blk in enumerate(parent.blocks):
        for si, st in enumerate(blk["stmts"]):
            if st["k"] == "assign" and st["rv"]["k"] == "agg" and st["rv"].get("ak") == "closure" and st["rv"].get("closure_did") == fb.did:
                caps = [peb.operand(o, (bi, si)) for o in st["rv"]["ops"]]
                if parent.kind == "closure":
                    caps = [in_parent_terms(facts, parent, c) for c in caps]
                return caps
    return None


def in_parent_terms(facts, fb, e):
    """rewrite an expression of closure `fb` so that captured variables read as the enclosing function's expressions"""
    caps = closure_captures(facts, fb) if fb.kind == "closure" else None
    if not caps:
        return e
    from .flow import _replace

    def sub(x):
        if x[0] == "field" and x[1] in (("param", 1), ("deref", ("param", 1))) and str(x[2]).isdigit() and int(x[2]) < len(caps):
            return caps[int(x[2])]
        if x[0] == "deref" and isinstance(x[1], tuple) and x[1] and x[1][0] == "ref":
            return x[1][1]
        return None
    return _replace(e, sub)


def method_sig(facts, body, trait_path):
    s = Sig()
    for fb in family_bodies(facts, body):
        live = live_blocks(fb)
        eb = ExprBuilder(fb, facts, inline=False)
        if fb.kind == "closure":
            class _EB:                      # operands of a closure in the terms of the method that wrote it
                def operand(self_, o, loc, _eb=eb, _fb=fb):
                    return in_parent_terms(facts, _fb, _eb.operand(o, loc))
            eb = _EB()
        for bi, blk in enumerate(fb.blocks):
            if blk["cleanup"]:
                continue
            for si, st in enumerate(blk["stmts"]):
                if bi in live and st["k"] == "assign" and st["rv"]["k"] == "bin" and st["rv"]["op"] in ARITH:
                    # arithmetic on a value that came out of from_*_bytes / from_bits: the decoded value is no longer the bytes' value
                    for o in (st["rv"]["a"], st["rv"]["b"]):
                        e_ = eb.operand(o, (bi, si))
                        def decodes(x):
                            if isinstance(x, tuple) and x and x[0] == "call" and (CONV.match(str(x[1])) and "::from_" in str(x[1]) or (BITS.match(str(x[1])) and "::from_bits" in str(x[1]))):
                                return True
                            if isinstance(x, tuple) and x and x[0] == "call" and str(x[1]).rsplit("::", 1)[-1] in ("map", "and_then", "map_or", "map_or_else", "call_once", "call", "call_mut"):
                                # `.map(|src| u64::from_le_bytes(..))`: the value is what the closure handed to the combinator decodes
                                for a_ in x[2]:
                                    while isinstance(a_, tuple) and a_ and a_[0] in ("ref", "deref"):
                                        a_ = a_[1]
                                    if isinstance(a_, tuple) and len(a_) >= 2 and a_[0] == "closure" and a_[1] in facts.by_did:
                                        for _, ct in facts.by_did[a_[1]].calls():
                                            cf = callee(ct)
                                            cp = ((cf.get("res") or cf)["path"]) if cf else ""
                                            if (CONV.match(cp) and "::from_" in cp) or (BITS.match(cp) and "::from_bits" in cp):
                                                return True
                            return False
                        if any(decodes(x) for x in walk(e_)):
                            other = st["rv"]["b"] if o is st["rv"]["a"] else st["rv"]["a"]
                            s.notes.append(("arith_on_decoded", (st["rv"]["op"], o is st["rv"]["a"], eb.operand(other, (bi, si)), fmt_expr(e_)[:60])))
                            break
                if bi in live and st["k"] == "assign" and st["rv"]["k"] == "cast" and st["rv"]["ck"] == "IntToInt":
                    src_ty = None
                    op = st["rv"]["op"]
                    if op["k"] in ("copy", "move") and not op["pl"]["p"]:
                        src_ty = fb.locals[op["pl"]["l"]]["ty"]
                    if st["rv"]["ty"] in ("i8", "u8") and src_ty in ("i8", "u8") and src_ty != st["rv"]["ty"]:
                        s.transforms.add("cast:%s->%s" % (src_ty, st["rv"]["ty"]))
            t = blk["term"]
            if t["k"] != "call":
                continue
            fn = callee(t)
            if fn is None:
                continue
            if bi in live:
                # conversion functions handed to a combinator as values: `.map(f32::from_bits)`
                for a in t["args"]:
                    if a["k"] == "const" and a.get("fn"):
                        ap = (a["fn"].get("res") or a["fn"])["path"]
                        m = CONV.match(ap)
                        if m:
                            s.transforms.add("%s%s::%s_%s_bytes" % (m.group(1), m.group(2), m.group(3), m.group(4)))
                        m = BITS.match(ap)
                        if m:
                            s.transforms.add("f%s::%s_bits" % (m.group(2), m.group(3)))
            res = fn.get("res") or fn
            path = res["path"]
            full = res["full"]
            if bi not in live:
                if fn.get("trait") == trait_path and NAME.match(fn["name"]):
                    s.dead_delegates.append(fn["name"])
                continue
            m = CONV.match(path)
            if m:
                s.transforms.add("%s%s::%s_%s_bytes" % (m.group(1), m.group(2), m.group(3), m.group(4)))
                if m.group(3) == "to" and t["args"]:
                    s.notes.append(("encode_arg", eb.operand(t["args"][0], (bi, len(blk["stmts"])))))
                continue
            m = BITS.match(path)
            if m:
                s.transforms.add("f%s::%s_bits" % (m.group(2), m.group(3)))
                if m.group(3) == "to" and t["args"]:
                    s.notes.append(("encode_arg", eb.operand(t["args"][0], (bi, len(blk["stmts"])))))
                if m.group(3) == "from" and t["args"]:
                    s.notes.append(("bits_arg", eb.operand(t["args"][0], (bi, len(blk["stmts"])))))
                continue
            if res.get("local") and fn["name"] == "sign_extend":
                loc = (bi, len(blk["stmts"]))
                a = [eb.operand(x, loc) for x in t["args"]]
                s.transforms.add("sign_extend")
                s.notes.append(("sign_extend_args", a))
                continue
            if fn.get("trait") == trait_path and NAME.match(fn["name"]):
                loc = (bi, len(blk["stmts"]))
                s.delegates.append((fn["name"], [eb.operand(x, loc) for x in t["args"]]))
                continue
            # slicing of the 8-byte array for variable-width codecs
            if "RangeTo<usize>" in full and fn["name"] in ("get", "get_mut", "index", "index_mut"):
                loc = (bi, len(blk["stmts"]))
                a = eb.operand(t["args"][1], loc)
                if contains(a, ("param",)):
                    s.transforms.add("head[..n]")   # `..SIZE` (constant) is the fixed-width fast path, not a width
            if "RangeFrom<usize>" in full and fn["name"] in ("get", "get_mut", "index", "index_mut"):
                loc = (bi, len(blk["stmts"]))
                a = eb.operand(t["args"][1], loc)
                if any(isinstance(x, tuple) and ((x[0] == "call" and x[1].endswith("checked_sub") and contains(x[2][1], ("param",)))
                                                 or (x[0] == "bin" and x[1] in ("Sub", "SubWithOverflow", "SubUnchecked") and contains(x[3], ("param",))
                                                     and (x[2][0] == "const" or (x[2][0] == "call" and x[2][1].rsplit("::", 1)[-1] in ("size_of", "size_of_val", "len"))))) for x in walk(a)):
                    s.transforms.add("tail[size-n..]")     # the start is `SIZE - nbytes`, however the subtraction is spelt
                else:
                    s.transforms.add("from[?..]")
            if fn["name"] == "index" and "[u8]" in full and "usize" in fn.get("args", [""])[-1:] and False:
                pass
    return s


def target_endian(facts):
    for c in facts.cfg:
        if c.startswith("target_endian="):
            return "be" if "big" in c else "le"
    raise RuleError("target_endian not in cfg")


def expected(name, te):
    m = NAME.match(name)
    tr, dirn, ty, order = m.group(1), m.group(2), m.group(3), (m.group(4) or "_be")[1:]
    conv = "from" if dirn == "get" else "to"
    if ty in ("u8", "i8"):
        exp = set()
        if ty == "i8":
            exp.add("cast:u8->i8" if dirn == "get" else "cast:i8->u8")
        return exp
    if ty in ("f32", "f64"):
        w = ty[1:]
        return {"f%s::%s_bits" % (w, conv), "u%s::%s_%s_bytes" % (w, conv, order)}
    if ty in ("uint", "int"):
        o = te if order == "ne" else order
        base = "u64" if (ty == "uint" or dirn == "get") else "i64"
        exp = {"%s::%s_%s_bytes" % (base, conv, o), "tail[size-n..]" if o == "be" else "head[..n]"}
        if ty == "int" and dirn == "get":
            exp.add("sign_extend")
        return exp
    return {"%s::%s_%s_bytes" % (ty, conv, order)}


WANTS_PROP = True


def run(facts, prop=None):
    res = Result("C2", "typed getters/putters use the conversion, type, byte order and width their name promises; "
                       "get_X and try_get_X decode identically; TryGetError fields come from the right values")
    te = target_endian(facts)
    n_get = n_put = 0
    for trait_path, tname in (("buf::buf_impl::Buf", "Buf"), ("buf::buf_mut::BufMut", "BufMut")):
        if (prop == "C10" and tname != "Buf") or (prop == "C11" and tname != "BufMut"):
            continue
        tr = facts.traits.get(trait_path)
        if tr is None:
            raise RuleError("trait %s not found" % trait_path)
        methods = {}
        for it in tr["items"]:
            if it["kind"].startswith("Fn") and NAME.match(it["name"]) and it.get("has_default"):
                b = facts.by_did.get(it.get("did"))
                if b is None:
                    raise RuleError("no MIR for default method %s" % it["path"])
                methods[it["name"]] = b
        sigs = {n: method_sig(facts, b, trait_path) for n, b in methods.items()}

        def terminal(n, stack=()):
            if n in stack or n not in sigs:
                return {"?cycle-or-missing:" + n}
            s = sigs[n]
            out = set(s.transforms)
            for d, _ in s.delegates:
                out |= terminal(d, stack + (n,))
            return out

        # pass 1: a private helper shared by both byte orders and steered by a literal argument (`var_width_dst(buf, n, big_endian: bool)`)
        # contributes both of its branches to the family: such a method is read with its helpers spliced in, where the literal folds
        from .inline import views as _views
        for n, b in sorted(methods.items()):
            if terminal(n) == expected(n, te):
                continue
            for ib in _views(facts, b, keep_names=("sign_extend",)):
                s2 = method_sig(facts, ib, trait_path)
                old_ = sigs[n]
                sigs[n] = s2
                if terminal(n) == expected(n, te):
                    break
                sigs[n] = old_
        for n, b in sorted(methods.items()):
            loc = b.loc()
            key = "%s::%s" % (tname, n)
            if n.startswith(("get", "try_get")):
                n_get += 1
            else:
                n_put += 1
            exp = expected(n, te)
            got = terminal(n)
            # one byte has one encoding: `to_{be,le,ne}_bytes` of a u8 is the byte itself, of an i8 its `as u8` cast
            if NAME.match(n) and NAME.match(n).group(3) in ("u8", "i8"):
                got = type(got)(x for x in (("cast:i8->u8" if re.match(r"i8::to_(be|le|ne)_bytes$", str(y)) else (None if re.match(r"u8::to_(be|le|ne)_bytes$", str(y)) else y)) for y in got) if x is not None)
            s = sigs[n]
            problems = []
            if got != exp:
                problems.append("decode/encode signature %s differs from what the name requires %s" % (sorted(got), sorted(exp)))
            m = NAME.match(n)
            ty, order = m.group(3), (m.group(4) or "_be")[1:]
            # delegation discipline
            for d, args in s.delegates:
                dm = NAME.match(d)
                if dm.group(2) != m.group(2):
                    problems.append("delegates across get/put: %s" % d)
                if (dm.group(1) or "") != (m.group(1) or ""):
                    problems.append("delegates across try_/non-try: %s" % d)
            if order == "ne" and ty in ("uint", "int"):
                want_live = "%s%s_%s%s" % (m.group(1) or "", m.group(2), ty, "" if te == "be" else "_le")
                want_dead = "%s%s_%s%s" % (m.group(1) or "", m.group(2), ty, "_le" if te == "be" else "")
                live = [d for d, _ in s.delegates]
                if live != [want_live] or s.dead_delegates != [want_dead]:
                    problems.append("native-endian dispatch: live=%s dead=%s, expected live=[%s] dead=[%s]" % (live, s.dead_delegates, want_live, want_dead))
            if ty == "int" and m.group(2) == "get" and order != "ne":
                # sign_extend(<unsigned getter>(nbytes), nbytes) with the same nbytes
                for tag, a in s.notes:
                    if tag == "sign_extend_args":
                        nb = a[1]
                        dn = [x for d, x in s.delegates]
                        if not dn or dn[0][-1] != nb or nb != ("param", 2):
                            problems.append("sign_extend width operand differs from the width passed to the unsigned getter")
            # value flow of a putter: what is encoded (or handed to the delegate) is the caller's value itself - the parameter through
            # bit-preserving conversions only (to_bits, same-width / widening integer casts), on every path
            if m.group(2) == "put":
                vals = [a for tag, a in s.notes if tag == "encode_arg"] + [args[1] for d, args in s.delegates if len(args) > 1]
                for v in vals:
                    if value_root(v) != ("param", 2):
                        problems.append("the value encoded is not the argument itself: %s" % fmt_expr(v)[:80])
                        break
            # a putter writes its encoding and nothing else, on every path: each write it makes through `self` is the delegate it is built on or
            # `put_slice(<the to_*_bytes of the value>)`, and no path returns without one (a `n == 0.0 => put_bytes(0, 8)` fast path writes the
            # encoding of +0.0 for -0.0 as well)
            if m.group(2) == "put" and b.kind in ("fn", "assoc_fn"):
                from .flow import ExprBuilder as _EB, cfg_of as _cfg, canon as _canon, walk as _walk
                ebp = _EB(b, facts, inline=False)
                okw, badw = set(), []
                dnames = {d for d, _ in s.delegates} | set(s.dead_delegates)
                for bi_, t_ in b.calls():
                    fn_ = callee(t_)
                    if fn_ is None or b.blocks[bi_]["cleanup"] or not t_["args"]:
                        continue
                    nm_ = fn_["name"]
                    if not (nm_.startswith("put") or nm_ in ("advance_mut", "chunk_mut")):
                        continue
                    r_loc = fn_.get("res") or {}
                    if r_loc.get("local") and not fn_.get("trait"):
                        # a private helper of the crate that is handed `self` and the encoding (`put_be_low_bytes(self, n.to_be_bytes(), nbytes)`)
                        if any(isinstance(x, tuple) and x and x[0] == "call" and re.search(r"to_(be|le|ne)_bytes$", str(x[1]))
                               for a_ in t_["args"][1:] for x in _walk(ebp.operand(a_, (bi_, len(b.blocks[bi_]["stmts"]))))):
                            okw.add(bi_)
                        continue
                    a0 = _canon(ebp.operand(t_["args"][0], (bi_, len(b.blocks[bi_]["stmts"]))))
                    while isinstance(a0, tuple) and a0 and a0[0] in ("ref", "deref"):
                        a0 = a0[1]
                    if a0 != ("param", 1):
                        continue
                    if nm_ in dnames:
                        okw.add(bi_)
                    elif nm_ == "put_slice" and len(t_["args"]) > 1 and any(
                            isinstance(x, tuple) and x and x[0] == "call" and re.search(r"to_(be|le|ne)_bytes$", str(x[1])) for x in _walk(ebp.operand(t_["args"][1], (bi_, len(b.blocks[bi_]["stmts"]))))):
                        okw.add(bi_)
                    elif nm_ == "put_slice" and len(t_["args"]) > 1 and any(
                            isinstance(x, tuple) and x and x[0] == "agg" and x[1] == "array" and len(x[2]) == 1 and value_root(x[2][0]) == ("param", 2)
                            for x in _walk(ebp.operand(t_["args"][1], (bi_, len(b.blocks[bi_]["stmts"]))))):
                        okw.add(bi_)            # one byte: `put_slice(&[n as u8])`
                    else:
                        badw.append(nm_)
                if badw:
                    problems.append("writes through %s besides the encoding of its argument" % ", ".join(sorted(set(badw))))
                elif okw:
                    cfgp = _cfg(b)
                    seen_, st_ = {0}, [0] if 0 not in okw else []
                    leak = False
                    while st_ and not leak:
                        x_ = st_.pop()
                        if b.blocks[x_]["term"]["k"] == "return":
                            leak = True
                            break
                        for y_ in cfgp.succ[x_]:
                            if y_ not in seen_ and y_ not in okw and not b.blocks[y_]["cleanup"]:
                                seen_.add(y_)
                                st_.append(y_)
                    if leak:
                        problems.append("a path returns without writing the encoding")
            # value flow of a getter: what from_*_bytes / from_bits decoded is handed out as it is (casts, sign_extend and Result plumbing only)
            if m.group(2) == "get":
                for tag, a in s.notes:
                    if tag == "arith_on_decoded":
                        op_, decoded_left, other, shown = a
                        why = width_arith_ok(op_, decoded_left, other, order if order != "ne" else te, ty)
                        if why is not True:
                            problems.append("arithmetic on the decoded value (%s on %s): %s" % (op_, shown, why))
                            break
            # value flow of a float getter: the bits handed to from_bits are the integer getter's result itself (no arithmetic, no alternative)
            if m.group(2) == "get" and ty in ("f32", "f64"):
                for tag, a in s.notes:
                    if tag == "bits_arg" and (not any(isinstance(x, tuple) and x and x[0] in ("call", "ucall") and NAME.match(str(x[1]).rsplit("::", 1)[-1]) for x in walk(a))
                                              or any(isinstance(x, tuple) and x and x[0] in ("bin", "un", "phi", "const") for x in walk(a))):
                        problems.append("from_bits is not applied to the integer getter's result itself: %s" % fmt_expr(a)[:80])
            # sibling agreement
            if n.startswith("try_get_"):
                sib = n[4:]
                if sib in sigs and terminal(sib) != got:
                    problems.append("sibling %s decodes with %s" % (sib, sorted(terminal(sib))))
            # error fields + cursor movement for fixed-width getters
            if m.group(2) == "get" and ty not in ("uint", "int", "f32", "f64"):
                width = 1 if ty in ("u8", "i8") else int(ty[1:]) // 8
                fp = check_fixed_getter(facts, b, width, trait_path)
                if fp:
                    # the fixed-width fast path may live in a (generic) private helper: judge the inlined views
                    from .inline import views
                    for ib in views(facts, b):
                        if not check_fixed_getter(facts, ib, width, trait_path):
                            fp = []
                            break
                problems += fp
            if problems:
                res.bad(key, loc, "; ".join(problems), got=sorted(got), expected=sorted(exp))
            else:
                res.ok(key, loc, "sig=%s%s" % (sorted(got), " via " + ",".join(d for d, _ in s.delegates) if s.delegates else ""),
                       nontrivial=bool(s.delegates) or ty in ("uint", "int"))
    if prop != "C11":
        res.floor("typed_getters", n_get, 70)
    if prop != "C10":
        res.floor("typed_putters", n_put, 34)
    return res


def const_value(facts, body, op, eb, loc):
    e = eb.operand(op, loc)
    # named constants `SIZE` evaluate to size_of::<T>() calls
    if e[0] == "const" and isinstance(e[1], int):
        return e[1]
    if e[0] == "call" and e[1] == "core::mem::size_of":
        t = e[4][0] if e[4] else None
        return {"u8": 1, "i8": 1, "u16": 2, "i16": 2, "u32": 4, "i32": 4, "u64": 8, "i64": 8, "u128": 16, "i128": 16}.get(t)
    return None


def check_fixed_getter(facts, body, width, trait_path):
    """in the method and its closures: every `advance(c)` has c == width; every TryGetError has
    requested == width and available from remaining() (or literal 0 for the 1-byte getters whose
    guard is `remaining() < 1`)"""
    probs = []
    n_adv = 0
    # an inlined view already contains its closures and helpers (with their const generics instantiated)
    fam = [body] if body._cache.get("inlined_from") else family_bodies(facts, body)
    for fb in fam:
        eb = ExprBuilder(fb, facts, inline=False)
        for bi, blk in enumerate(fb.blocks):
            if blk["cleanup"]:
                continue
            for si, st in enumerate(blk["stmts"]):
                if st["k"] == "assign" and st["rv"]["k"] == "agg" and st["rv"].get("adt", "").endswith("TryGetError"):
                    f = dict(zip(st["rv"]["fields"], st["rv"]["ops"]))
                    rq = const_value(facts, fb, f["requested"], eb, (bi, si))
                    if rq != width:
                        probs.append("TryGetError.requested is %s, expected %d" % (rq, width))
                    av = eb.operand(f["available"], (bi, si))
                    ok = (av[0] == "ucall" and av[1].endswith("Buf::remaining")) or \
                         (av[0] == "call" and av[5].endswith("Buf::remaining")) or (width == 1 and av == ("const", 0))
                    if not ok:
                        probs.append("TryGetError.available is not remaining(): %s" % fmt_expr(av))
            t = blk["term"]
            if t["k"] == "call":
                fn = callee(t)
                if fn and fn.get("trait") == trait_path and fn["name"] == "advance":
                    n_adv += 1
                    c = const_value(facts, fb, t["args"][1], eb, (bi, len(blk["stmts"])))
                    if c != width:
                        probs.append("advance(%s) but the value is %d bytes wide" % (c, width))
    if n_adv == 0:
        probs.append("no advance call found")
    return probs
