"""Evaluation of the *state at the end of one control-flow path*: field writes and Vec mutations along the path are applied,
so that `self.cap` after the path, `v.capacity()` after `v.reserve(k)`, `v.len()` after `v.set_len(e)` are distinct values.

StatePathBuilder extends flow.PathExprBuilder:
  * a read of a place `(*p).f` at a location sees the last store to the same place earlier on the path (versioned memory for the
    places the function itself writes; calls are assumed not to write them - the callers of this module check that separately);
  * `Vec::capacity / len / as_ptr / as_mut_ptr` on a receiver are rewritten to semantic atoms
    ("vecprop", which, root, version) where `version` counts the mutating Vec calls on that receiver earlier on the path.

`vec_facts()` returns the relations that std documents for the mutating calls met on the path (reserve: capacity' >= len + k,
len unchanged; set_len(e): len' = e, capacity unchanged; extend_from_slice: len' = len + n) plus what the construction of the
receiver says about version 0 (`rebuild_vec(p, l, c, o)`: len = l + o, capacity = c + o; `with_capacity(k)`: capacity >= k, len = 0)
and len <= capacity for every version.  Used with rules/lin.py to *entail* post-conditions such as reserve's promise.
"""
from .facts import callee
from .flow import PathExprBuilder, canon, normalize_cmp, in_debug_region, has_effects

GETTERS = {"capacity": "capacity", "len": "len", "as_ptr": "ptr", "as_mut_ptr": "ptr"}
MUTATORS = ("reserve", "reserve_exact", "set_len", "extend_from_slice", "push", "truncate", "resize", "clear", "shrink_to_fit", "try_reserve",
            "try_reserve_exact", "drain", "insert", "remove", "append", "extend", "split_off")


def root_of(e):
    e = canon(e)
    while isinstance(e, tuple) and e and e[0] in ("ref", "deref"):
        e = e[1]
    return e


def _proj_key(p):
    return tuple(("f", x["f"]) if isinstance(x, dict) and "f" in x else repr(x) for x in p)


def is_vec_path(p):
    return "alloc::vec::Vec" in p


class StatePathBuilder(PathExprBuilder):
    def __init__(self, body, facts, path, inline=True):
        PathExprBuilder.__init__(self, body, facts, path, inline=inline)
        self.writes = []            # (pos, si, raw place tree, rvalue json, bb)
        self.local_writes = []      # (pos, si, (local, projection key), rvalue json, bb)
        self.mutations = []         # (pos, name, root, args json, bb)
        self._scan = True
        for pos_, bb in enumerate(self.path):
            blk = body.blocks[bb]
            for si, s in enumerate(blk["stmts"]):
                if s["k"] == "assign" and s["pl"]["p"] and isinstance(s["pl"]["p"][-1], dict) and "f" in s["pl"]["p"][-1] and "*" in s["pl"]["p"]:
                    raw = canon(PathExprBuilder.place(self, s["pl"], (bb, si)))
                    self.writes.append((pos_, si, raw, s["rv"], bb))
                elif s["k"] == "assign" and s["pl"]["p"] and isinstance(s["pl"]["p"][-1], dict) and "f" in s["pl"]["p"][-1]:
                    # a field of a local (`ret.len = at` with `ret` a local handle): identified by (local, projection); when the local's value
                    # is itself place-like (a clone, a parameter) also by the tree a read through a reference would produce
                    raw = canon(PathExprBuilder.place(self, s["pl"], (bb, si)))
                    self.local_writes.append((pos_, si, (s["pl"]["l"], _proj_key(s["pl"]["p"])), s["rv"], bb))
                    if isinstance(raw, tuple) and raw and raw[0] == "field":
                        self.writes.append((pos_, si, raw, s["rv"], bb))
            t = blk["term"]
            if t["k"] == "call" and t["args"]:
                fn = callee(t)
                if fn is not None and fn["name"] in MUTATORS and is_vec_path((fn.get("res") or fn).get("path", "")):
                    loc = (bb, len(blk["stmts"]))
                    self.mutations.append((pos_, fn["name"], None, t["args"], bb))
        # crate calls that write through `self` (set_vec_pos, promote_to_shared, ...): what a later crate call on self returns
        # (get_vec_pos(self), kind(self)) is a new value
        self.self_writers = []
        for pos_, bb in enumerate(self.path):
            t = body.blocks[bb]["term"]
            if t["k"] != "call" or not t["args"]:
                continue
            fn = callee(t)
            r = (fn.get("res") or {}) if fn else {}
            if not r.get("local") or r.get("did") is None:
                continue
            cb = facts.by_did.get(r["did"])
            a0 = t["args"][0]
            if cb is not None and has_effects(cb) and a0["k"] in ("copy", "move") and not a0["pl"]["p"] and a0["pl"]["l"] == 1 \
                    and body.locals[1]["ty"].startswith("&mut "):
                self.self_writers.append(pos_)
        self._scan = False
        self.memo.clear()
        # receivers are evaluated with the final semantics (after the scan, so that stores are visible)
        for i, (pos_, nm, _, args, bb) in enumerate(self.mutations):
            loc = (bb, len(body.blocks[bb]["stmts"]))
            self.mutations[i] = (pos_, nm, root_of(self.operand(args[0], loc)), args, bb)

    # ---- versioned memory ---------------------------------------------------------------------
    def place(self, pl, loc, depth=0):
        raw = PathExprBuilder.place(self, pl, loc, depth)
        if self._scan or not pl["p"] or depth > 20:
            return raw
        key = canon(raw)
        here = self.pos.get(loc[0])
        if here is None:
            return raw
        best = None
        if "*" not in pl["p"] and self.local_writes:
            lk = (pl["l"], _proj_key(pl["p"]))
            for (pos_, si, k_, rv, bb) in self.local_writes:
                if k_ == lk and (pos_ < here or (pos_ == here and si < loc[1])):
                    if best is None or (pos_, si) > (best[0], best[1]):
                        best = (pos_, si, k_, rv, bb)
        for (pos_, si, tree, rv, bb) in self.writes:
            if tree == key and (pos_ < here or (pos_ == here and si < loc[1])):
                if best is None or (pos_, si) > (best[0], best[1]):
                    best = (pos_, si, tree, rv, bb)
        if best is None:
            return raw
        return self.rvalue(best[3], (best[4], best[1]), depth + 1)

    # ---- versioned Vec properties ---------------------------------------------------------------
    def version(self, root, loc):
        here = self.pos.get(loc[0])
        n = 0
        for (pos_, nm, r, args, bb) in self.mutations:
            if r == root and here is not None and pos_ < here:
                n += 1
        return n

    def call_expr(self, t, loc, depth):
        fn = callee(t)
        if fn is not None and not self._scan and fn["name"] in GETTERS and t["args"] and is_vec_path((fn.get("res") or fn).get("path", "")):
            root = root_of(self.operand(t["args"][0], loc, depth))
            return ("vecprop", GETTERS[fn["name"]], root, self.version(root, loc))
        e = PathExprBuilder.call_expr(self, t, loc, depth)
        if not self._scan and self.self_writers and isinstance(e, tuple) and e and e[0] == "call" and any(x == ("param", 1) for x in e[2]):
            here = self.pos.get(loc[0])
            n = sum(1 for p_ in self.self_writers if here is not None and p_ < here)
            if n:
                return ("after", n, e)
        return e

    # ---- relations ----------------------------------------------------------------------------------
    def path_relations(self):
        out = []
        body = self.body
        for (s_, d_) in zip(self.path, self.path[1:]):
            t = body.blocks[s_]["term"]
            loc = (s_, len(body.blocks[s_]["stmts"]))
            if in_debug_region(body, s_):
                continue            # conditions of debug_assert! are not facts of a release build
            if t["k"] == "switch":
                c = self.operand(t["discr"], loc)
                vals = [v for v, _ in t["targets"]]
                is_int = t["discr_ty"] in ("usize", "u8", "u16", "u32", "u64", "u128", "isize", "i8", "i16", "i32", "i64", "i128")
                hit = [v for v, dst in t["targets"] if dst == d_]
                if hit and d_ != t["otherwise"]:
                    out.append(normalize_cmp(c, ("eqint", hit[0]) if is_int else ("eq", hit[0])))
                elif d_ == t["otherwise"]:
                    if t["discr_ty"] == "bool" and len(vals) == 1:
                        out.append(normalize_cmp(c, ("eq", 1 - vals[0])))
                    elif is_int:
                        out.append(normalize_cmp(c, ("neint", tuple(vals))))
                    else:
                        out.append(normalize_cmp(c, ("notin", tuple(vals))))
            elif t["k"] == "assert" and t.get("target") == d_:
                c = self.operand(t["cond"], loc)
                out.append(normalize_cmp(c, ("eq", 1 if t["expected"] else 0)))
        return out

    def vec_facts(self):
        """documented effects of the Vec calls met on the path + what the receivers' constructions say about version 0"""
        out = []
        roots = {}
        for (pos_, nm, root, args, bb) in self.mutations:
            roots.setdefault(root, []).append((pos_, nm, args, bb))
        seen_roots = set(roots)
        # receivers that are only read
        for e in list(self.memo.values()):
            for x in _walk(e):
                if isinstance(x, tuple) and len(x) == 4 and x[0] == "vecprop":
                    seen_roots.add(x[2])
        for root in seen_roots:
            muts = roots.get(root, [])
            P = lambda which, v: ("vecprop", which, root, v)
            for v in range(len(muts) + 1):
                out.append(("le", P("len", v), P("capacity", v)))
            # version 0 from the construction
            r = root
            if isinstance(r, tuple) and r and r[0] == "call":
                nm0 = r[1].rsplit("::", 1)[-1]
                if nm0 == "rebuild_vec" and len(r[2]) == 4:
                    p_, l_, c_, o_ = r[2]
                    out.append(("eq", P("len", 0), ("bin", "Add", l_, o_)))
                    out.append(("eq", P("capacity", 0), ("bin", "Add", c_, o_)))
                elif nm0 == "from_raw_parts" and "Vec" in r[1] and len(r[2]) == 3:
                    out.append(("eq", P("len", 0), r[2][1]))
                    out.append(("eq", P("capacity", 0), r[2][2]))
                elif nm0 == "with_capacity" and len(r[2]) == 1:
                    out.append(("le", r[2][0], P("capacity", 0)))
                    out.append(("eq", P("len", 0), ("const", 0)))
            for i, (pos_, nm, args, bb) in enumerate(muts):
                loc = (bb, len(self.body.blocks[bb]["stmts"]))
                a = [canon(self.operand(x, loc)) for x in args[1:]]
                if nm in ("reserve", "reserve_exact") and a:
                    out.append(("le", ("bin", "Add", P("len", i), a[0]), P("capacity", i + 1)))
                    out.append(("eq", P("len", i + 1), P("len", i)))
                    out.append(("le", P("capacity", i), P("capacity", i + 1)))
                elif nm == "set_len" and a:
                    out.append(("eq", P("len", i + 1), a[0]))
                    out.append(("eq", P("capacity", i + 1), P("capacity", i)))
                elif nm == "extend_from_slice" and a:
                    out.append(("eq", P("len", i + 1), ("bin", "Add", P("len", i), ("call", "core::slice::<impl [T]>::len", (a[0],)))))
                    out.append(("le", P("capacity", i), P("capacity", i + 1)))
                elif nm == "resize" and a:
                    out.append(("eq", P("len", i + 1), a[0]))
                    out.append(("le", P("capacity", i), P("capacity", i + 1)))
                elif nm in ("truncate", "clear"):
                    out.append(("le", P("len", i + 1), P("len", i)))
                    out.append(("eq", P("capacity", i + 1), P("capacity", i)))
        return out


def _walk(e):
    if isinstance(e, tuple):
        yield e
        for x in e:
            if isinstance(x, tuple):
                for y in _walk(x):
                    yield y
