"""U3 CHAR-TRUNC: a `char` is never narrowed to one byte unless it is known to be ASCII.

`c as u8` keeps the low 8 bits of the scalar value.  For U+0000..=U+007F that is the UTF-8 encoding; for everything above it is not
(U+00E9 `é` is the two bytes C3 A9, `'é' as u8` is the single byte E9).  A byte sink that takes text - `fmt::Write for BytesMut`, a
`write_char` fast path, an `Extend<char>` - and narrows a char on a path where only `c as u32 <= 0xFF` (or nothing) is known appends
bytes that are not the encoding of what it was given: wrong contents and a wrong length against the `Vec<u8>` / `String` model (C01),
not "exactly the encoded bytes" (C11).

Rule: every MIR cast `IntToInt` from an operand of type `char` to `u8` / `i8` in non-test code is dominated by evidence of ASCII-ness:
`(c as u32) < 0x80` (or `<= 0x7f`), `c < '\\u{80}'`, `c.is_ascii()`, `c.len_utf8() == 1`.  The tree has no such cast; the floor counts the
integer casts the scan walked over (positive example).
"""
from .base import Result
from .facts import callee
from .flow import ExprBuilder, canon, walk, fmt_expr
from .logic import Ctx


def run(facts):
    res = Result("U3", "a char is narrowed to a byte only where it is known to be ASCII (c < 0x80 / is_ascii() / len_utf8() == 1 dominates the cast)")
    n_casts = 0
    for b in facts.fn_bodies():
        if facts.is_test(b):
            continue
        eb = None
        cnt = 0
        for bi, blk in enumerate(b.blocks):
            if blk["cleanup"]:
                continue
            for si, s in enumerate(blk["stmts"]):
                if s["k"] != "assign" or s["rv"]["k"] != "cast" or s["rv"].get("ck") != "IntToInt":
                    continue
                n_casts += 1
                op = s["rv"]["op"]
                if op.get("k") not in ("copy", "move") or op["pl"]["p"] or s["rv"].get("ty") not in ("u8", "i8"):
                    continue
                # the narrowed value is a char, directly or through widening casts / copies (`let code = c as u32; code as u8`)
                from .flow import defs_of
                defs = defs_of(b)
                l, is_char = op["pl"]["l"], False
                for _ in range(8):
                    if b.locals[l]["ty"] == "char":
                        is_char = True
                        break
                    ds = defs.get(l, [])
                    if len(ds) != 1 or ds[0][2] != "assign" or 1 <= l <= b.arg_count:
                        break
                    rv = ds[0][3]
                    src = rv.get("op") if rv["k"] in ("use", "cast") else None
                    if not (isinstance(src, dict) and src.get("k") in ("copy", "move") and not src["pl"]["p"]):
                        break
                    l = src["pl"]["l"]
                if not is_char:
                    continue
                op = {"k": "copy", "pl": {"l": l, "p": []}}
                if eb is None:
                    eb = ExprBuilder(b, facts, inline=True)
                c = canon(eb.operand(op, (bi, si)))
                cnt += 1
                key = "%s|char as u8%s" % (b.id, "#%d" % cnt if cnt > 1 else "")
                ctx = Ctx(b, bi, facts)
                ok = None
                for r in ctx.rels:
                    if not r:
                        continue
                    if r[0] == "truth" and isinstance(r[1], tuple) and r[1] and r[1][0] == "call" and r[1][1].rsplit("::", 1)[-1] == "is_ascii" and r[2] == 1 \
                            and any(y == c for y in walk(r[1])):
                        ok = "c.is_ascii()"
                    if r[0] == "eq" and len(r) > 2 and isinstance(r[1], tuple) and isinstance(r[2], tuple):
                        for x, y in ((r[1], r[2]), (r[2], r[1])):
                            if isinstance(x, tuple) and x and x[0] == "call" and x[1].rsplit("::", 1)[-1] == "len_utf8" and canon(y) == ("const", 1) and any(z == c for z in walk(x)):
                                ok = "c.len_utf8() == 1"
                    if r[0] in ("lt", "le") and len(r) > 2 and isinstance(r[1], tuple) and isinstance(r[2], tuple):
                        x, y = canon(r[1]), canon(r[2])
                        xs = x
                        while isinstance(xs, tuple) and xs and xs[0] == "cast":
                            xs = xs[2]
                        if xs == c and isinstance(y, tuple) and y and y[0] == "const" and isinstance(y[1], int) and ((r[0] == "lt" and y[1] <= 0x80) or (r[0] == "le" and y[1] <= 0x7f)):
                            ok = "c %s %#x" % ("<" if r[0] == "lt" else "<=", y[1])
                if ok:
                    res.ok(key, b.loc(bi), "narrowed under %s" % ok, nontrivial=True)
                else:
                    res.bad(key, b.loc(bi), "`%s as u8` on a path where the char is not known to be ASCII: for U+0080 and above the low byte is not its UTF-8 encoding "
                                            "(one wrong byte is appended instead of two to four)" % fmt_expr(c)[:40])
    res.floor("integer casts walked by the scan (positive example)", n_casts, 5)
    return res
