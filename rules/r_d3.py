"""D3 SERDE-FLOW (feature serde) — Serialize hands the whole view to serialize_bytes; every visitor
entry point returns a value built from its *whole* argument through content-preserving conversions;
visit_seq pushes every element in order and uses size_hint only as a capped capacity."""
from .base import Result, RuleError
from .facts import callee
from .flow import ExprBuilder, canon, walk, fmt_expr, return_expr, cfg_of
from .r_d1 import D1

CONFIGS_QUICK = ["K3"]
CONFIGS_THOROUGH = ["K3"]

CONV = ("bytes::Bytes::copy_from_slice", "<bytes::Bytes as core::convert::From<alloc::vec::Vec<u8>>>::from",
        "<bytes_mut::BytesMut as core::convert::From<&'a [u8]>>::from", "bytes_mut::BytesMut::from_vec",
        "core::str::<impl str>::as_bytes", "alloc::string::String::into_bytes", "alloc::string::String::as_bytes",
        "<bytes_mut::BytesMut as core::convert::From<&'a str>>::from")


def conv_root(e):
    e = canon(e)
    steps = []
    for _ in range(10):
        while isinstance(e, tuple) and e[0] in ("ref", "deref"):
            e = e[1]
        if isinstance(e, tuple) and e[0] == "call" and e[1] in CONV and len(e[2]) == 1:
            steps.append(e[1].rsplit("::", 1)[-1])
            e = e[2][0]
            continue
        break
    return e, steps


def run(facts):
    res = Result("D3", "serde: serialize_bytes(view of self); each visit_* returns Ok(conversion of its whole argument); visit_seq collects every "
                       "element in order, size_hint only as min(_, 4096) capacity; deserialize asks for a byte buffer")
    if not any(c == 'feature="serde"' for c in facts.cfg):
        raise RuleError("fact file was not produced with the serde feature")
    d1 = D1(facts)
    n = 0
    for im in facts.impls:
        tr = im.get("trait") or ""
        if tr == "serde::Serialize" and im["self_ty"] in d1.handles:
            n += 1
            b = facts.by_did[[i for i in im["items"] if i["name"] == "serialize"][0]["did"]]
            e = return_expr(b, facts, inline=False)
            key = "Serialize for %s" % im["self_ty"]
            if e[0] == "ucall" and e[1] == "serde::Serializer::serialize_bytes" and canon(e[2][0]) == ("param", 2) and d1.root(e[2][1]) == 1:
                res.ok(key, b.loc(), "serializer.serialize_bytes(view of self)")
            else:
                res.bad(key, b.loc(), "does not serialize the whole contents with serialize_bytes: %s" % fmt_expr(e)[:120])
        if tr == "serde::Deserialize" and im["self_ty"] in d1.handles:
            n += 1
            b = facts.by_did[[i for i in im["items"] if i["name"] == "deserialize"][0]["did"]]
            e = canon(return_expr(b, facts, inline=False))
            key = "Deserialize for %s" % im["self_ty"]
            if e[0] == "ucall" and e[1] in ("serde::Deserializer::deserialize_byte_buf", "serde::Deserializer::deserialize_bytes") and canon(e[2][0]) == ("param", 1):
                res.ok(key, b.loc(), e[1].rsplit("::", 1)[-1] + "(visitor)")
            else:
                res.bad(key, b.loc(), "does not ask the deserializer for bytes: %s" % fmt_expr(e)[:120])
        if tr == "serde::de::Visitor":
            for it in im["items"]:
                if not it["name"].startswith("visit_"):
                    continue
                n += 1
                b = facts.by_did[it["did"]]
                key = "%s::%s" % (im["self_ty"], it["name"])
                e = return_expr(b, facts, inline=False)
                alts = e[1] if e[0] == "phi" else (e,)
                oks = [a for a in alts if isinstance(a, tuple) and a[0] == "agg" and "Ok" in str(a[1])]
                others = [a for a in alts if a not in oks]
                probs = []
                if it["name"] != "visit_seq":
                    sib = sibling_delegation(facts, im, e)
                    if sib:
                        # tail call of another entry point of the same visitor with the whole argument handed on through content-preserving
                        # conversions: the sibling is judged by this rule itself (chains are followed, cycles rejected)
                        res.ok(key, b.loc(), "delegates to %s" % sib, nontrivial=True)
                        continue
                    if len(oks) != 1 or others:
                        probs.append("does not return a single Ok(..)")
                    else:
                        root, steps = conv_root(oks[0][2][0])
                        if root != ("param", 2):
                            probs.append("result is not built from the whole argument through content-preserving conversions: %s" % fmt_expr(oks[0][2][0])[:120])
                    if probs:
                        res.bad(key, b.loc(), "; ".join(probs))
                    else:
                        res.ok(key, b.loc(), "Ok(%s(arg))" % "(".join(steps), nontrivial=True)
                    continue
                # visit_seq (the collecting loop may live in a private helper that receives the SeqAccess)
                probs, how = check_seq(facts, b, oks, others)
                if probs:
                    res.bad(key, b.loc(), "; ".join(probs))
                else:
                    res.ok(key, b.loc(), how, nontrivial=True)
    res.floor("serde_items", n, 14)
    return res


def sibling_delegation(facts, im, e, seen=()):
    """`e` = sibling_visit_x(self, conv(whole argument)) where the sibling (followed transitively, no cycles) returns its own Ok(..):
    -> description, else None"""
    e = canon(e)
    sibs = {}
    for it in im["items"]:
        if it["name"].startswith("visit_") and it["name"] != "visit_seq":
            sb = facts.by_did.get(it["did"])
            if sb is not None:
                sibs[sb.id] = sb
    if not (isinstance(e, tuple) and e and e[0] == "call" and e[1] in sibs and len(e[2]) == 2 and canon(e[2][0]) == ("param", 1)):
        return None
    root, steps = conv_root(e[2][1])
    if root != ("param", 2) or e[1] in seen:
        return None
    sb = sibs[e[1]]
    se = return_expr(sb, facts, inline=False)
    alts = se[1] if se[0] == "phi" else (se,)
    name = e[1].rsplit("::", 1)[-1]
    how = "%s(%sarg%s)" % (name, "".join(s + "(" for s in steps), ")" * len(steps))
    if len(alts) == 1 and isinstance(alts[0], tuple) and alts[0][0] == "agg" and "Ok" in str(alts[0][1]):
        return how
    deeper = sibling_delegation(facts, im, se, seen + (e[1],))
    return (how + " -> " + deeper) if deeper else None


def check_seq(facts, b, oks, others, depth=0):
    """returns (problems, how)"""
    eb = ExprBuilder(b, facts, inline=False)
    probs = []
    pushes, vec_new, local_calls = [], [], []
    for bi, t in b.calls():
        fn = callee(t)
        if fn is None:
            continue
        loc = (bi, len(b.blocks[bi]["stmts"]))
        r = fn.get("res") or fn
        p = r["path"]
        args = [canon(eb.operand(a, loc)) for a in t["args"]]
        if p == "alloc::vec::Vec::<T, A>::push":
            pushes.append((bi, args))
        elif p == "alloc::vec::Vec::<T>::with_capacity":
            vec_new.append((bi, args))
        elif fn["name"] in ("extend_from_slice", "insert", "truncate", "clear", "pop", "remove", "set_len", "resize", "swap", "reverse", "sort") and "Vec" in p:
            probs.append("the collected Vec is also modified by %s" % fn["name"])
        elif r.get("local") and r.get("did") is not None and any(any(x[0] == "param" for x in walk(a)) for a in args):
            cb = facts.by_did.get(r["did"])
            if cb is not None and "serde" in cb.id:
                local_calls.append((cb, args))
    if not pushes and not vec_new and len(local_calls) == 1 and depth < 2:
        # delegate: visit_seq = Ok(conv(helper(&mut seq)?))
        cb, args = local_calls[0]
        if len(oks) != 1:
            return ["does not return a single Ok(..) besides error propagation"], ""
        root, steps = conv_root(oks[0][2][0])
        ok_root = any(x[0] == "call" and x[1] == cb.id for x in walk(root))
        if not ok_root:
            return ["result is not built from the helper's collected Vec: %s" % fmt_expr(root)[:100]], ""
        e = return_expr(cb, facts, inline=False)
        alts = e[1] if e[0] == "phi" else (e,)
        hoks = [a for a in alts if isinstance(a, tuple) and a[0] == "agg" and "Ok" in str(a[1])]
        hp, hhow = check_seq(facts, cb, hoks, [a for a in alts if a not in hoks], depth + 1)
        return hp, "via helper %s: %s" % (cb.id.rsplit("::", 1)[-1], hhow)
    if len(pushes) != 1:
        probs.append("expected exactly one push site, found %d" % len(pushes))
    else:
        v = pushes[0][1][1]
        if not any(x[0] == "ucall" and x[1].endswith("next_element") for x in walk(v)):
            probs.append("pushed value is not the element returned by next_element")
    if len(vec_new) != 1:
        probs.append("expected one Vec::with_capacity")
    else:
        cap = vec_new[0][1][0]
        hs = [x for x in walk(cap) if x[0] == "ucall" and x[1].endswith("size_hint")]
        if hs:
            okcap = cap[0] == "call" and cap[1].rsplit("::", 1)[-1] == "min" and any(
                isinstance(a, tuple) and a[0] == "const" and isinstance(a[1], int) and a[1] <= 65536 for a in cap[2])
            if not okcap:
                probs.append("size_hint flows into the capacity without a constant cap: %s" % fmt_expr(cap)[:100])

    def cut(e):
        if isinstance(e, tuple) and e and e[0] == "call" and e[1] == "alloc::vec::Vec::<T>::with_capacity":
            return ("vec",)
        return tuple(cut(x) if isinstance(x, tuple) else x for x in e) if isinstance(e, tuple) else e
    for bi, t in b.calls():
        fn = callee(t)
        if fn is None or (fn.get("res") or fn)["path"] == "alloc::vec::Vec::<T>::with_capacity":
            continue
        loc = (bi, len(b.blocks[bi]["stmts"]))
        nm = fn["name"]
        if nm in ("unwrap_or", "min", "size_hint"):
            continue
        for a in t["args"]:
            ea = cut(canon(eb.operand(a, loc)))
            if any(x[0] == "ucall" and x[1].endswith("size_hint") for x in walk(ea)):
                probs.append("size_hint also flows into %s" % nm)
    if len(oks) != 1:
        probs.append("does not return a single Ok(..) besides error propagation")
    else:
        root, steps = conv_root(oks[0][2][0])
        if not (isinstance(root, tuple) and root[0] == "call" and root[1] == "alloc::vec::Vec::<T>::with_capacity"):
            probs.append("result is not built from the collected Vec: %s" % fmt_expr(root)[:100])
    return probs, "with_capacity(min(size_hint, cap)); push(next_element()) in order; Ok(conv(values))"
