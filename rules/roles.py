"""Roles discovered from the program (never from names alone): handle types, control blocks,
refcount fields, vtable values and slot functions, families."""
from .base import RuleError
from .facts import callee


def handle_types(facts):
    """crate structs with an `unsafe impl Send` — the public handle types (Bytes, BytesMut)"""
    hs = []
    for im in facts.impls:
        if im.get("trait") == "core::marker::Send" and im.get("unsafe") and im["self_ty"] in facts.adts:
            hs.append(im["self_ty"])
    hs = sorted(set(hs))
    if len(hs) < 2:
        raise RuleError("handle types not found (expected >= 2 structs with unsafe impl Send): %r" % hs)
    return hs


def is_atomic_usize(ty):
    return ("AtomicUsize" in ty) or ("Atomic<usize>" in ty)


def is_atomic_ptr(ty):
    return ("AtomicPtr" in ty) or ("Atomic<*mut" in ty)


def control_blocks(facts):
    """crate structs that contain an AtomicUsize field -> {adt path: refcount field name}"""
    cbs = {}
    for path, a in facts.adts.items():
        for v in a["variants"]:
            for f in v["fields"]:
                if is_atomic_usize(f["ty"]):
                    cbs[path] = f["name"]
    if not cbs:
        raise RuleError("no control block (struct with AtomicUsize field) found")
    return cbs


def vtables(facts):
    """name -> {slot: fn-info} for every const/static whose body builds a `Vtable` aggregate"""
    vt = {}
    for b in facts.bodies:
        if b.kind not in ("const", "static"):
            continue
        for blk in b.blocks:
            for s in blk["stmts"]:
                if s["k"] == "assign" and s["rv"]["k"] == "agg" and s["rv"].get("ak") == "adt" \
                        and s["rv"]["adt"].endswith("Vtable"):
                    slots = {}
                    # operands are locals assigned by ReifyFnPointer casts of fn items
                    casts = {}
                    for blk2 in b.blocks:
                        for s2 in blk2["stmts"]:
                            if s2["k"] == "assign" and s2["rv"]["k"] == "cast" and "fn" in s2["rv"]["op"]:
                                casts[s2["pl"]["l"]] = s2["rv"]["op"]["fn"]
                    for name, op in zip(s["rv"]["fields"], s["rv"]["ops"]):
                        if op["k"] in ("copy", "move") and op["pl"]["l"] in casts:
                            slots[name] = casts[op["pl"]["l"]]
                        elif op["k"] == "const" and "fn" in op:
                            slots[name] = op["fn"]
                        else:
                            slots[name] = None
                    vt[b.id] = slots
    if not vt:
        raise RuleError("no Vtable value found")
    return vt
