"""C7 LEAF-CURSORS — the five leaf `Buf`s ([u8], Bytes, BytesMut, io::Cursor, VecDeque<u8>), the defaults every Buf
inherits (has_remaining, chunks_vectored) and `IntoIter` agree on ONE sequence:

 * remaining() is the length of the value chunk() is cut from; chunk() starts at the cursor (clamped for Cursor);
 * VecDeque::chunk returns the back slice only when the front slice is empty; chunks_vectored lists front, back
   in that order and returns 0 / 1 / 2 under the matching emptiness tests;
 * advance(n) moves the cursor by exactly the argument (re-slice from n, inc_start(n), advance_unchecked(n),
   position + n, drain(..n)); Bytes::inc_start moves ptr and len by the same operand;
 * the helpers for the u64 cursor position saturate / clamp;
 * IntoIter::next yields chunk()[0] and advances by 1 exactly when bytes remain; size_hint is exact.

Every function's guarded return alternatives (one per assignment to the return place, with the relations that
dominate it) must each be of an allowed form, and the required forms must be present.
"""
from .base import Result, RuleError
from .facts import callee
from .flow import ExprBuilder, defs_of, canon, walk, fmt_expr, relations_at, expand_combinators
from .logic import Ctx, uncast, is_call, const_of

P1 = ("param", 1)
P2 = ("param", 2)


def peel(e):
    """strip references / derefs / pointer casts"""
    while isinstance(e, tuple) and e:
        if e[0] in ("ref", "deref"):
            e = e[1]
        elif e[0] == "cast" and e[1] != "IntToInt":
            e = e[2]
        else:
            break
    return e


def callname(e):
    if isinstance(e, tuple) and e and e[0] in ("call", "ucall"):
        return e[1].rsplit("::", 1)[-1]
    return None


def aggname(e):
    if isinstance(e, tuple) and e and e[0] == "agg":
        k = e[1]
        return k[1] if isinstance(k, tuple) else str(k)
    return ""


def arg(e, i):
    return peel(e[2][i])


def ret_alts(b, facts):
    """[(bb, expr, relations)] for every value that can be returned, taken at the assignment that produces it (a plain
    copy of a local that itself has several definitions - `match .. { a => x, b => y }` binding a result first - is
    followed to those definitions), with the relations that dominate that assignment; Option/Result combinators are
    expanded into their cases"""
    from .flow import reaching_defs
    eb = ExprBuilder(b, facts, inline=True)
    out = []

    def add(bi, e):
        rels = list(Ctx(b, bi, facts).rels)
        exp = expand_combinators(e, facts)
        if exp is None:
            out.append((bi, canon(e), rels))
        else:
            for val, extra in exp:
                out.append((bi, canon(val), rels + [(x[0], canon(x[1]), x[2]) for x in extra]))

    def follow(bi, si, k, pay, depth):
        src = None
        if k == "assign" and pay["k"] == "use" and pay["op"]["k"] in ("copy", "move") and not pay["op"]["pl"]["p"]:
            src = pay["op"]["pl"]["l"]
        elif k == "assign" and pay["k"] in ("ref", "rawptr") and pay["pl"]["p"] == ["*"]:
            src = pay["pl"]["l"]            # reborrow `&*x`
        if src is not None and depth < 4:
            ds = [d for d in reaching_defs(b, src, (bi, si)) if d[0] != "entry"]
            if len(ds) > 1 and len(ds) == len(reaching_defs(b, src, (bi, si))):
                for d in ds:
                    follow(d[0], d[1], d[2], d[3], depth + 1)
                return
        e = eb.rvalue(pay, (bi, si), 0) if k == "assign" else eb.call_expr(pay, (bi, si), 0)
        add(bi, e)
    for (bi, si, k, pay) in defs_of(b).get(0, []):
        if b.blocks[bi]["cleanup"]:
            continue
        follow(bi, si, k, pay, 0)
    return out


def truth(rels, pred, v):
    """some dominating relation says pred(expr) has truth value v"""
    for r in rels:
        if r[0] == "truth" and r[2] == v and pred(r[1]):
            return True
    return False


def emptiness(rels, pred, v):
    """some dominating relation says the slice / container x with pred(x) is empty (v = 1) or holds something (v = 0): the truth value
    of `x.is_empty()`, or a comparison of `x.len()` (call or slice metadata, as slice patterns `[]` test it) with a constant"""
    def is_len(y):
        y = canon(y)
        if isinstance(y, tuple) and y and y[0] == "un" and y[1] == "PtrMetadata":
            return pred(y[2])
        return callname(peel(y)) == "len" and pred(peel(y)[2][0])
    for r in rels:
        if not r:
            continue
        if r[0] == "truth" and callname(r[1]) == "is_empty" and pred(r[1][2][0]) and r[2] == v:
            return True
        if len(r) < 3 or not isinstance(r[1], tuple) or not isinstance(r[2], tuple):
            continue
        a, b_ = canon(r[1]), canon(r[2])
        ca, cb = const_of(a), const_of(b_)
        if v == 1:
            if (r[0] in ("eq", "le") and is_len(a) and cb == 0) or (r[0] == "eq" and is_len(b_) and ca == 0) or (r[0] == "lt" and is_len(a) and cb == 1):
                return True
        else:
            if r[0] == "ne" and ((is_len(a) and cb == 0) or (is_len(b_) and ca == 0)):
                return True
            if r[0] == "lt" and ca is not None and ca >= 0 and is_len(b_):
                return True
            if r[0] == "le" and ca is not None and ca >= 1 and is_len(b_):
                return True
            if r[0] == "eq" and ((is_len(a) and cb is not None and cb >= 1) or (is_len(b_) and ca is not None and ca >= 1)):
                return True
    return False


def without_bounds_checks(b, facts, rels):
    """relations that do not stem from the compiler's index bounds checks: `dst[0] = ..` proves `0 < dst.len()` on the way on, but by
    panicking otherwise - no evidence for a method that must answer instead of panicking"""
    from .flow import edge_conditions, normalize_cmp
    k = "c7_bounds_rels"
    bad = b._cache.get(k)
    if bad is None:
        bad = set()
        for (s_, d_, c_, v_) in edge_conditions(b, facts):
            t = b.blocks[s_]["term"]
            if t["k"] == "assert" and str(t.get("ak", "")).lower().startswith("bound"):
                r = normalize_cmp(c_, v_)
                bad.add(tuple(canon(y) if isinstance(y, tuple) else y for y in r))
        b._cache[k] = bad
    return [r for r in rels if tuple(canon(y) if isinstance(y, tuple) else y for y in r) not in bad]


def is_self(e):
    return peel(e) == P1


def find(facts, ident, suffix=None):
    l = [b for b in facts.fn_bodies() if (b.id == ident or (suffix and b.id.endswith(suffix) and ident in b.id))]
    if len(l) != 1:
        raise RuleError("C7: expected exactly one body for %s, found %d" % (ident, len(l)))
    return l[0]


def cursor_slice(e):
    """as_ref(get_ref(self))"""
    e = peel(e)
    return callname(e) == "as_ref" and callname(arg(e, 0)) == "get_ref" and is_self(arg(e, 0)[2][0])


def cursor_pos(e):
    e = peel(uncast(e))
    return callname(e) == "position" and is_self(e[2][0])


def calls_of(b, facts, name):
    eb = ExprBuilder(b, facts, inline=True)
    out = []
    for bi, t in b.calls():
        fn = callee(t)
        if fn and (fn.get("res") or fn)["path"].rsplit("::", 1)[-1] == name and not b.blocks[bi]["cleanup"]:
            loc = (bi, len(b.blocks[bi]["stmts"]))
            out.append((bi, [canon(eb.operand(a, loc)) for a in t["args"]]))
    return out


def run(facts):
    res = Result("C7", "leaf Bufs, inherited defaults and IntoIter: remaining/chunk cut from one value, advance moves by exactly the argument, VecDeque order, exact iterator")
    has_std = any("std::io::Cursor<T> as buf::buf_impl::Buf" in b.id for b in facts.fn_bodies())

    def single(ident, what, pred, suffix=None, semantic=None):
        b = find(facts, ident, suffix)
        alts = ret_alts(b, facts)
        key = "%s|%s" % (b.id, what)
        if len(alts) == 1 and pred(alts[0][1]):
            res.ok(key, b.loc(), fmt_expr(alts[0][1])[:90], nontrivial=True)
        elif semantic is not None and not semantic(b):
            res.ok(key, b.loc(), "decided semantically: on every path of the fully inlined method the result is entailed to be the specified value", nontrivial=True)
        else:
            res.bad(key, b.loc(), "returns %s; expected %s" % (" / ".join(fmt_expr(a[1])[:80] for a in alts), what))

    # ---- [u8]
    single("<&[u8] as buf::buf_impl::Buf>::remaining", "len(*self)", lambda e: callname(e) == "len" and is_self(e[2][0]))
    single("<&[u8] as buf::buf_impl::Buf>::chunk", "*self", lambda e: is_self(e))
    b = find(facts, "<&[u8] as buf::buf_impl::Buf>::advance")
    eb = ExprBuilder(b, facts, inline=True)
    stores = []
    for bi, blk in enumerate(b.blocks):
        for si, s in enumerate(blk["stmts"]):
            if s["k"] == "assign" and s["pl"]["l"] == 1 and s["pl"]["p"] == ["*"]:
                stores.append(canon(eb.rvalue(s["rv"], (bi, si), 0)))
    key = b.id + "|re-slice from cnt"

    def from_cnt(e):
        e = peel(e)
        if callname(e) in ("index", "get_unchecked") and is_self(e[2][0]):
            r = e[2][1]
            return isinstance(r, tuple) and r[0] == "agg" and "RangeFrom" in aggname(r) and uncast(r[2][0]) == P2
        # `match self.get(cnt..) { Some(rest) => *self = rest, .. }`
        if isinstance(e, tuple) and e and e[0] == "field" and isinstance(e[1], tuple) and e[1] and e[1][0] == "variant" and e[1][2] == "Some":
            g = peel(e[1][1])
            if callname(g) in ("get",) and is_self(g[2][0]):
                r = g[2][1]
                return isinstance(r, tuple) and r[0] == "agg" and "RangeFrom" in aggname(r) and uncast(r[2][0]) == P2
        if callname(e) in ("split_at", "split_at_unchecked"):
            return False
        return False
    if len(stores) == 1 and from_cnt(stores[0]):
        res.ok(key, b.loc(), "*self = &self[cnt..]", nontrivial=True)
    else:
        res.bad(key, b.loc(), "the slice cursor is not re-sliced from exactly `cnt`: %s" % " / ".join(fmt_expr(s)[:80] for s in stores))

    # ---- Bytes / BytesMut
    for ty, adv in (("bytes::Bytes", "inc_start"), ("bytes_mut::BytesMut", "advance_unchecked")):
        pre = "<%s as buf::buf_impl::Buf>::" % ty
        single(pre + "remaining", "self.len", lambda e: e == ("field", ("deref", P1), "len") or (callname(e) == "len" and is_self(e[2][0])))
        single(pre + "chunk", "self.as_slice()", lambda e: callname(peel(e)) in ("as_slice", "as_ref", "deref") and is_self(peel(e)[2][0]))
        b = find(facts, pre + "advance")
        cs = calls_of(b, facts, adv)
        key = b.id + "|moves by cnt"
        if len(cs) == 1 and is_self(cs[0][1][0]) and uncast(cs[0][1][1]) == P2:
            res.ok(key, b.loc(), "%s(self, cnt)" % adv, nontrivial=True)
        else:
            res.bad(key, b.loc(), "advance does not forward exactly `cnt` to %s: %s" % (adv, [[fmt_expr(a)[:40] for a in c[1]] for c in cs]))
    b = find(facts, "bytes::Bytes::inc_start")
    eb = ExprBuilder(b, facts, inline=True)
    w = {}
    for bi, blk in enumerate(b.blocks):
        for si, s in enumerate(blk["stmts"]):
            if s["k"] == "assign" and s["pl"]["l"] == 1 and len(s["pl"]["p"]) == 2 and isinstance(s["pl"]["p"][1], dict):
                w.setdefault(s["pl"]["p"][1]["n"], []).append(canon(eb.rvalue(s["rv"], (bi, si), 0)))
    key = "bytes::Bytes::inc_start|ptr and len move by the same operand"
    lenf, ptrf = ("field", ("deref", P1), "len"), ("field", ("deref", P1), "ptr")
    ok_len = len(w.get("len", [])) == 1 and (lambda e: (e[0] == "bin" and e[1] == "Sub" and e[2] == lenf and uncast(e[3]) == P2)
                                             or (callname(e) in ("wrapping_sub", "unchecked_sub") and e[2][0] == lenf and uncast(e[2][1]) == P2))(w["len"][0])
    ok_ptr = len(w.get("ptr", [])) == 1 and (lambda e: callname(e) in ("add", "wrapping_add") and peel(e[2][0]) == ptrf and uncast(e[2][1]) == P2)(w["ptr"][0])
    if ok_len and ok_ptr and set(w) <= {"len", "ptr"}:
        res.ok(key, b.loc(), "len -= by; ptr += by", nontrivial=True)
    else:
        res.bad(key, b.loc(), "writes: %s" % {k: [fmt_expr(x)[:50] for x in v] for k, v in w.items()})
    single("<bytes::Bytes as buf::buf_impl::Buf>::copy_to_bytes", "self.split_to(len)",
           lambda e: callname(e) == "split_to" and is_self(e[2][0]) and uncast(e[2][1]) == P2)
    single("<bytes_mut::BytesMut as buf::buf_impl::Buf>::copy_to_bytes", "self.split_to(len).freeze()",
           lambda e: callname(e) == "freeze" and callname(peel(e[2][0])) == "split_to" and is_self(peel(e[2][0])[2][0]) and uncast(peel(e[2][0])[2][1]) == P2)

    # ---- VecDeque
    vd = "buf::vec_deque::<impl buf::buf_impl::Buf for alloc::collections::VecDeque<u8>>::"
    single(vd + "remaining", "self.len()", lambda e: callname(e) == "len" and is_self(e[2][0]))

    def slices(e, i):
        e = peel(e)
        return isinstance(e, tuple) and e[0] == "field" and str(e[2]) == str(i) and callname(peel(e[1])) == "as_slices" and is_self(peel(e[1])[2][0])

    def empty_of(pred):
        return lambda x: (callname(x) == "is_empty" and pred(x[2][0]))
    b = find(facts, vd + "chunk")
    alts = ret_alts(b, facts)
    key = b.id + "|front slice unless it is empty"
    probs, seen = [], set()
    for bi, e, rels in alts:
        if slices(e, 0):
            seen.add(0)
            if not emptiness(rels, lambda y: slices(y, 0), 0) and any(slices(a[1], 1) for a in alts):
                probs.append("front slice returned without knowing it is non-empty")
        elif slices(e, 1):
            seen.add(1)
            if not emptiness(rels, lambda y: slices(y, 0), 1):
                probs.append("back slice returned although the front slice may hold bytes")
        else:
            probs.append("returns %s" % fmt_expr(e)[:80])
    if seen != {0, 1}:
        probs.append("does not choose between both halves of as_slices()")
    (res.bad if probs else res.ok)(key, b.loc(), "; ".join(probs) if probs else "s1 if !s1.is_empty() else s2", **({} if probs else {"nontrivial": True}))

    b = find(facts, vd + "advance")
    cs = calls_of(b, facts, "drain")
    key = b.id + "|drain(..cnt)"
    okd = len(cs) == 1 and is_self(cs[0][1][0]) and cs[0][1][1][0] == "agg" and aggname(cs[0][1][1]).endswith("RangeTo") \
        and uncast(cs[0][1][1][2][0]) == P2
    (res.ok if okd else res.bad)(key, b.loc(), "self.drain(..cnt)" if okd else "advance is not drain(..cnt): %s" % [[fmt_expr(a)[:60] for a in c[1]] for c in cs])

    if has_std:
        check_vd_vectored(res, facts, find(facts, vd + "chunks_vectored"), slices)
        check_cursor(res, facts, single)
        check_default_vectored(res, facts)
    check_leaf_overrides(res, facts)
    check_helpers(res, facts, has_std)
    check_defaults(res, facts, single)
    check_copy_defaults(res, facts)
    check_iter(res, facts)
    res.floor("leaf_instances", len(res.instances), 18 if has_std else 13)
    return res


BUF = "buf::buf_impl::Buf"
LEAF_KNOWN = ("remaining", "chunk", "advance", "chunks_vectored", "copy_to_bytes", "has_remaining")


def check_leaf_overrides(res, facts):
    """A leaf Buf that overrides a *copying* provided method (copy_to_slice, try_copy_to_slice, ...) with its own code must still hand
    out the next bytes of its sequence: every slice it copies from is a *prefix* of one of its sequence pieces (its chunk / deref
    slice, the two halves of VecDeque::as_slices) - `piece[..k]`, `piece.get(..k)` or the whole piece - or the copy is delegated to a
    std routine documented to do exactly that (`io::Read::read_exact`). A source such as `back[n..len]` starts in the middle of a
    piece: the bytes handed out are not the next ones."""
    leafs = [im for im in facts.impls if im.get("trait") == BUF and not im["self_ty"].startswith(("&mut T", "alloc::boxed::Box<T>", "buf::chain", "buf::take"))]
    for im in leafs:
        for it in im["items"]:
            if it["name"] in LEAF_KNOWN or it.get("did") is None or it["did"] not in facts.by_did:
                continue
            b = facts.by_did[it["did"]]
            eb = ExprBuilder(b, facts, inline=True)
            probs = []
            n_src = 0
            for bi, t in b.calls():
                if b.blocks[bi]["cleanup"]:
                    continue
                fn = callee(t)
                if fn is None:
                    continue
                loc = (bi, len(b.blocks[bi]["stmts"]))
                src = None
                if fn["name"] == "copy_from_slice" and len(t["args"]) == 2:
                    src = canon(eb.operand(t["args"][1], loc))
                elif fn["name"] in ("copy_nonoverlapping", "copy") and len(t["args"]) == 3 and "ptr" in (fn.get("res") or fn).get("path", ""):
                    src = canon(eb.operand(t["args"][0], loc))
                if src is None or not any(x == ("param", 1) for x in walk(src)):
                    continue
                n_src += 1
                for x in walk(src):
                    if isinstance(x, tuple) and x and x[0] == "call" and x[1].rsplit("::", 1)[-1] in ("index", "index_mut", "get", "get_unchecked", "get_mut") and len(x[2]) == 2:
                        rng = x[2][1]
                        if isinstance(rng, tuple) and rng and rng[0] == "agg":
                            nm = aggname(rng)
                            if nm.endswith("RangeTo") or nm.endswith("RangeToInclusive") or nm.endswith("RangeFull"):
                                continue
                            if (nm.endswith("::Range") or nm.endswith("RangeFrom") or nm.endswith("RangeInclusive")) and canon(uncast(rng[2][0])) == ("const", 0):
                                continue
                            probs.append("copies from `%s`, which does not start at the beginning of a piece of the sequence" % fmt_expr(x)[:70])
                    if isinstance(x, tuple) and x and x[0] == "call" and x[1].rsplit("::", 1)[-1] in ("add", "offset", "wrapping_add") and len(x[2]) == 2 \
                            and canon(uncast(x[2][1])) != ("const", 0):
                        probs.append("copies from a pointer moved into the middle of a piece (%s)" % fmt_expr(x)[:60])
            key = "%s|override hands out the next bytes" % b.id
            if probs:
                res.bad(key, b.loc(), "; ".join(sorted(set(probs))[:3]))
            elif n_src:
                res.ok(key, b.loc(), "%d copy source(s), each a prefix of a sequence piece" % n_src, nontrivial=True)


def check_vd_vectored(res, facts, b, slices):
    key = b.id + "|front then back, count matches"
    eb = ExprBuilder(b, facts, inline=True)
    probs = []
    # stores dst[i] = IoSlice::new(s_k)
    stores = {}
    for bi, blk in enumerate(b.blocks):
        for si, s in enumerate(blk["stmts"]):
            if s["k"] == "assign" and s["pl"]["p"] and s["pl"]["l"] != 0:
                pr = s["pl"]["p"]
                e = canon(eb.rvalue(s["rv"], (bi, si), 0))
                if callname(e) == "new":
                    stores.setdefault(bi, []).append((pr, e))
    # index_mut based stores: *index_mut(dst, i) = new(s)
    placed = {}
    for bi, lst in stores.items():
        for pr, e in lst:
            src = peel(e[2][0])
            which = 0 if slices(src, 0) else 1 if slices(src, 1) else None
            placed.setdefault(which, []).append(bi)
    idx_calls = calls_of(b, facts, "index_mut")
    idxs = sorted(const_of(c[1][1]) for c in idx_calls if const_of(c[1][1]) is not None)
    if idxs != [0, 1]:
        # constant indexing of a slice is a place projection, not a call
        idxs = []
        for bi, lst in stores.items():
            for pr, e in lst:
                for x in pr:
                    if isinstance(x, dict) and "ci" in x:
                        idxs.append(x["ci"])
        idxs = sorted(idxs)
    if None in placed or sorted(k for k in placed) != [0, 1]:
        probs.append("the listed slices are not exactly the front and the back half")
    alts = ret_alts(b, facts)
    vals = sorted(const_of(a[1]) if const_of(a[1]) is not None else -1 for a in alts)
    if sorted(set(vals)) != [0, 1, 2]:
        probs.append("return values are %s, expected 0 / 1 / 2" % vals)
    for bi, e, rels in alts:
        rels = without_bounds_checks(b, facts, rels)
        v = const_of(e)
        def got_slot(which):
            """the path took the `Some` arm of dst.split_first_mut() / dst.first_mut() (which = 0) or of rest.first_mut() (which = 1)"""
            for r in rels:
                if not r or r[0] not in ("truth", "notin") or not (isinstance(r[1], tuple) and r[1] and r[1][0] == "discr"):
                    continue
                some = (r[0] == "truth" and r[2] == 1) or (r[0] == "notin" and set(r[2]) == {0})
                c = peel(r[1][1])
                if not some or callname(c) not in ("split_first_mut", "first_mut", "split_first", "first"):
                    continue
                src = peel(c[2][0])
                if which == 0 and src == P2:
                    return True
                if which == 1 and isinstance(src, tuple) and src and src[0] == "field" and str(src[2]) == "1" and isinstance(src[1], tuple) and src[1] and src[1][0] == "field" \
                        and isinstance(src[1][1], tuple) and src[1][1][0] == "variant" and callname(peel(src[1][1][1])) in ("split_first_mut", "split_first") and peel(peel(src[1][1][1])[2][0]) == P2:
                    return True
            return False
        if v == 2:
            if not emptiness(rels, lambda y: slices(y, 1), 0):
                probs.append("returns 2 without knowing the back slice is non-empty")
            def about_dst_len(r):
                """dst.len() != 1 / 1 < dst.len() / 2 <= dst.len() (with the non-emptiness known separately): a second slot exists"""
                if not r or len(r) < 3 or not isinstance(r[1], tuple) or not isinstance(r[2], tuple):
                    return False
                is_len = lambda y: callname(peel(y)) == "len" and peel(peel(y)[2][0]) == P2
                a, b_ = canon(r[1]), canon(r[2])
                if r[0] == "ne" and ((is_len(a) and const_of(b_) == 1) or (is_len(b_) and const_of(a) == 1)):
                    return True
                if r[0] == "lt" and const_of(a) is not None and const_of(a) >= 1 and is_len(b_):
                    return True
                if r[0] == "le" and const_of(a) is not None and const_of(a) >= 2 and is_len(b_):
                    return True
                return False
            if not any(about_dst_len(r) for r in rels) and not got_slot(1):
                probs.append("returns 2 without knowing dst has a second slot")
        if v == 0:
            # "returns 0 only if dst is empty or there is nothing left" - with `a.is_empty() || b.is_empty()` the block is entered by two
            # edges, each of which carries one of the two reasons
            def nothing(rs):
                return emptiness(rs, lambda y: peel(y) == P2, 1) or emptiness(rs, lambda y: is_self(y), 1) or emptiness(rs, lambda y: slices(y, 0), 1)
            if not nothing(rels):
                from .flow import edge_conditions, normalize_cmp, cfg_of
                ecs = [x for x in edge_conditions(b, facts) if x[1] == bi]
                preds = cfg_of(b).pred[bi]
                by_edge = all(nothing(list(Ctx(b, p_, facts).rels) + [tuple(canon(y) if isinstance(y, tuple) else y for y in normalize_cmp(x[2], x[3])) for x in ecs if x[0] == p_])
                              for p_ in preds)
                if not (preds and by_edge):
                    probs.append("returns 0 although neither dst nor the deque is known to be empty")
        if v in (1, 2):
            if not emptiness(rels, lambda y: peel(y) == P2, 0) and not got_slot(0):
                probs.append("returns %d although dst may be empty" % v)
    # order: the store of the front slice dominates the store of the back slice and uses the lower index
    if not probs:
        res.ok(key, b.loc(), "dst[0] = front; dst[1] = back only if non-empty and dst.len() > 1", nontrivial=True)
    else:
        res.bad(key, b.loc(), "; ".join(sorted(set(probs))))


def cursor_semantic(facts, b, kind):
    """Cursor::remaining / Cursor::chunk decided by what they compute rather than by how it is spelt: with every crate helper
    inlined, on every path (P = position(), L = the slice's length, both as numbers)
        remaining:   P >= L  =>  result == 0        P < L  =>  result == L - P
        chunk:       the result is  &slice[K..]  with   P >= L  =>  K == L        P < L  =>  K == P
    entailed in the linear-inequality domain from the conditions on the path (u64 -> usize conversions and Option / Result
    combinators are split into their cases). -> list of problems"""
    from .inline import inlined, keep_pred
    from .flow import PathExprBuilder, enumerate_paths, path_relations
    from .lin import State, ISIZE_MAX
    v = inlined(facts, b, pred=keep_pred((), (), atoms=False))
    P = L = None
    n = 0
    for path in enumerate_paths(v, limit=400):
        pe = PathExprBuilder(v, facts, path, inline=False)
        val = canon(pe.local(0, (path[-1], len(v.blocks[path[-1]]["stmts"]))))
        rels = [r for r in path_relations(v, facts, path) if r[0] in ("lt", "le", "eq", "ne", "truth", "notin")
                and not (r[0] == "truth" and isinstance(r[1], tuple) and r[1] and r[1][0] == "ovf")]      # overflow flags exist in checked builds only
        # find P and L among the sub-expressions
        for x in walk(val):
            pass
        cands = [val] + [y for r in rels for y in r[1:3] if isinstance(y, tuple)]
        for e in cands:
            for x in walk(e):
                if P is None and cursor_pos(x):
                    P = canon(peel(uncast(x)))
                if L is None and callname(x) == "len" and x[2] and cursor_slice(peel(x[2][0])):
                    L = canon(x)
        if P is None or L is None:
            return ["cannot find position() and the slice length in the method"]
        target = val
        if kind == "has":
            # has_remaining: false where position >= len, true where position < len
            from .flow import normalize_cmp
            n += 1
            base = rels + [("le", L, ("const", ISIZE_MAX))]
            for hyp, truth_v, name in ((base + [("le", L, P)], 0, "position >= len"), (base + [("lt", P, L)], 1, "position < len")):
                st = State(hyp, facts=facts)
                if st.refuted():
                    continue
                if isinstance(val, tuple) and val and val[0] == "const":
                    if val[1] not in ((1, True) if truth_v else (0, False)):
                        return ["for %s the answer is %s" % (name, val[1])]
                    continue
                want = normalize_cmp(val, ("eq", truth_v))
                want = tuple(canon(y) if isinstance(y, tuple) else y for y in want)
                if want[0] not in ("lt", "le", "eq", "ne") or not st.entails(want):
                    return ["for %s the answer %s is not entailed to be %s" % (name, fmt_expr(val)[:70], bool(truth_v))]
            continue
        if kind == "chunk":
            e = peel(val)
            if not (callname(e) in ("index", "get_unchecked") and cursor_slice(e[2][0]) and isinstance(e[2][1], tuple) and e[2][1][0] == "agg" and "RangeFrom" in aggname(e[2][1])):
                return ["does not return &slice[K..] of the cursor's slice: %s" % fmt_expr(val)[:80]]
            target = e[2][1][2][0]
        n += 1
        base = rels + [("le", L, ("const", ISIZE_MAX))]
        past, before = base + [("le", L, P)], base + [("lt", P, L)]
        want_past = ("eq", target, ("const", 0)) if kind == "remaining" else ("eq", target, L)
        want_before = ("eq", target, ("bin", "Sub", L, P)) if kind == "remaining" else ("eq", target, P)
        for hyp, want, name in ((past, want_past, "position >= len"), (before, want_before, "position < len")):
            st = State(hyp, facts=facts)
            if not st.refuted() and not st.entails(want):
                return ["for %s the %s is %s, which is not entailed to be %s" % (name, "result" if kind == "remaining" else "start of the chunk", fmt_expr(target)[:70], fmt_expr(want[2])[:30])]
    return [] if n else ["no returning path"]


def check_cursor(res, facts, single):
    pre = "<std::io::Cursor<T> as buf::buf_impl::Buf>::"

    def rem(e):
        return callname(e) == "saturating_sub_usize_u64" and callname(peel(e[2][0])) == "len" and cursor_slice(peel(e[2][0])[2][0]) and cursor_pos(e[2][1])
    single(pre + "remaining", "len(slice).saturating_sub(position)", rem, semantic=lambda b: cursor_semantic(facts, b, "remaining"))

    def chunk(e):
        e = peel(e)
        if callname(e) != "index" or not cursor_slice(e[2][0]):
            return False
        r = e[2][1]
        if not (isinstance(r, tuple) and r[0] == "agg" and "RangeFrom" in aggname(r)):
            return False
        m = r[2][0]
        return callname(m) == "min_u64_usize" and cursor_pos(m[2][0]) and callname(peel(m[2][1])) == "len" and cursor_slice(peel(m[2][1])[2][0])
    single(pre + "chunk", "&slice[min(position, len)..]", chunk, semantic=lambda b: cursor_semantic(facts, b, "chunk"))
    b = find(facts, pre + "advance")
    cs = calls_of(b, facts, "set_position")
    key = b.id + "|position + cnt"
    ok = False
    if len(cs) == 1 and is_self(cs[0][1][0]):
        e = uncast(cs[0][1][1])
        if isinstance(e, tuple) and e[0] == "bin" and e[1] == "Add":
            x, y = uncast(e[2]), uncast(e[3])
            ok = (cursor_pos(x) and y == P2) or (cursor_pos(y) and x == P2)
        elif callname(e) in ("checked_add", "wrapping_add", "saturating_add"):
            ok = False
    (res.ok if ok else res.bad)(key, b.loc(), "set_position(position + cnt)" if ok else "the cursor is not moved by exactly cnt: %s" % [[fmt_expr(a)[:60] for a in c[1]] for c in cs])


def check_helpers(res, facts, has_std):
    for name, want in (("saturating_sub_usize_u64", "sat"), ("min_u64_usize", "min")):
        l = [b for b in facts.fn_bodies() if b.id == name]
        if not l:
            continue        # a missing helper is reported at its use (Cursor::remaining / Cursor::chunk must call it)
        b = l[0]
        alts = ret_alts(b, facts)
        key = name + "|u64 position helper"
        wide, narrow = (2, 1) if want == "sat" else (1, 2)    # parameter holding the u64 / the usize
        probs = []
        seen = set()
        for bi, e, rels in alts:
            def tf(x):
                return callname(x) == "try_from" and uncast(peel(x[2][0])) == ("param", wide)
            okv = ("variant",)
            if want == "sat" and const_of(e) == 0:
                seen.add("err")
                if not truth(rels, lambda x: x[0] == "discr" and tf(x[1]), 1):
                    probs.append("returns 0 outside the position-does-not-fit case")
            elif want == "min" and e == ("param", narrow):
                seen.add("err")
                if not truth(rels, lambda x: x[0] == "discr" and tf(x[1]), 1):
                    probs.append("returns len outside the position-does-not-fit case")
            elif callname(e) == ("saturating_sub" if want == "sat" else "min"):
                seen.add("ok")
                a0, a1 = uncast(e[2][0]), uncast(e[2][1])

                def conv(x):
                    return isinstance(x, tuple) and x[0] == "field" and isinstance(x[1], tuple) and x[1][0] == "variant" and x[1][2] == "Ok" and tf(x[1][1])
                if want == "sat" and not (a0 == ("param", narrow) and conv(a1)):
                    probs.append("not len.saturating_sub(position): %s" % fmt_expr(e)[:60])
                if want == "min" and not ((conv(a0) and a1 == ("param", narrow)) or (conv(a1) and a0 == ("param", narrow))):
                    probs.append("not min(position, len): %s" % fmt_expr(e)[:60])
            else:
                probs.append("returns %s" % fmt_expr(e)[:60])
        if seen != {"ok", "err"}:
            probs.append("both cases (position fits usize / does not) must be handled")
        (res.bad if probs else res.ok)(key, b.loc(), "; ".join(probs) if probs else ("len.saturating_sub(pos), 0 if pos > usize::MAX" if want == "sat" else "min(pos, len), len if pos > usize::MAX"))


def check_defaults(res, facts, single):
    def hr(e):
        e = uncast(e)
        if isinstance(e, tuple) and e[0] == "bin" and e[1] in ("Gt", "Ne") and callname(e[2]) == "remaining" and is_self(e[2][2][0]) and const_of(e[3]) == 0:
            return True
        if isinstance(e, tuple) and e[0] == "bin" and e[1] in ("Lt",) and callname(e[3]) == "remaining" and is_self(e[3][2][0]) and const_of(e[2]) == 0:
            return True
        if isinstance(e, tuple) and e[0] == "bin" and e[1] == "Ge" and callname(e[2]) == "remaining" and const_of(e[3]) == 1:
            return True
        return False
    single("buf::buf_impl::Buf::has_remaining", "remaining() > 0", hr)


def check_default_vectored(res, facts):
    b = find(facts, "buf::buf_impl::Buf::chunks_vectored")
    key = b.id + "|default lists chunk() once"
    alts = ret_alts(b, facts)
    probs = []
    vals = sorted(const_of(a[1]) if const_of(a[1]) is not None else -1 for a in alts)
    if not set(vals) <= {0, 1} or 1 not in vals:
        probs.append("return values %s, expected 0 / 1" % vals)
    for bi, e, rels in alts:
        rels = without_bounds_checks(b, facts, rels)
        if const_of(e) == 1:
            if not emptiness(rels, lambda y: peel(y) == P2, 0):
                probs.append("returns 1 although dst may be empty")
            if not truth(rels, lambda x: callname(x) == "has_remaining" and is_self(x[2][0]), 1):
                probs.append("returns 1 although nothing may remain")
    eb = ExprBuilder(b, facts, inline=True)
    news = calls_of(b, facts, "new")
    if not any(callname(peel(c[1][0])) == "chunk" and is_self(peel(c[1][0])[2][0]) for c in news):
        probs.append("the listed slice is not self.chunk()")
    (res.bad if probs else res.ok)(key, b.loc(), "; ".join(sorted(set(probs))) if probs else "dst[0] = chunk() when bytes remain and dst is non-empty")


def check_copy_defaults(res, facts):
    """default copy_to_bytes = with_capacity(len) + put(self.take(len)) + freeze under len <= remaining();
    default copy_to_slice = try_copy_to_slice(dst) or panic; <&[u8]>::copy_to_slice copies dst.len() bytes from the
    front and advances by dst.len() under dst.len() <= len"""
    # --- Buf::copy_to_bytes
    b = find(facts, "buf::buf_impl::Buf::copy_to_bytes")

    def ctb_probs(v):
        probs = []
        puts = calls_of(v, facts, "put")
        frz = calls_of(v, facts, "freeze")
        if len(puts) != 1 or len(frz) != 1:
            return ["expected one put(..) into the fresh buffer and one freeze()"]
        bi, a = puts[0]
        src = peel(a[1])
        is_take = (aggname(src).endswith("::Take") and peel(src[2][0]) == P1 and uncast(src[2][1]) == P2) or \
                  (callname(src) == "take" and peel(src[2][0]) == P1 and uncast(src[2][1]) == P2)
        if not is_take:
            probs.append("the bytes are not taken from self.take(len): %s" % fmt_expr(src)[:60])
        dst = peel(a[0])
        if not (callname(dst) in ("with_capacity", "new") and (callname(dst) == "new" or uncast(dst[2][0]) == P2)):
            probs.append("the destination is not a fresh BytesMut::with_capacity(len)")
        if peel(frz[0][1][0]) != dst:
            probs.append("the returned Bytes is not the buffer that was filled")
        ctx = Ctx(v, bi, facts)
        rem = [x for r in ctx.rels for x in r[1:3] if isinstance(x, tuple) and callname(x) == "remaining" and is_self(x[2][0])]
        if not any(ctx.le(P2, x) for x in rem):
            probs.append("no check len <= remaining() before copying (a short source would return fewer bytes than asked)")
        return probs
    decide_views(res, facts, b, b.id + "|default copies exactly len bytes", ctb_probs, "len <= remaining(); with_capacity(len).put(self.take(len)).freeze()")
    # --- Buf::copy_to_slice
    b = find(facts, "buf::buf_impl::Buf::copy_to_slice")

    def cts_probs(v):
        cs = calls_of(v, facts, "try_copy_to_slice")
        if len(cs) != 1 or peel(cs[0][1][0]) != P1 or peel(cs[0][1][1]) != P2:
            return ["does not delegate to self.try_copy_to_slice(dst)"]
        users = [c for nm in ("unwrap_or_else", "unwrap", "expect") for c in calls_of(v, facts, nm) if callname(peel(c[1][0])) == "try_copy_to_slice"]
        matched = any(t["k"] == "switch" for _, t in v.terms()) and calls_of(v, facts, "panic_advance")
        if not users and not matched:
            return ["the Err of try_copy_to_slice is not turned into a panic"]
        return []
    decide_views(res, facts, b, b.id + "|default = try_copy_to_slice or panic", cts_probs, "try_copy_to_slice(dst).unwrap_or_else(panic)")
    # --- <&[u8]>::copy_to_slice
    b = find(facts, "<&[u8] as buf::buf_impl::Buf>::copy_to_slice")

    def slice_probs(v):
        """one copy of the first dst.len() bytes of *self into dst, and *self becomes the rest: `&self[..n]` + `advance(n)`, or
        `(head, tail) = self.split_at(n)` + `*self = tail` (n = dst.len())"""
        probs = []
        cp = calls_of(v, facts, "copy_from_slice")
        if len(cp) != 1:
            return ["expected exactly one copy_from_slice"]
        bi, a = cp[0]

        def is_dlen(x):
            x = uncast(x)
            return callname(x) == "len" and peel(x[2][0]) == P2

        def split_part(x, i):
            x = peel(x)
            return isinstance(x, tuple) and x and x[0] == "field" and str(x[2]) == str(i) and callname(peel(x[1])) == "split_at" \
                and is_self(peel(x[1])[2][0]) and is_dlen(peel(x[1])[2][1])
        src = peel(a[1])
        ok_src = (callname(src) == "index" and is_self(src[2][0]) and aggname(src[2][1]).endswith("RangeTo") and is_dlen(src[2][1][2][0])) or split_part(src, 0)
        if not (peel(a[0]) == P2 and ok_src):
            probs.append("does not copy self[..dst.len()] into dst: %s" % fmt_expr(src)[:60])
        adv = calls_of(v, facts, "advance")
        consumed = len(adv) == 1 and is_self(adv[0][1][0]) and is_dlen(adv[0][1][1])
        if not consumed:
            # `*self = tail`
            eb = ExprBuilder(v, facts, inline=True)
            for bj, blk in enumerate(v.blocks):
                for sj, st in enumerate(blk["stmts"]):
                    if st["k"] == "assign" and st["pl"]["p"] == ["*"] and canon(eb.local(st["pl"]["l"], (bj, sj))) == P1:
                        val = canon(eb.rvalue(st["rv"], (bj, sj), 0))
                        rest = peel(val)
                        if split_part(val, 1) or (callname(rest) == "index" and is_self(rest[2][0]) and aggname(rest[2][1]).endswith("RangeFrom") and is_dlen(rest[2][1][2][0])):
                            consumed = True
        if not consumed:
            probs.append("does not advance by dst.len()")
        return probs
    decide_views(res, facts, b, b.id + "|copies and consumes dst.len() bytes", slice_probs, "dst.copy_from_slice(&self[..dst.len()]); advance(dst.len())")


def decide_views(res, facts, b, key, probs_fn, how):
    from .inline import views
    probs = probs_fn(b)
    note = ""
    if probs:
        for ib in views(facts, b):
            if not probs_fn(ib):
                probs, note = [], " (with helpers inlined)"
                break
    if probs:
        res.bad(key, b.loc(), "; ".join(probs))
    else:
        res.ok(key, b.loc(), how + note, nontrivial=True)


def check_iter(res, facts):
    b = find(facts, "<buf::iter::IntoIter<T> as core::iter::Iterator>::next")
    inner = ("field", ("deref", P1), "inner")

    def on_inner(x, name):
        return callname(x) == name and peel(x[2][0]) == inner
    from .flow import allow_stale_guards
    with allow_stale_guards():      # the conditions under which the byte was read (before the advance that follows); their freshness at the read is C9's clause
        alts = ret_alts(b, facts)
    probs = []
    kinds = set()
    for bi, e, rels in alts:
        if aggname(e).endswith("::None"):
            kinds.add("none")
            if not truth(rels, lambda x: on_inner(x, "has_remaining"), 0):
                probs.append("returns None although bytes may remain")
        elif aggname(e).endswith("::Some"):
            kinds.add("some")
            v = peel(e[2][0])
            if not (isinstance(v, tuple) and v[0] == "index" and on_inner(peel(v[1]), "chunk") and const_of(v[2]) == 0):
                probs.append("yields %s, not inner.chunk()[0]" % fmt_expr(v)[:60])
            if not truth(rels, lambda x: on_inner(x, "has_remaining"), 1):
                probs.append("reads chunk()[0] without knowing bytes remain")
            adv = [c for c in calls_of(b, facts, "advance")]
            if not (len(adv) == 1 and peel(adv[0][1][0]) == inner and const_of(adv[0][1][1]) == 1):
                probs.append("does not advance the inner buffer by exactly 1")
            else:
                from .flow import cfg_of
                if not cfg_of(b).dominates(adv[0][0], bi):
                    probs.append("a byte is yielded on a path that does not advance")
        else:
            probs.append("returns %s" % fmt_expr(e)[:60])
    if kinds != {"none", "some"}:
        probs.append("next must have a None and a Some exit")
    key = b.id + "|chunk()[0], advance(1), None only when drained"
    (res.bad if probs else res.ok)(key, b.loc(), "; ".join(sorted(set(probs))) if probs else "Some(chunk()[0]) + advance(1) iff has_remaining()", **({} if probs else {"nontrivial": True}))

    # every other method IntoIter implements itself (fold, nth, count, for_each, try_fold, ..): bytes it takes out of `inner.chunk()` are consumed -
    # from a chunk() read, every way to a return passes an `inner.advance(..)` (must-pass-through on the CFG); methods built on `self.next()` only
    # have no chunk() read and are covered by the clause above
    from .flow import cfg_of as _cfg
    for im in facts.impls:
        if not im["self_ty"].startswith("buf::iter::IntoIter") or im.get("trait") not in ("core::iter::Iterator", "core::iter::DoubleEndedIterator", "core::iter::ExactSizeIterator", "core::iter::FusedIterator"):
            continue
        for it in im["items"]:
            mb = facts.by_did.get(it.get("did"))
            if mb is None or it["name"] in ("next", "size_hint"):
                continue
            bodies = [mb] + [c for c in facts.children.get(mb.did, []) if c.kind == "closure"]
            for fb in bodies:
                inner_ = inner if fb is mb else None
                chunks, advs = [], set()
                for bi_, t_ in fb.calls():
                    fn_ = callee(t_)
                    if fn_ is None or fb.blocks[bi_]["cleanup"]:
                        continue
                    if fn_["name"] == "chunk" and "res" in fn_ and fn_["res"] is None:
                        chunks.append(bi_)
                    if fn_["name"] in ("advance", "copy_to_slice", "copy_to_bytes") and "res" in fn_ and fn_["res"] is None:
                        advs.add(bi_)
                if not chunks:
                    continue
                cfg_ = _cfg(fb)
                key_ = "%s|bytes taken from chunk() are consumed" % mb.id
                leak = None
                for c_ in chunks:
                    seen_, st_ = set(), [c_]
                    while st_ and leak is None:
                        x_ = st_.pop()
                        for y_ in cfg_.succ[x_]:
                            if y_ in seen_ or y_ in advs:
                                continue
                            seen_.add(y_)
                            if fb.blocks[y_]["term"]["k"] == "return":
                                leak = (c_, y_)
                                break
                            st_.append(y_)
                if leak:
                    res.bad(key_, fb.loc(leak[0]), "a path from the chunk() read at bb%d returns (bb%d) without advancing the inner buffer: the bytes were yielded but are still there" % leak)
                else:
                    res.ok(key_, fb.loc(), "every way from a chunk() read to a return passes inner.advance(..)", nontrivial=True)

    b = find(facts, "<buf::iter::IntoIter<T> as core::iter::Iterator>::size_hint")
    alts = ret_alts(b, facts)
    key = b.id + "|(remaining, Some(remaining))"
    ok = False
    if len(alts) == 1:
        e = alts[0][1]
        if e[0] == "agg" and len(e[2]) == 2:
            lo, hi = e[2]
            ok = on_inner(lo, "remaining") and aggname(hi).endswith("::Some") and on_inner(hi[2][0], "remaining")
    (res.ok if ok else res.bad)(key, b.loc(), "exact size hint" if ok else "size_hint is %s" % " / ".join(fmt_expr(a[1])[:80] for a in alts))
