"""A18 INV-PRESERVE: `len <= cap` of every BytesMut is re-established on every path of every function that stores to its `len` or
`cap` (or builds a BytesMut), as an entailment in the linear-inequality domain over the state at the end of the path.

  assumed at entry    len <= cap for every BytesMut the function can see (the invariant itself), Vec::len <= Vec::capacity
                      the function's own stated preconditions (`debug_assert!`s of an unsafe helper: the callers' obligation, A6)
  along the path      the release-mode branch conditions; stores applied in order; documented effects of Vec calls (pathstate.py)
  to show at exit     len' <= cap' for every handle whose len or cap was stored to, and `len <= cap` inside every BytesMut aggregate

A8 justifies each store by a pattern ("cap -= k paired with ptr += k"); this rule checks what the patterns are for: whatever the
function did to len and cap *together*, the handle it leaves behind cannot claim more initialised bytes than it has room for.
A branch that updates one field and skips the companion (a `len -= count` guarded by `count <= len` with no `else`) shows up here.
"""
from .base import Result
from .facts import callee
from .flow import ExprBuilder, enumerate_paths, canon, fmt_expr, walk, stated_preconditions
from .pathstate import StatePathBuilder
from .lin import State
from .r_a8 import HANDLE, writes_of

FIELD_IDX = {"ptr": 0, "len": 1, "cap": 2, "data": 3}


def handle_invariants(exprs):
    """len <= cap for every handle base whose len or cap is read anywhere in `exprs`"""
    out = []
    seen = set()
    for e in exprs:
        for x in walk(e):
            if isinstance(x, tuple) and len(x) == 3 and x[0] == "field" and x[2] in ("len", "cap") and isinstance(x[1], tuple):
                base = x[1]
                if base in seen:
                    continue
                seen.add(base)
                out.append(("le", ("field", base, "len"), ("field", base, "cap")))
    return out


def run(facts):
    res = Result("A18", "every function that stores to BytesMut.len / .cap (or builds a BytesMut) leaves len <= cap on every path: entailed from the "
                        "entry invariant, the function's stated preconditions and the path's conditions (state at the end of the path, linear-inequality domain)")
    n_fn = 0
    for b in facts.fn_bodies():
        if facts.is_test(b) or b.kind not in ("fn", "assoc_fn", "closure"):
            continue
        eb0 = ExprBuilder(b, facts, inline=True)
        ws = [w for w in writes_of(b, facts, eb0) if (w["kind"] == "write" and w["field"] in ("len", "cap")) or w["kind"] == "agg"]
        if not ws:
            continue
        n_fn += 1
        pre = [r for r in stated_preconditions(b, facts) if r[0] in ("le", "lt", "eq")] if b.safety == "unsafe" else []
        bad, n_paths = judge_body(facts, b, pre)
        if bad and b.kind in ("fn", "assoc_fn"):
            # a decision or a guard may have moved into a helper (classifier fn, Result-returning check): judge the inlined views
            from .inline import views
            for ib in views(facts, b, keep_names=("rebuild_vec", "offset_from", "vptr", "get_vec_pos", "set_vec_pos", "kind", "reserve", "reserve_inner")):
                bad2, n2 = judge_body(facts, ib, pre)
                if not bad2 and n2:
                    bad, n_paths = None, n2
                    break
        if bad and b.kind in ("fn", "assoc_fn") and (b.safety == "unsafe" or str(b.vis).startswith("Restricted")):
            # a private / unsafe helper whose requirement lives with its callers (`unsafe fn move_to_fresh_vec(&mut self, shared, new_cap)`,
            # new_cap >= len by construction at the only call site): judged in every caller with the helper spliced in
            from .inline import contexts
            ctxs = [c for c in contexts(facts, b) if not facts.is_test(c)]
            # a context rooted in a private function that is itself spliced into a wider context (helper of a helper) is judged there
            inner_roots = {x for c in ctxs for x in (c._cache.get("inlined_from") or ())}
            wide = [c for c in ctxs if c.id not in inner_roots]
            if wide:
                ctxs = wide
            if ctxs:
                worst = None
                tot = 0
                for cb in ctxs:
                    cpre = [r for r in stated_preconditions(cb, facts) if r[0] in ("le", "lt", "eq")] if cb.safety == "unsafe" else []
                    bad2, n2 = judge_body(facts, cb, cpre)
                    tot += n2
                    if bad2:
                        worst = bad2
                        break
                if worst is None and tot:
                    bad, n_paths = None, tot
        key = "%s|len <= cap at every exit" % b.id
        if bad:
            res.bad(key, b.loc(), "on the path bb%s %s ends with len = %s and cap = %s, and len <= cap does not follow from the invariant at entry, the stated "
                                  "preconditions and the conditions on that path" % ("->bb".join(str(x) for x in bad[0]), bad[3], fmt_expr(bad[1])[:70], fmt_expr(bad[2])[:70]),
                    path="bb" + "->bb".join(str(x) for x in bad[0]))
        else:
            res.ok(key, b.loc(), "%d path(s) store to len / cap or build a handle; len <= cap is entailed at the end of each" % n_paths, nontrivial=True)
    res.floor("functions storing to len / cap", n_fn, 8)
    return res


def view_containment(b, exprs):
    """slot-style functions receive a view (ptr, len) of a buffer: the view lies inside the allocation, i.e.
    (ptr - buffer start) + len <= allocation size, for the control block's Vec / recorded capacity read in the function.
    (That a Bytes view stays inside its allocation is what A13 / A5 / A6 check where views are cut.)"""
    tys = [b.locals[i]["ty"] for i in range(1, b.arg_count + 1)]
    pi = None
    for i in range(len(tys) - 1):
        if tys[i] in ("*const u8", "*mut u8") and tys[i + 1] == "usize":
            pi = i + 1
    if pi is None:
        return []
    ptr, ln = ("param", pi), ("param", pi + 1)
    offs, caps = set(), set()
    for e in exprs:
        for x in walk(e):
            if not isinstance(x, tuple) or not x:
                continue
            if x[0] == "call" and x[1].rsplit("::", 1)[-1] == "offset_from" and len(x[2]) == 2 and any(y == ptr for y in walk(x[2][0])):
                offs.add(x)
            if x[0] == "vecprop" and x[1] == "capacity" and x[3] == 0 and any(isinstance(y, tuple) and len(y) == 3 and y[0] == "field" and y[2] == "vec" for y in walk(x[2])):
                caps.add(x)
            if x[0] == "field" and len(x) == 3 and x[2] == "cap" and not any(y == ("param", 1) and False for y in walk(x)) and "deref" in str(x[1])[:12]:
                pass
    return [("le", ("bin", "Add", o, ln), c) for o in offs for c in caps]


def judge_body(facts, b, pre):
    """-> (bad, n_paths); bad = (path, len', cap', what) for the first path on which len <= cap is not entailed"""
    # the places written (as JSON places, without the final field)
    bases = {}
    aggs = []
    for bi, blk in enumerate(b.blocks):
        if blk["cleanup"]:
            continue
        for si, s in enumerate(blk["stmts"]):
            if s["k"] != "assign":
                continue
            pl = s["pl"]
            if pl["p"] and isinstance(pl["p"][-1], dict) and pl["p"][-1].get("adt") == HANDLE and pl["p"][-1].get("n") in ("len", "cap"):
                bases[json_key(pl["l"], pl["p"][:-1])] = (pl["l"], pl["p"][:-1])
            if s["rv"]["k"] == "agg" and s["rv"].get("adt") == HANDLE:
                aggs.append((bi, si, s["rv"]))
    bad = None
    n_paths = 0
    for path in enumerate_paths(b, limit=6000):
        sp = StatePathBuilder(b, facts, path)
        end = (path[-1], len(b.blocks[path[-1]]["stmts"]))
        goals = []
        for (l, proj) in bases.values():
            # only handles actually stored to on this path
            if not any(b.blocks[bb]["stmts"] and any(s["k"] == "assign" and s["pl"]["l"] == l and s["pl"]["p"] and s["pl"]["p"][:-1] == proj and isinstance(s["pl"]["p"][-1], dict)
                                                   and s["pl"]["p"][-1].get("n") in ("len", "cap") for s in b.blocks[bb]["stmts"]) for bb in path):
                continue
            f = lambda nm: canon(sp.place({"l": l, "p": list(proj) + [{"f": FIELD_IDX[nm], "n": nm, "adt": HANDLE}]}, end))
            goals.append((f("len"), f("cap"), "handle %s" % fmt_expr(canon(sp.place({"l": l, "p": list(proj)}, end)))[:30]))
        for (bi, si, rv) in aggs:
            if bi not in path:
                continue
            fd = dict(zip(rv["fields"], rv["ops"]))
            if "len" in fd and "cap" in fd:
                goals.append((canon(sp.operand(fd["len"], (bi, si))), canon(sp.operand(fd["cap"], (bi, si))), "the BytesMut built here"))
        if not goals:
            continue
        n_paths += 1
        rels = sp.path_relations()
        vf = sp.vec_facts()
        exprs = [g[0] for g in goals] + [g[1] for g in goals] + [x for r in rels for x in r[1:3] if isinstance(x, tuple)]
        hyp = handle_invariants(exprs) + pre + view_containment(b, exprs)
        st = State(hyp + rels + vf)
        if st.refuted():
            continue
        for (ln, cp, what) in goals:
            if not st.entails(("le", ln, cp)):
                bad = (path, ln, cp, what)
                break
        if bad:
            break
    return bad, n_paths


def json_key(l, proj):
    return (l, repr(proj))
