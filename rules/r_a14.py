"""A14 UNWIND-WINDOW — user code never runs while the destructor of a storage owner is suppressed.

Once a function has parked a storage-owning value (a handle, a Vec<u8>/Box<[u8]> or a control-block box) in
`ManuallyDrop` (or `mem::forget`s it) it is *manually* responsible for that storage until it returns.  If user code
(a method of a caller-chosen type: iterator `next`, `Buf::chunk`, `AsRef::as_ref`, ...) runs inside that window and
panics, the unwinding skips the manual hand-over: the storage leaks, or - when the parked value aliases a handle that
is still live, as a Vec rebuilt from a BytesMut's raw parts does - is freed twice / used after a realloc.

Rule: from every such suppression point no call that may run user code is reachable along normal edges in the same
function.  A call may run user code when it is an unresolved trait call on one of the caller's type parameters, a
call of a foreign generic function instantiated with one of the caller's type parameters (`Vec::extend::<I>`), or a
call of a crate function that (transitively) does so for the generic arguments it is given.
(`Bytes::from_owner`, whose window is opened by `Box::into_raw`, is decided by A3.)
"""
import re
from .base import Result, RuleError
from .facts import callee
from .flow import cfg_of
from . import roles

SUPPRESS = ("core::mem::ManuallyDrop::<T>::new", "core::mem::forget", "core::mem::manually_drop::ManuallyDrop::<T>::new")


def type_params(facts, b):
    """names of the type parameters in scope of body b (fn generics + impl generics)"""
    names = set()
    d = b.did
    seen = 0
    while d is not None and seen < 4:
        seen += 1
        fn = facts.fns_by_did.get(d)
        if fn:
            names.update(g for g in fn.get("generics", []) if not g.startswith("'"))
            for p in fn.get("predicates", []):
                m = re.match(r"^([A-Z][A-Za-z0-9_]*): ", p)
                if m:
                    names.add(m.group(1))
            imp = facts.impl_by_did.get(fn.get("container_did"))
            if imp:
                for p in imp.get("predicates", []):
                    m = re.match(r"^([A-Z][A-Za-z0-9_]*): ", p)
                    if m:
                        names.add(m.group(1))
        pb = facts.by_did.get(d)
        d = pb.parent_did if pb is not None else None
    # `Self` is a concrete crate type inside an impl, but the caller's own type inside a provided method of a trait (Buf::copy_to_bytes, ..)
    in_trait = False
    d = b.did
    for _ in range(4):
        fn = facts.fns_by_did.get(d)
        if fn and fn.get("container_did") is not None:
            in_trait = any(t.get("did") == fn.get("container_did") for t in facts.traits.values())
            break
        pb = facts.by_did.get(d)
        d = pb.parent_did if pb is not None else None
        if d is None:
            break
    if in_trait:
        names.add("Self")
    else:
        names.discard("Self")
    return names


def mentions(tys, names):
    for t in tys or []:
        for n in names:
            if re.search(r"(?<![A-Za-z0-9_:])%s(?![A-Za-z0-9_])" % re.escape(n), t):
                return True
    return False


class UserCalls:
    def __init__(self, facts):
        self.facts = facts
        self.tp = {}
        self.generic_user = {}     # did -> body itself performs user calls through its own type parameters
        bodies = facts.fn_bodies()
        for b in bodies:
            self.tp[b.did] = type_params(facts, b)
        for b in bodies:
            self.generic_user[b.did] = False
        changed = True
        while changed:
            changed = False
            for b in bodies:
                if self.generic_user[b.did]:
                    continue
                for bi, t in b.calls():
                    if b.blocks[bi]["cleanup"]:
                        continue
                    if self.may_user(b, t):
                        self.generic_user[b.did] = True
                        changed = True
                        break

    def may_user(self, b, t):
        fn = callee(t)
        if fn is None:
            return None
        names = self.tp.get(b.did, set())
        r = fn.get("res")
        targs = fn.get("args") or []
        if r is None:
            # unresolved trait call: user code when dispatched on one of our type parameters (or a trait object)
            if fn.get("trait") and (mentions([fn.get("self_ty") or ""], names) or mentions(targs, names) or (fn.get("self_ty") or "").startswith("dyn ")):
                return "%s on %s" % (fn["path"], fn.get("self_ty"))
            return None
        if not r.get("local"):
            if mentions(targs, names):
                return "%s instantiated with %s" % (fn["full"][:80], [a for a in targs if mentions([a], names)])
            return None
        cb = self.facts.by_did.get(r.get("did"))
        if cb is not None and self.generic_user.get(cb.did) and mentions(targs, names):
            return "%s (runs methods of %s)" % (r["path"], [a for a in targs if mentions([a], names)])
        return None


def owner_type(ty, handles, cbs):
    ty = ty or ""
    if any(h in ty for h in handles):
        return True
    if "alloc::vec::Vec<u8>" in ty or "alloc::boxed::Box<[u8]>" in ty:
        return True
    return any(c in ty for c in cbs)


def crate_closure_only(facts, uc, b, t):
    """the "user" call is `f(..)` on a closure parameter of a private function, and every caller in the crate hands over a closure written in
    the crate that itself runs no user code (`bytes.consume_with(|vtable| vtable.into_mut)`): nobody outside the crate can put code there"""
    from .inline import callers_of
    from .flow import ExprBuilder, canon
    fn = callee(t)
    if fn is None or fn["name"] not in ("call_once", "call_mut", "call") or str(b.vis) == "Public" or b.kind not in ("fn", "assoc_fn"):
        return False
    if facts.trait_item_of(b) or (facts.impl_of(b) or {}).get("trait"):
        return False
    eb = ExprBuilder(b, facts, inline=False)
    bi = [i for i, blk in enumerate(b.blocks) if blk["term"] is t]
    if not bi or not t["args"]:
        return False
    r = canon(eb.operand(t["args"][0], (bi[0], len(b.blocks[bi[0]]["stmts"]))))
    while isinstance(r, tuple) and r and r[0] in ("ref", "deref"):
        r = r[1]
    if not (isinstance(r, tuple) and r and r[0] == "param"):
        return False
    k = r[1]
    cs = [c for c in callers_of(facts, b.did) if not facts.is_test(c)]
    if not cs:
        return False
    for cb in cs:
        ebc = ExprBuilder(cb, facts, inline=False)
        for cbi, ct in cb.calls():
            cfn = callee(ct)
            if cfn is None or ((cfn.get("res") or {}).get("did") != b.did) or k - 1 >= len(ct["args"]):
                continue
            a = canon(ebc.operand(ct["args"][k - 1], (cbi, len(cb.blocks[cbi]["stmts"]))))
            if not (isinstance(a, tuple) and a and a[0] == "closure"):
                return False
            clb = facts.by_did.get(a[1])
            if clb is None or uc.generic_user.get(clb.did) or any(uc.may_user(clb, blk["term"]) for blk in clb.blocks if blk["term"]["k"] == "call" and not blk["cleanup"]):
                return False
    return True


def run(facts):
    res = Result("A14", "no call that may run user code is reachable from a point where the destructor of a storage owner was suppressed (ManuallyDrop / forget)")
    handles = roles.handle_types(facts)
    cbs = roles.control_blocks(facts)
    uc = UserCalls(facts)
    n = 0
    for b in facts.fn_bodies():
        cfg = cfg_of(b)
        cnt = 0
        for bi, t in b.calls():
            fn = callee(t)
            if fn is None or b.blocks[bi]["cleanup"]:
                continue
            p = (fn.get("res") or fn)["path"]
            if p not in SUPPRESS:
                continue
            ty = (fn.get("args") or [""])[0]
            if not owner_type(ty, handles, cbs):
                continue
            n += 1
            cnt += 1
            key = "%s|after ManuallyDrop<%s>%s" % (b.id, ty.rsplit("::", 1)[-1], "#%d" % cnt if cnt > 1 else "")
            bad = []
            for bj in sorted(cfg.reachable_from(bi)):
                if b.blocks[bj]["cleanup"]:
                    continue
                tt = b.blocks[bj]["term"]
                if tt["k"] != "call":
                    continue
                why = uc.may_user(b, tt)
                if why and crate_closure_only(facts, uc, b, tt):
                    why = None
                if why:
                    bad.append("%s @%s" % (why, b.loc(bj)))
            if bad:
                res.bad(key, b.loc(bi), "user code can run (and panic) while the storage is owned manually: %s" % "; ".join(bad[:3]))
            else:
                res.ok(key, b.loc(bi), "no user-code call reachable before the function returns", nontrivial=True)
    gen = sorted(facts.by_did[d].id for d, v in uc.generic_user.items() if v)
    res.notes.append("%d crate functions can run user code through their type parameters" % len(gen))
    res.floor("suppression_points", n, 10)
    res.floor("user_code_functions", len(gen), 40)
    return res
