"""B1 ORDERING-BY-ROLE and B2 RMW-DECIDES — every atomic site on a reference count or on the
tagged `data` pointer has at least the ordering its *role* requires (Arc/Boost release-acquire
recipe), and free/take-over decisions are taken on the result of the atomic RMW itself."""
from .base import Result, RuleError
from .facts import callee
from .flow import ExprBuilder, cfg_of, edge_conditions, guards_at, normalize_cmp, walk, fmt_expr, contains
from . import roles

ATOMIC_METHODS = ("load", "store", "swap", "fetch_add", "fetch_sub", "compare_exchange", "compare_exchange_weak",
                  "fetch_or", "fetch_and", "fetch_update")
RANK = {"Relaxed": 0, "Release": 1, "Acquire": 1, "AcqRel": 2, "SeqCst": 3}
HAS_RELEASE = ("Release", "AcqRel", "SeqCst")
HAS_ACQUIRE = ("Acquire", "AcqRel", "SeqCst")


def ordering_of(e):
    if isinstance(e, tuple):
        if e[0] == "agg" and isinstance(e[1], tuple) and "Ordering::" in e[1][1]:
            return e[1][1].rsplit("::", 1)[-1]
        if e[0] == "const" and e[1] in RANK:
            return e[1]
    return None


def trailing_field(e):
    while isinstance(e, tuple) and e and e[0] in ("ref", "deref"):
        e = e[1]
    if isinstance(e, tuple) and e and e[0] == "field":
        return e[2]
    return None


_REHOME_PREDS = {}


def atomic_sites(facts):
    """all atomic operations in non-test code, classified by object.  A decrement that sits in a private predicate (`unsafe fn dec_ref(p) -> bool`:
    fetch_sub, `== 1`, Acquire load, `true`) whose callers free on its `true` answer is read where the decision is acted on: in each caller, with the
    predicate spliced in (the release primitive is then the caller, as it would be had the code been written out there)."""
    k = "atomic_sites"
    if k in facts.__dict__:
        return facts.__dict__[k]
    sites = _atomic_sites_in(facts, list(facts.fn_bodies()))
    from .inline import callers_of, inlined
    preds = {}
    for s_ in sites:
        b = s_["body"]
        if s_["obj"] == "refcount" and s_["method"] == "fetch_sub" and b.kind in ("fn", "assoc_fn") and b.locals[0]["ty"] == "bool" \
                and str(b.vis) != "Public" and not free_events(b, facts) and callers_of(facts, b.did):
            preds[b.did] = b
    if preds:
        sites = [s_ for s_ in sites if s_["body"].did not in preds]
        for did, pb in preds.items():
            pr = _REHOME_PREDS.setdefault(did, (lambda facts_, caller, cb, fn, d=did: cb.did == d))
            for cb in callers_of(facts, did):
                if facts.is_test(cb):
                    continue
                view = inlined(facts, cb, pred=pr)
                own = {(x["bb"], x["method"]) for x in sites if x["body"].did == cb.did}
                sites = [x for x in sites if x["body"].did != cb.did]
                sites += _atomic_sites_in(facts, [view])
    facts.__dict__[k] = sites
    return sites


def _atomic_sites_in(facts, bodies):
    cbs = roles.control_blocks(facts)
    rc_fields = set(cbs.values())
    sites = []
    for b in bodies:
        eb = None
        for bi, t in b.calls():
            fn = callee(t)
            if fn is None:
                continue
            res = fn.get("res") or fn
            p = res["path"]
            if fn["name"] not in ATOMIC_METHODS or "tomic" not in p:
                continue
            if eb is None:
                eb = ExprBuilder(b, facts, inline=False)
            loc = (bi, len(b.blocks[bi]["stmts"]))
            args = [eb.operand(a, loc) for a in t["args"]]
            recv_ty = None
            a0 = t["args"][0]
            if a0["k"] in ("copy", "move") and not a0["pl"]["p"]:
                recv_ty = b.locals[a0["pl"]["l"]]["ty"]
            fld = trailing_field(args[0])
            if fld in rc_fields or (recv_ty and roles.is_atomic_usize(recv_ty)):
                obj = "refcount"
            elif recv_ty and roles.is_atomic_ptr(recv_ty):
                obj = "data"
            else:
                obj = "other"
            ords = [ordering_of(a) for a in args[1:]]
            ords = [o for o in ords if o]
            dest = t["dest"]["l"] if not t["dest"]["p"] else None
            sites.append({"body": b, "bb": bi, "method": fn["name"], "obj": obj, "field": fld, "args": args,
                          "ords": ords, "dest": dest, "term": t, "path": p})
    return sites


def threaded_dominates(body, a, b_):
    """every way from the entry to block b_ passes block a, in the CFG with jumps threaded through constant bool flags (`return true` of a
    spliced-in predicate followed by the caller's `if answer { .. }` goes straight to the arm the constant selects)"""
    from .flow import threaded_successors
    succ = threaded_successors(body)
    if a == b_:
        return True
    seen, st = {0}, [0]
    if a == 0:
        return True
    while st:
        x = st.pop()
        for y in succ.get(x, []):
            if y == a or y in seen:
                continue
            if y == b_:
                return False
            seen.add(y)
            st.append(y)
    return True


def call_name(t):
    fn = callee(t)
    if fn is None:
        return None
    return (fn.get("res") or fn)["path"]


def free_events(b, facts):
    """blocks that free / take apart a control block: Box::from_raw, dealloc, indirect call through
    a fn pointer (the owner's drop fn), MIR drop of a Box"""
    ev = []
    for bi, blk in enumerate(b.blocks):
        if blk["cleanup"]:
            continue
        t = blk["term"]
        if t["k"] == "call":
            p = call_name(t)
            if p is None:
                ev.append((bi, "indirect call"))
            elif p.startswith("alloc::boxed::Box::<T>::from_raw") or p == "alloc::boxed::Box::<T>::from_raw":
                ev.append((bi, "Box::from_raw"))
            elif p.endswith("alloc::dealloc"):
                ev.append((bi, "dealloc"))
        elif t["k"] == "drop" and "Box<" in t["ty"]:
            ev.append((bi, "drop Box"))
    return ev


def run(facts):
    res = Result("B1", "atomic sites on refcounts / the data pointer have the ordering their role requires "
                       "(decrement >= Release; Acquire before free; publishing CAS Release/Acquire; dereferenced data loads >= Acquire; "
                       "overflow abort on increment); free decisions use the RMW result")
    sites = atomic_sites(facts)
    vts = roles.vtables(facts)
    # families and their mutability of `data`
    calls_of = {}
    for b in facts.fn_bodies():
        s = set()
        for _, t in b.calls():
            fn = callee(t)
            if fn is None:
                continue
            r = fn.get("res") or fn
            if r.get("local") and r.get("did") is not None:
                s.add(r["did"])
            # closures passed as arguments run in the callee (with_mut)
            for a in t["args"]:
                pass
        for c in facts.children.get(b.did, []):
            s.add(c.did)
        calls_of[b.did] = s
    fam_members = {}
    for name, slots in vts.items():
        mem = set()
        st = [s["did"] if s.get("did") is not None else (s.get("res") or {}).get("did") for s in slots.values() if s]
        while st:
            d = st.pop()
            if d is None or d in mem:
                continue
            mem.add(d)
            st.extend(calls_of.get(d, ()))
        fam_members[name] = mem
    data_writers = {s["body"].did for s in sites if s["obj"] == "data" and s["method"] in ("compare_exchange", "compare_exchange_weak", "store", "swap")}
    mutable_fams = {n for n, m in fam_members.items() if m & data_writers}
    in_mutable = set()
    for n in mutable_fams:
        in_mutable |= fam_members[n]

    n_sites = 0
    for s in sites:
        b = s["body"]
        loc = b.loc(s["bb"])
        key = "%s|%s.%s" % (b.id, s["obj"] if s["obj"] != "refcount" else (s["field"] or "refcount"), s["method"])
        n_sites += 1
        cfg = cfg_of(b)
        eb = ExprBuilder(b, facts, inline=False)
        if s["obj"] == "refcount" and s["method"] == "fetch_sub":
            o = s["ords"][0] if s["ords"] else None
            probs = []
            if o not in HAS_RELEASE:
                probs.append("O1: decrement is %s, needs >= Release (earlier uses of the buffer must happen-before the free)" % o)
            # B2 + O2
            r_expr = None
            t1 = None
            for (src, dst, c, v) in edge_conditions(b, facts, inline=False):
                rel = normalize_cmp(c, v)
                if rel[0] == "eq" and ((is_call_at(rel[1], "fetch_sub") and rel[2] == ("const", 1)) or (is_call_at(rel[2], "fetch_sub") and rel[1] == ("const", 1))):
                    t1 = dst
            fe = free_events(b, facts)
            if t1 is None:
                probs.append("B2: the last-reference decision does not compare the fetch_sub result with 1")
            else:
                acq = [x for x in sites if x["body"] is b and x["obj"] == "refcount" and x["method"] == "load" and x["ords"] and x["ords"][0] in HAS_ACQUIRE
                       and x["field"] == s["field"]]
                fences = [bi for bi, t in b.calls() if (call_name(t) or "").endswith("atomic::fence")]
                for (fb, what) in fe:
                    if not cfg.dominates(t1, fb) and not threaded_dominates(b, t1, fb):
                        probs.append("B2: %s at %s is not confined to the `== 1` edge of the decrement" % (what, b.loc(fb)))
                        continue
                    if o in ("AcqRel", "SeqCst"):
                        continue
                    dom = lambda a_, b_: cfg.dominates(a_, b_) or threaded_dominates(b, a_, b_)
                    ok = any(dom(t1, x["bb"]) and dom(x["bb"], fb) and x["bb"] != fb for x in acq) or \
                        any(dom(t1, f) and dom(f, fb) for f in fences)
                    if not ok:
                        probs.append("O2: no Acquire load/fence of the counter between the `== 1` edge and %s at %s" % (what, b.loc(fb)))
                if not fe:
                    probs.append("release primitive frees nothing")
            if probs:
                res.bad(key, loc, "; ".join(probs))
            else:
                res.ok(key, loc, "%s decrement; `== 1` edge -> Acquire -> free (%s)" % (o, ", ".join(w for _, w in fe)), nontrivial=True)
        elif s["obj"] == "refcount" and s["method"] == "fetch_add":
            # O5: result compared with a huge constant, overflow edge aborts
            ok = False
            for (src, dst, c, v) in edge_conditions(b, facts, inline=False):
                rel = normalize_cmp(c, v)
                if rel[0] == "lt" and is_call_at(rel[2], "fetch_add") and big_const(rel[1]):
                    # edge where  BIG < old  holds -> must abort
                    t = b.blocks[dst]["term"]
                    if t["k"] == "call" and (call_name(t) or "").rsplit("::", 1)[-1] == "abort" and t["target"] is None:
                        ok = True
            if ok:
                res.ok(key, loc, "Relaxed increment is enough (new reference derives from an existing one); overflow edge aborts", nontrivial=True)
            else:
                res.bad(key, loc, "O5: increment result is not compared with isize::MAX-like bound followed by abort() (refcount overflow => use after free)")
        elif s["obj"] == "refcount" and s["method"] in ("compare_exchange", "compare_exchange_weak"):
            succ = s["ords"][0] if s["ords"] else None
            a = s["args"]
            shape = (a[1] == ("const", 1) and a[2] == ("const", 0))
            probs = []
            if s["method"] == "compare_exchange_weak" and not cfg.reaches(s["bb"], s["bb"]):
                probs.append("a weak compare-exchange may fail spuriously: outside a retry loop a spurious failure is taken for a lost race (the buffer is treated as shared)")
            if not shape:
                probs.append("B2: take-over CAS is not 1 -> 0")
            if succ not in HAS_ACQUIRE:
                probs.append("O3: success ordering %s lacks Acquire (other owners' last uses must happen-before the take-over)" % succ)
            if succ not in HAS_RELEASE:
                probs.append("success ordering %s lacks Release" % succ)
            if probs:
                res.bad(key, loc, "; ".join(probs))
            else:
                res.ok(key, loc, "CAS 1->0 %s/%s" % tuple(s["ords"][:2]), nontrivial=True)
        elif s["obj"] == "refcount" and s["method"] == "load":
            o = s["ords"][0] if s["ords"] else None
            role = load_role(s, b, facts, sites)
            if role == "acquire-before-free":
                if o in HAS_ACQUIRE:
                    res.ok(key, loc, "Acquire reload before free")
                else:
                    res.bad(key, loc, "O2: reload before free is %s, needs Acquire" % o)
            elif role == "advisory":
                res.ok(key, loc, "advisory is_unique result (%s): every take-over re-validates (O3)" % o)
            else:
                # uniqueness test that guards a take-over in this function or its callers
                if o in HAS_ACQUIRE:
                    res.ok(key, loc, "uniqueness test with %s" % o, nontrivial=True)
                else:
                    res.bad(key, loc, "O3: uniqueness test that guards a take-over is %s, needs Acquire" % o)
        elif s["obj"] == "data" and s["method"] in ("compare_exchange", "compare_exchange_weak"):
            succ, fail = (s["ords"] + [None, None])[:2]
            probs = []
            if succ not in HAS_RELEASE:
                probs.append("O4: publishing CAS success is %s, needs Release (the new control block must be visible to whoever loads the pointer)" % succ)
            if succ not in HAS_ACQUIRE:
                probs.append("O4: publishing CAS success is %s, needs Acquire" % succ)
            if s["method"] == "compare_exchange_weak" and not cfg.reaches(s["bb"], s["bb"]):
                probs.append("a weak compare-exchange may fail spuriously with the expected value still in place: outside a retry loop the Err edge takes the unchanged "
                             "pointer for the winner's control block")
            # is the failure value used?
            used = err_value_used(s, b, facts)
            if used and fail not in HAS_ACQUIRE:
                probs.append("O4: failure ordering is %s but the winner's control block is dereferenced on the Err edge, needs Acquire" % fail)
            # B2: expected operand is a previously loaded value (a parameter or a load), new is a fresh box
            a = s["args"]
            from .r_a2 import mints_block
            if not contains(a[2], ("call",)) or not mints_block(facts, a[2]):
                probs.append("B2: CAS does not install a freshly boxed control block")
            if probs:
                res.bad(key, loc, "; ".join(probs))
            else:
                res.ok(key, loc, "publishing CAS %s/%s, Err value used=%s" % (succ, fail, used), nontrivial=True)
        elif s["obj"] == "data" and s["method"] == "load":
            o = s["ords"][0] if s["ords"] else None
            if b.did in in_mutable or (b.parent_did in in_mutable):
                used = load_value_used(s, b, facts)
                if used and o not in HAS_ACQUIRE:
                    res.bad(key, loc, "O4: `data` of a promotable handle can be replaced by a concurrent clone; this load is %s but its value is dereferenced / passed on (%s), needs Acquire" % (o, used))
                else:
                    res.ok(key, loc, "data-mutable family: %s load, value use: %s" % (o, used), nontrivial=True)
            else:
                res.ok(key, loc, "immutable-data family: pointer never changes after construction (%s)" % o)
        else:
            res.bad(key, loc, "unclassified atomic operation %s on %s" % (s["method"], s["obj"]))
    res.floor("atomic_sites", n_sites, 28)
    res.floor("data_mutable_families", len(mutable_fams), 2)
    return res


def is_call_at(e, name):
    while isinstance(e, tuple) and e and e[0] == "cast":
        e = e[2]
    return isinstance(e, tuple) and e and e[0] == "call" and e[1].rsplit("::", 1)[-1] == name


def big_const(e):
    for x in walk(e):
        if x[0] == "const" and isinstance(x[1], int) and x[1] >= (1 << 31) - 1:
            return True
    return False


def load_role(s, b, facts, sites):
    """refcount load: 'acquire-before-free' (result unused, in a release primitive),
    'advisory' (result returned from an is_unique slot fn), or 'guard'"""
    if any(x["body"] is b and x["method"] == "fetch_sub" for x in sites):
        # result unused?
        d = s["dest"]
        used = False
        for blk in b.blocks:
            for st in blk["stmts"]:
                if st["k"] == "assign" and uses_local(st["rv"], d):
                    used = True
            t = blk["term"]
            if t["k"] == "switch" and t["discr"]["k"] in ("copy", "move") and t["discr"]["pl"]["l"] == d:
                used = True
        if not used:
            return "acquire-before-free"
    # advisory: function is an is_unique slot of some vtable, or a private helper whose every crate caller is advisory
    # (`Shared::is_unique(&self)` shared by the is_unique slots); one non-advisory caller makes it a guard
    vts = roles.vtables(facts)
    slot_dids = set()
    for name, slots in vts.items():
        iu = slots.get("is_unique")
        if iu:
            slot_dids.add(iu.get("did") if iu.get("did") is not None else (iu.get("res") or {}).get("did"))
    from .inline import callers_of

    def advisory(fb, seen):
        if fb.did in slot_dids:
            return True
        if fb.did in seen or str(fb.vis).startswith("Public"):
            return False
        cs = callers_of(facts, fb.did)
        return bool(cs) and all(advisory(c, seen | {fb.did}) for c in cs)
    if advisory(b, frozenset()):
        return "advisory"
    return "guard"


def uses_local(rv, l):
    def op_uses(o):
        return o["k"] in ("copy", "move") and o["pl"]["l"] == l
    k = rv["k"]
    if k in ("use", "cast", "repeat"):
        return op_uses(rv["op"])
    if k == "bin":
        return op_uses(rv["a"]) or op_uses(rv["b"])
    if k == "un":
        return op_uses(rv["a"])
    if k in ("ref", "rawptr", "discr"):
        return rv["pl"]["l"] == l
    if k == "agg":
        return any(op_uses(o) for o in rv["ops"])
    return False


def derived_uses(b, facts, is_src):
    """how values derived from a source expression are used: 'deref' (place projection through a
    pointer derived from it) or 'passed to <fn>' — anything beyond comparing/masking"""
    eb = ExprBuilder(b, facts, inline=False)
    uses = []
    for bi, blk in enumerate(b.blocks):
        if blk["cleanup"]:
            continue
        for si, st in enumerate(blk["stmts"]):
            if st["k"] != "assign":
                continue
            places = [st["pl"]]
            rv = st["rv"]
            if rv["k"] in ("ref", "rawptr", "discr"):
                places.append(rv["pl"])
            for o in [rv.get("op"), rv.get("a"), rv.get("b")] + list(rv.get("ops", [])):
                if isinstance(o, dict) and o["k"] in ("copy", "move"):
                    places.append(o["pl"])
            for pl in places:
                if "*" in pl["p"]:
                    base = eb.local(pl["l"], (bi, si))
                    if any(is_src(x) for x in walk(base)):
                        uses.append("deref at %s" % b.loc(bi, si))
        t = blk["term"]
        if t["k"] == "call":
            loc = (bi, len(blk["stmts"]))
            nm = call_name(t) or "indirect"
            if "tomic" in nm:
                continue
            for a in t["args"]:
                e = eb.operand(a, loc)
                if any(is_src(x) for x in walk(e)):
                    fn = callee(t)
                    r = (fn.get("res") or fn) if fn else None
                    if r is None or r.get("local"):
                        uses.append("passed to %s" % nm.rsplit("::", 1)[-1])
    return uses


def load_value_used(s, b, facts):
    u = derived_uses(b, facts, lambda x: x[0] == "call" and x[1] == s["path"] and x[1].endswith("::load"))
    return u[0] if u else None


def err_value_used(s, b, facts):
    def is_err_payload(x):
        return x[0] == "field" and isinstance(x[1], tuple) and x[1][0] == "variant" and x[1][2] == "Err" \
            and any(y[0] == "call" and y[1].endswith("compare_exchange") for y in walk(x[1]))
    u = derived_uses(b, facts, is_err_payload)
    return bool(u)
