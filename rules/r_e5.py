"""E5 DEBUG-PURE: code that runs only when debug assertions are on has no effects.

`debug_assert!(cond)` expands to `if cfg!(debug_assertions) { if !cond { panic!(..) } }`, so everything evaluated for
`cond` exists in debug builds only.  If it changes state - a reference-count increment, a store, a cursor advance - the
release build silently behaves differently (C16), and the effect that was moved there is simply missing (for a refcount
operation: C03/C05/C08).  For every block control-dependent on the `cfg!(debug_assertions)` constant the rule demands:

  * no store through a pointer / into memory reachable from a parameter;
  * every call is to a panic / formatting routine, to a std function that takes no `&mut` / `*mut` argument and is not an
    atomic read-modify-write or store, or to a crate function that is itself effect-free (transitively, by the same test).
"""
from .base import Result
from .facts import callee
from .flow import debug_regions, has_effects

ATOMIC_WRITES = ("fetch_add", "fetch_sub", "fetch_and", "fetch_or", "fetch_xor", "fetch_max", "fetch_min", "fetch_update", "fetch_nand",
                 "store", "swap", "compare_exchange", "compare_exchange_weak", "compare_and_swap", "with_mut", "get_mut")
HARMLESS_PREFIX = ("core::panicking::", "core::fmt::", "std::panicking::", "core::option::expect_failed", "core::result::unwrap_failed",
                   "core::option::unwrap_failed", "alloc::fmt::", "core::panic::")


class Purity:
    def __init__(self, facts):
        self.facts = facts
        self.memo = {}

    def call_effect(self, b, t):
        """None if the call is effect-free, else a description"""
        fn = callee(t)
        if fn is None:
            return "an indirect call"
        r = fn.get("res") or fn
        path = r.get("path", "")
        name = fn["name"]
        if path.startswith(HARMLESS_PREFIX) or name.startswith("panic"):
            return None
        if "res" in fn and fn["res"] is None:
            # user-trait call: effect-free only if it cannot get at mutable state
            if any(self.mut_arg(b, a) for a in t["args"]):
                return "a user-trait call `%s` with mutable access" % name
            return None
        if "tomic" in path and name in ATOMIC_WRITES:
            return "the atomic write `%s`" % name
        if r.get("local") and r.get("did") is not None:
            cb = self.facts.by_did.get(r["did"])
            if cb is None:
                return None
            why = self.fn_effect(cb)
            return ("`%s`, which %s" % (cb.id.rsplit("::", 1)[-1], why)) if why else None
        if any(self.mut_arg(b, a) for a in t["args"]):
            if name in ("deref_mut", "as_mut", "as_mut_ptr", "borrow_mut", "as_mut_slice", "index_mut", "get_mut", "get_unchecked_mut"):
                return None         # lending a mutable view is not a write; a store through it is caught as a store
            if name in ("is_null", "len", "is_empty", "capacity", "as_ptr", "cast", "cast_const", "cast_mut", "addr", "offset_from", "eq", "ne", "cmp", "partial_cmp",
                        "lt", "le", "gt", "ge", "is_aligned", "deref", "as_ref", "borrow", "get", "first", "last", "contains", "starts_with", "ends_with", "iter",
                        "read", "read_unaligned", "add", "sub", "offset", "wrapping_add", "wrapping_sub", "is_some", "is_none", "is_ok", "is_err"):
                return None         # observers: they take the pointer / reference by value but do not write through it
            return "`%s` with a `&mut` / `*mut` argument" % path.rsplit("::", 2)[-1]
        return None

    def mut_arg(self, b, a):
        if a["k"] not in ("copy", "move"):
            return False
        ty = b.locals[a["pl"]["l"]]["ty"]
        return (ty.startswith("&mut ") or ty.startswith("*mut ")) and not a["pl"]["p"]

    def fn_effect(self, cb, stack=()):
        if cb.did in self.memo:
            return self.memo[cb.did]
        if cb.did in stack:
            return None
        self.memo[cb.did] = None
        why = None
        if has_effects(cb):
            why = "stores through a pointer"
        else:
            for bi, t in cb.calls():
                if cb.blocks[bi]["cleanup"]:
                    continue
                w = self.call_effect(cb, t)
                if w:
                    why = "performs " + w
                    break
        self.memo[cb.did] = why
        return why


def run(facts):
    res = Result("E5", "code that is control-dependent on cfg!(debug_assertions) (the conditions of debug_assert*!) has no effects: no stores, no atomic "
                       "writes, no calls that can mutate - otherwise release builds behave differently")
    pur = Purity(facts)
    n_regions = n_calls = 0
    for b in facts.fn_bodies():
        if facts.is_test(b):
            continue
        regs = debug_regions(b)
        if not regs:
            continue
        blocks = set()
        for _, r in regs:
            blocks |= r
        n_regions += len(regs)
        probs = []
        for bi in sorted(blocks):
            blk = b.blocks[bi]
            if blk["cleanup"]:
                continue
            for s in blk["stmts"]:
                if s["k"] == "assign" and "*" in s["pl"]["p"]:
                    probs.append((bi, "a store through a pointer"))
            t = blk["term"]
            if t["k"] == "call":
                n_calls += 1
                w = pur.call_effect(b, t)
                if w:
                    probs.append((bi, w))
        if probs:
            seen = set()
            for bi, w in probs:
                if w in seen:
                    continue
                seen.add(w)
                res.bad("%s|debug-only effect|%s" % (b.id, w[:70]), b.loc(bi),
                        "a debug_assert! condition performs %s: builds without debug assertions skip it, so the two profiles behave differently" % w)
        else:
            res.ok("%s|debug regions" % b.id, b.loc(), "%d debug-only region(s), effect-free" % len(regs), nontrivial=True)
    res.floor("debug-only regions", n_regions, 12)
    return res
