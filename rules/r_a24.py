"""A24 RESERVE-EXACT: inside the crate, `reserve(n)` on a BytesMut asks for exactly the bytes that are then committed.

`reserve(n)` promises room for `n` more bytes *beyond the current length*.  The crate's own appending paths reserve and then commit
(`advance_mut(k)` / `set_len(L)`).  If `n` is larger than what is committed - `self.reserve(new_len)` where `new_len - len` bytes are
written - every refill of a partly filled buffer asks for room it does not need, enters the reservation helper although there is room,
and doubles the buffer: with `buf.resize(buf.capacity(), 0)` as the refill idiom a recycling loop grows without bound (C18), with nothing
wrong inside the reservation helper (A15) and no write out of bounds (A6 / A16).  If `n` is smaller, the write is A6's business.

For every resolved call of `BytesMut::reserve` on `self` and every control-flow path from it to a commit on the same handle, the state at
the commit must entail (linear-inequality domain, path relations, `checked_sub` payloads)

        advance_mut(k):   n == k                set_len(L):   len + n == L        (len = the length when reserve was called)

A reserve that no commit follows in the same function (`chunk_mut`'s fixed growth step, `Extend`'s size hint) is a hint, not a request
for a known amount, and is not judged.
"""
from .base import Result
from .facts import callee
from .flow import enumerate_paths, canon, fmt_expr, cfg_of
from .pathstate import StatePathBuilder
from .lin import State
from .r_a8 import HANDLE


def run(facts):
    res = Result("A24", "every `self.reserve(n)` of the crate's own appending paths that is followed by a commit asks for exactly the committed amount: "
                        "n == k for advance_mut(k), len + n == L for set_len(L), entailed on every path (linear-inequality domain)")
    n_sites = 0
    from .inline import views

    def reserve_sites(body):
        out = []
        for bi, t in body.calls():
            fn = callee(t)
            r = (fn.get("res") or {}) if fn else {}
            if not body.blocks[bi]["cleanup"] and r.get("path") == "bytes_mut::BytesMut::reserve" and len(t["args"]) == 2:
                out.append(bi)
        return out
    for b0 in facts.fn_bodies():
        if facts.is_test(b0) or b0.kind not in ("fn", "assoc_fn") or b0.arg_count < 1 or not b0.locals[1]["ty"].endswith("mut " + HANDLE):
            continue
        b = b0
        sites = reserve_sites(b)
        if not sites:
            # the reserve may sit in a helper (`reserve_spare_ptr(cnt)`) while the commit is here: look at the function with its helpers spliced in
            if not any((callee(t) or {}).get("name") in ("advance_mut", "set_len") for _, t in b0.calls()):
                continue
            for ib in views(facts, b0, keep_names=("reserve", "advance_mut", "set_len", "spare_capacity_mut")):
                if reserve_sites(ib):
                    b, sites = ib, reserve_sites(ib)
                    break
        if not sites:
            continue
        cfg = cfg_of(b)
        for rb in sites:
            commits = []
            for bi, t in b.calls():
                fn = callee(t)
                if fn is None or b.blocks[bi]["cleanup"] or not (cfg.reaches(rb, bi)):
                    continue
                if fn["name"] in ("advance_mut", "set_len") and len(t["args"]) == 2:
                    commits.append((bi, fn["name"]))
            if not commits:
                continue
            n_sites += 1
            key = "%s|reserve then %s" % (b0.id, "/".join(sorted(set(c[1] for c in commits))))
            bad = None
            n_paths = 0
            for path in enumerate_paths(b, limit=4000):
                if rb not in path:
                    continue
                hits = [c for c in commits if c[0] in path and path.index(c[0]) > path.index(rb)]
                if not hits:
                    continue
                n_paths += 1
                sp = StatePathBuilder(b, facts, path)
                loc_r = (rb, len(b.blocks[rb]["stmts"]))
                tr = b.blocks[rb]["term"]
                recv = canon(sp.operand(tr["args"][0], loc_r))
                n = canon(sp.operand(tr["args"][1], loc_r))
                st = State(sp.path_relations(), facts=facts)
                if st.refuted():
                    continue
                cb, cname = hits[0]
                tc = b.blocks[cb]["term"]
                loc_c = (cb, len(b.blocks[cb]["stmts"]))
                if canon(sp.operand(tc["args"][0], loc_c)) != recv:
                    continue
                amt = canon(sp.operand(tc["args"][1], loc_c))
                if cname == "advance_mut":
                    goal = ("eq", n, amt)
                    want = "n == k"
                else:
                    base = recv[1] if isinstance(recv, tuple) and recv[0] == "ref" else ("deref", recv)
                    goal = ("eq", ("bin", "Add", n, ("field", canon(base), "len")), amt)
                    want = "len + n == L"
                if not st.entails(goal):
                    bad = (path, "reserve(%s) is followed by %s(%s), and %s does not follow from the conditions on the path" % (fmt_expr(n)[:50], cname, fmt_expr(amt)[:50], want))
                    break
            if bad:
                res.bad(key, b0.loc(), "on the path bb%s %s: the handle asks the reservation helper for room it is not going to fill (or too little)" % (
                    "->bb".join(str(x) for x in bad[0]), bad[1]))
            else:
                res.ok(key, b0.loc(), "%d path(s) from the reserve to a commit; the amount reserved is the amount committed on each" % n_paths, nontrivial=True)
    res.floor("reserve-then-commit sites", n_sites, 2)
    return res
