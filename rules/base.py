"""Common result types for rules."""


class RuleError(Exception):
    """machinery failure (missing anchor etc.) -> CHECK-ERROR, exit 2"""


class Result:
    def __init__(self, rule, decides):
        self.rule = rule
        self.decides = decides          # one line: the clause this rule decides
        self.instances = []             # dicts: key, loc, verdict, how
        self.violations = []            # dicts: key, loc, msg (+ detail)
        self.floors = {}                # name -> (measured, minimum)
        self.notes = []
        self.nontrivial = 0             # instances discharged by a guard/dominance/path argument

    def ok(self, key, loc, how, nontrivial=False):
        self.instances.append({"key": key, "loc": loc, "verdict": "ok", "how": how})
        if nontrivial:
            self.nontrivial += 1

    def bad(self, key, loc, msg, **detail):
        full = "%s|%s" % (self.rule, key)
        self.instances.append({"key": key, "loc": loc, "verdict": "VIOLATION", "how": msg})
        v = {"rule": self.rule, "key": full, "loc": loc, "msg": msg}
        v.update(detail)
        self.violations.append(v)

    def floor(self, name, measured, minimum):
        """completeness floor: fewer instances than were confirmed by hand means the rule has gone
        blind (anchor renamed, idiom changed) and can no longer vouch for its clause"""
        self.floors[name] = (measured, minimum)
        if measured < minimum:
            self.bad("FLOOR|%s" % name, "-", "instance floor not met: %s = %d < %d (rule would pass vacuously)" % (name, measured, minimum))
