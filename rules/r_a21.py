"""A21 PTR-FRESH: no raw pointer into a buffer is used after a call that may move or free that buffer.

The expression trees of the other rules are time-less: `self.spare_capacity_mut().as_mut_ptr()` evaluated before `self.reserve(n)`
and after it are the same tree.  For references the borrow checker keeps the two apart; for raw pointers nothing does.  This rule is
a forward dataflow over the MIR of every function (gen / kill to a fixpoint, loops included):

  gen    a raw pointer obtained from a container: `x.as_ptr()` / `x.as_mut_ptr()` (Vec, slice, BytesMut, UninitSlice, Box<[u8]>, ..),
         a read of a handle's `ptr` field, a reference cast to a raw pointer.  The tag records the *owner*: the object whose
         buffer it points into (`self`, a Vec local; a Vec put together from a handle's fields - `rebuild_vec(self.ptr, ..)`,
         `Vec::from_raw_parts(self.ptr.sub(off), ..)` - is owned by that handle: moving the Vec's buffer moves the handle's).
  copy   through moves, pointer casts and pure pointer arithmetic (`add`, `sub`, `offset`, `cast`, `vptr`, NonNull conversions).
  kill   an assignment to the local.
  stale  a call that may move / free the owner's buffer while the tag is alive: a growing `Vec` method on the owner (`reserve`,
         `push`, `extend_from_slice`, `resize`, ..), a crate function that receives `&mut owner` and may (transitively) grow or replace
         a buffer (`reserve`, `reserve_inner`, `resize`, `extend_from_slice`, `put_*`, ..), a drop of the owner.
  use    a stale pointer dereferenced, passed to anything but pointer arithmetic / comparisons, or stored into a field / aggregate.

A stale use is a write or read through a dangling pointer (C02), into a region the handle may no longer own (C04: the old allocation can
belong to a sibling), and the bytes the caller asked for never arrive in the handle (C11).
"""
from .base import Result
from .facts import callee
from .flow import ExprBuilder, canon, walk, fmt_expr, cfg_of, in_debug_region
from . import roles

PURE_PTR = ("add", "sub", "offset", "cast", "cast_mut", "cast_const", "wrapping_add", "wrapping_sub", "wrapping_offset", "byte_add", "byte_sub",
            "vptr", "new_unchecked", "with_addr", "map_addr", "addr", "expose_provenance", "ptr_map", "as_non_null_ptr", "from")
OBSERVERS = ("offset_from", "byte_offset_from", "is_null", "eq", "ne", "lt", "le", "gt", "ge", "cmp", "partial_cmp", "is_aligned", "align_offset",
             "fmt", "hash", "sub_ptr", "offset_from_unsigned")
GETTERS = ("as_ptr", "as_mut_ptr", "as_mut_ptr_range", "as_ptr_range")
VEC_GROW = ("reserve", "reserve_exact", "try_reserve", "try_reserve_exact", "push", "extend_from_slice", "extend", "resize", "resize_with", "insert", "append",
            "shrink_to_fit", "shrink_to", "extend_from_within", "push_str", "split_off", "into_boxed_slice", "truncate_and_shrink")
ALLOCATORS = ("with_capacity", "alloc", "realloc", "alloc_zeroed", "to_vec", "to_owned", "from_elem")


def is_rawptr_ty(t):
    return t.startswith("*const ") or t.startswith("*mut ") or t.startswith("core::ptr::NonNull<")


def strip_to_owner(e):
    """the object an access path / a chain of view calls starts from"""
    e = canon(e)
    for _ in range(40):
        if not isinstance(e, tuple) or not e:
            break
        if e[0] in ("ref", "deref", "field", "index", "variant"):
            e = e[1]
        elif e[0] == "cast":
            e = e[2]
        elif e[0] == "call" and e[2] and e[1].rsplit("::", 1)[-1] in (
                "deref", "deref_mut", "as_mut", "as_ref", "borrow", "borrow_mut", "new", "into_inner", "as_mut_slice", "as_slice", "spare_capacity_mut",
                "chunk_mut", "chunk", "as_uninit_slice_mut", "uninit", "index", "index_mut", "get_unchecked", "get_unchecked_mut", "as_mut_ptr", "as_ptr",
                "add", "sub", "offset", "cast", "vptr", "new_unchecked", "assume_init_mut", "as_bytes", "as_bytes_mut", "unwrap", "as_non_null_ptr") \
                and "with_capacity" not in e[1]:
            if e[1].rsplit("::", 1)[-1] == "new" and "ManuallyDrop" not in e[1] and "NonNull" not in e[1]:
                break
            e = e[2][0]
        else:
            break
    return e


class A21:
    def __init__(self, facts):
        self.facts = facts
        self.handles = set(roles.handle_types(facts))
        self._mb = {}

    def owner(self, e):
        o = strip_to_owner(e)
        # a Vec put together from a handle's own fields shares the handle's buffer
        if isinstance(o, tuple) and o and o[0] == "call" and o[1].rsplit("::", 1)[-1] in ("rebuild_vec", "from_raw_parts", "from_raw_parts_in") and o[2]:
            for x in walk(o[2][0]):
                if isinstance(x, tuple) and len(x) == 3 and x[0] == "field" and x[2] == "ptr":
                    return strip_to_owner(x[1])
            # rebuild_vec(self): the method form
            if len(o[2]) <= 2:
                return strip_to_owner(o[2][0])
        return o

    def may_move_buffer(self, cb, stack=()):
        """crate function that can (transitively) grow / replace a buffer"""
        if cb.did in self._mb:
            return self._mb[cb.did]
        if cb.did in stack:
            return False
        self._mb[cb.did] = False
        r = False
        for bi, t in cb.calls():
            if cb.blocks[bi]["cleanup"]:
                continue
            fn = callee(t)
            if fn is None:
                continue
            res = fn.get("res") or fn
            p = res.get("path", "")
            nm = fn["name"]
            if ("alloc::vec::Vec" in p or "alloc::string::String" in p or "alloc::raw_vec" in p) and (nm in VEC_GROW or nm in ALLOCATORS):
                r = True
            elif p.startswith("alloc::alloc::") and nm in ALLOCATORS:
                r = True
            elif res.get("local") and res.get("did") is not None:
                c2 = self.facts.by_did.get(res["did"])
                if c2 is not None and self.may_move_buffer(c2, stack + (cb.did,)):
                    r = True
            if r:
                break
        if not r:
            for c in self.facts.children.get(cb.did, []):
                if c.kind == "closure" and self.may_move_buffer(c, stack + (cb.did,)):
                    r = True
        self._mb[cb.did] = r
        return r

    # ---- per function ---------------------------------------------------------------------------
    def analyse(self, b):
        """-> (violations, n_sources, n_invalidations)"""
        eb = ExprBuilder(b, self.facts, inline=False)
        cfg = cfg_of(b)
        nb = len(b.blocks)
        n_src = n_inv = 0
        viol = {}

        def op_local(o):
            return o["pl"]["l"] if o["k"] in ("copy", "move") and not o["pl"]["p"] else None

        def tags_of_op(o, st):
            l = op_local(o)
            return st.get(l, frozenset()) if l is not None else frozenset()

        def transfer(bi, st, report):
            nonlocal n_src, n_inv
            st = dict(st)
            blk = b.blocks[bi]
            for si, s in enumerate(blk["stmts"]):
                if s["k"] != "assign":
                    continue
                loc = (bi, si)
                rv = s["rv"]
                pl = s["pl"]
                # uses in this statement: deref of a stale pointer local (read or written place)
                if report:
                    places = [pl]
                    for o in rv_operands(rv):
                        if o["k"] in ("copy", "move"):
                            places.append(o["pl"])
                    if rv["k"] in ("ref", "rawptr", "discr", "len"):
                        places.append(rv["pl"])
                    for p_ in places:
                        if p_["p"] and p_["p"][0] == "*":
                            for tg in st.get(p_["l"], ()):
                                if tg[2] is not None:
                                    self.report(viol, b, loc, tg, "dereferenced")
                    # a stale pointer stored into a field / aggregate
                    if pl["p"] or rv["k"] == "agg":
                        for o in rv_operands(rv):
                            for tg in tags_of_op(o, st):
                                if tg[2] is not None and is_rawptr_ty(b.locals[op_local(o)]["ty"]):
                                    self.report(viol, b, loc, tg, "stored into %s" % ("a handle field" if pl["p"] else "an aggregate"))
                if pl["p"]:
                    continue
                new = frozenset()
                dty = b.locals[pl["l"]]["ty"]
                if rv["k"] == "use":
                    new = tags_of_op(rv["op"], st)
                    o = rv["op"]
                    if o["k"] in ("copy", "move") and o["pl"]["p"] and isinstance(o["pl"]["p"][-1], dict) and o["pl"]["p"][-1].get("n") == "ptr" \
                            and o["pl"]["p"][-1].get("adt") in self.handles:
                        base = eb.place({"l": o["pl"]["l"], "p": o["pl"]["p"][:-1]}, loc)
                        new = frozenset([(self.owner(base), "%s.ptr" % o["pl"]["p"][-1]["adt"].rsplit("::", 1)[-1], None)])
                        if report:
                            n_src += 1
                elif rv["k"] == "cast":
                    new = tags_of_op(rv["op"], st)
                    ol = op_local(rv["op"])
                    if not new and ol is not None and is_rawptr_ty(dty) and b.locals[ol]["ty"].startswith("&"):
                        e = eb.operand(rv["op"], loc)
                        new = frozenset([(self.owner(e), "a reference cast to a raw pointer", None)])
                        if report:
                            n_src += 1
                elif rv["k"] == "rawptr":
                    e = eb.place(rv["pl"], loc)
                    if rv["pl"]["p"]:
                        new = frozenset([(self.owner(e), "&raw", None)])
                if is_rawptr_ty(dty) or new:
                    st[pl["l"]] = new if is_rawptr_ty(dty) or dty.startswith("&") else frozenset()
                elif pl["l"] in st:
                    del st[pl["l"]]
            t = blk["term"]
            loc = (bi, len(blk["stmts"]))
            if t["k"] == "drop" and not t["pl"]["p"]:
                ty = str(t.get("ty") or b.locals[t["pl"]["l"]]["ty"])
                if ty.startswith(("alloc::vec::Vec<", "alloc::boxed::Box<[", "alloc::string::String")):
                    own = self.owner(eb.local(t["pl"]["l"], loc))
                    st = self.invalidate(st, own, "drop of the %s" % ty.split("<")[0].rsplit("::", 1)[-1], loc)
            if t["k"] != "call":
                return st
            fn = callee(t)
            d = t.get("dest")
            dl = d["l"] if isinstance(d, dict) and not d["p"] else None
            if fn is None:
                if dl is not None:
                    st[dl] = frozenset()
                return st
            res = fn.get("res") or fn
            p = res.get("path", "")
            nm = fn["name"]
            is_pure = nm in PURE_PTR and ("core::ptr" in p or "NonNull" in p or nm in ("vptr", "ptr_map") or "core::convert" in p)
            is_nn_getter = nm == "as_ptr" and "NonNull" in p
            observer = nm in OBSERVERS
            # uses: a stale pointer handed to something that can touch memory through it
            if report and not (is_pure or is_nn_getter or observer) and not in_debug_region(b, bi):
                for a in t["args"]:
                    l = op_local(a)
                    if l is None or not is_rawptr_ty(b.locals[l]["ty"]):
                        continue
                    for tg in st.get(l, ()):
                        if tg[2] is not None:
                            self.report(viol, b, loc, tg, "passed to %s" % p.rsplit("::", 1)[-1])
            # invalidation
            inval = None
            if t["args"] and not blk["cleanup"]:
                a0 = t["args"][0]
                a0l = op_local(a0)
                a0ty = b.locals[a0l]["ty"] if a0l is not None else ""
                if ("alloc::vec::Vec" in p or "alloc::string::String" in p) and nm in VEC_GROW and a0ty.startswith("&mut"):
                    inval = (0, "`Vec::%s`" % nm)
                elif res.get("local") and res.get("did") is not None:
                    cb = self.facts.by_did.get(res["did"])
                    if cb is not None and self.may_move_buffer(cb):
                        for i, a in enumerate(t["args"]):
                            l = op_local(a)
                            if l is not None and b.locals[l]["ty"].startswith("&mut"):
                                inval = (i, "`%s`, which may grow or replace the buffer" % cb.id.rsplit("::", 1)[-1])
                                break
                elif "res" in fn and fn["res"] is None and a0ty.startswith("&mut") and nm in ("reserve", "put_slice", "put_bytes", "put", "extend_from_slice", "resize"):
                    inval = (0, "`%s` (trait call)" % nm)
            if inval is not None:
                own = self.owner(eb.operand(t["args"][inval[0]], loc))
                if report:
                    n_inv += 1
                st = self.invalidate(st, own, inval[1], loc)
            # result
            if dl is not None:
                if is_pure or is_nn_getter:
                    u = frozenset()
                    for a in t["args"]:
                        u |= tags_of_op(a, st)
                    st[dl] = u
                elif nm in GETTERS and is_rawptr_ty(b.locals[dl]["ty"]) and t["args"]:
                    e = eb.operand(t["args"][0], loc)
                    st[dl] = frozenset([(self.owner(e), "%s()" % nm, None)])
                    if report:
                        n_src += 1
                else:
                    st[dl] = frozenset()
            return st

        # fixpoint
        from .flow import threaded_successors
        tsucc = threaded_successors(b)
        ins = {0: {}}
        work = [0]
        seen_out = {}
        it = 0
        while work and it < 20000:
            it += 1
            bi = work.pop()
            out = transfer(bi, ins.get(bi, {}), False)
            if seen_out.get(bi) == out:
                continue
            seen_out[bi] = out
            for d in tsucc.get(bi, ()):
                cur = ins.get(d)
                if cur is None:
                    ins[d] = dict(out)
                    work.append(d)
                else:
                    ch = False
                    for l, tg in out.items():
                        if not tg <= cur.get(l, frozenset()):
                            cur[l] = cur.get(l, frozenset()) | tg
                            ch = True
                    if ch:
                        work.append(d)
        for bi in sorted(ins):
            if not b.blocks[bi]["cleanup"]:
                transfer(bi, ins[bi], True)
        return viol, n_src, n_inv

    def invalidate(self, st, own, how, loc):
        if not isinstance(own, tuple):
            return st
        st2 = {}
        for l, tgs in st.items():
            st2[l] = frozenset((tg[0], tg[1], (how, loc[0])) if (tg[0] == own and tg[2] is None) else tg for tg in tgs)
        return st2

    def report(self, viol, b, loc, tg, what):
        key = "%s|%s across %s" % (b.id, tg[1], tg[2][0].split(",")[0])
        if key not in viol:
            viol[key] = (b.loc(loc[0]), "a raw pointer obtained from %s (buffer of %s) is %s after %s (bb%d): the buffer may have moved or been freed in between" % (
                tg[1], fmt_expr(tg[0])[:50], what, tg[2][0], tg[2][1]))


def rv_operands(rv):
    if rv["k"] == "agg":
        return list(rv["ops"])
    return [rv[k] for k in ("op", "a", "b") if isinstance(rv.get(k), dict)]


def run(facts):
    res = Result("A21", "no raw pointer into a buffer (x.as_ptr() / x.as_mut_ptr() / handle.ptr / reference cast) is dereferenced, handed to a memory-touching "
                        "call or stored after a call that may move or free that buffer (growing Vec methods, crate functions that may grow / replace the "
                        "buffer of the `&mut` object they receive, drops): forward gen/kill dataflow over the MIR of every function")
    a = A21(facts)
    n_fn = tot_src = tot_inv = both = 0
    for b in facts.fn_bodies():
        if facts.is_test(b) or b.kind not in ("fn", "assoc_fn", "closure"):
            continue
        if not any(is_rawptr_ty(l["ty"]) for l in b.locals):
            continue
        n_fn += 1
        viol, n_src, n_inv = a.analyse(b)
        tot_src += n_src
        tot_inv += n_inv
        if n_src and n_inv:
            both += 1
        for key, (loc, text) in sorted(viol.items()):
            res.bad(key, loc, text)
        if not viol and n_src:
            res.ok("%s|pointers fresh" % b.id, b.loc(), "%d pointer source(s), %d buffer-moving call(s); no pointer outlives a move of its buffer" % (n_src, n_inv),
                   nontrivial=bool(n_inv))
    res.floor("pointer sources", tot_src, 40)
    res.floor("functions with a pointer source and a buffer-moving call", both, 4)
    return res


def run_deep(facts):
    """thorough tier: the same dataflow on every function with its crate-local callees spliced in (two levels): a pointer handed to a helper
    as an argument and used there after the helper has moved the buffer is only visible in the caller's view"""
    from .inline import inlined
    res = Result("A21+views", "A21 on the inlined views of every function (helpers spliced in, two levels)")
    a = A21(facts)
    n = 0
    for b in facts.fn_bodies():
        if facts.is_test(b) or b.kind not in ("fn", "assoc_fn"):
            continue
        ib = inlined(facts, b, depth=2)
        if not (ib._cache.get("inlined_from") or ()) or not any(is_rawptr_ty(l["ty"]) for l in ib.locals):
            continue
        n += 1
        viol, n_src, n_inv = a.analyse(ib)
        for key, (loc, text) in sorted(viol.items()):
            res.bad(key + " (in the view of %s)" % b.id.rsplit("::", 1)[-1], b.loc(), text)
        if not viol:
            res.ok("%s|pointers fresh in the inlined view" % b.id, b.loc(), "%d pointer source(s), %d buffer-moving call(s)" % (n_src, n_inv), nontrivial=bool(n_src and n_inv))
    res.floor("inlined views analysed", n, 20)
    return res
