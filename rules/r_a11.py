"""A11 UNIQ-CONST — is_unique slot functions return what their family requires: constant `false`
when the family can never hand its memory over (static, owner-backed), `refcount == 1` on the shared
branch and constant `true` only under an unshared-kind guard otherwise; try_into_mut is exactly
`is_unique() ? Ok(self.into()) : Err(self)`."""
from .base import Result, RuleError
from .facts import callee
from .flow import ExprBuilder, cfg_of, relations_at, canon, walk, fmt_expr
from . import roles
from .inline import views
from .r_a2 import A2, get
from .r_b1 import trailing_field


def slot_probs(facts, b, takeover, rc_fields):
    eb = ExprBuilder(b, facts, inline=False)
    rets = []
    for bi, blk in enumerate(b.blocks):
        if blk["term"]["k"] == "return" and not blk["cleanup"]:
            pass
    # collect every definition of _0 with the block it is in
    for bi, blk in enumerate(b.blocks):
        for si, s in enumerate(blk["stmts"]):
            if s["k"] == "assign" and s["pl"]["l"] == 0 and not s["pl"]["p"]:
                rets.append((bi, si, canon(eb.rvalue(s["rv"], (bi, si), 0))))
        t = blk["term"]
        if t["k"] == "call" and t["dest"]["l"] == 0 and not t["dest"]["p"]:
            rets.append((bi, len(blk["stmts"]), canon(eb.call_expr(t, (bi, len(blk["stmts"])), 0))))
    probs = []
    hows = []
    for (bi, si, e) in rets:
        if e == ("const", 0):
            if takeover:
                probs.append("returns constant false although into_mut can take the buffer over: try_into_mut would fail for a sole owner")
            else:
                hows.append("false")
        elif e == ("const", 1):
            if not takeover:
                probs.append("returns true for a family whose into_mut always copies (static / owner-backed data must report false)")
            else:
                # only under an unshared-kind guard
                rels = relations_at(b, bi, facts, inline=False)
                ok = False
                for r in rels:
                    if r[0] in ("eq", "ne"):
                        x, c = canon(r[1]), canon(r[2])
                        if isinstance(x, tuple) and x[0] == "bin" and x[1] == "BitAnd" and isinstance(c, tuple) and c[0] == "const":
                            if (r[0] == "eq" and c[1] == 1) or (r[0] == "ne" and c[1] == 0):
                                ok = True
                if ok:
                    hows.append("true under the unshared-kind guard")
                else:
                    probs.append("returns constant true without an unshared-kind guard")
        elif isinstance(e, tuple) and e[0] == "bin" and e[1] == "Eq":
            x, c = e[2], e[3]
            if c != ("const", 1):
                x, c = c, x
            if c == ("const", 1) and isinstance(x, tuple) and x[0] == "call" and x[1].endswith("::load") and trailing_field(x[2][0]) in rc_fields:
                if not takeover:
                    probs.append("family never hands its memory over but is_unique depends on the count")
                hows.append("refcount.load() == 1")
            else:
                probs.append("returns %s, not `refcount == 1`" % fmt_expr(e))
        else:
            probs.append("returns %s" % fmt_expr(e))
    if not rets:
        probs.append("no return value found")
    return probs, hows


def run(facts):
    res = Result("A11", "is_unique is constant false for families that never hand over their memory, `count == 1` (or true on the "
                        "unshared branch) for reclaimable families; try_into_mut = is_unique ? into : Err(self)")
    a2 = A2(facts)
    rc_fields = set(roles.control_blocks(facts).values())
    n = 0
    for vt, slots in sorted(a2.vts.items()):
        iu = slots.get("is_unique")
        im = slots.get("into_mut")
        if not iu or not im:
            res.bad("%s.is_unique" % vt, "-", "slot missing")
            continue
        n += 1
        did = lambda s: s.get("did") if s.get("did") is not None else (s.get("res") or {}).get("did")
        b = facts.by_did[did(iu)]
        mb = facts.by_did[did(im)]
        # can into_mut ever return the same memory?  (a path that takes the block/buffer over or moves the reference)
        takeover = any(get(v, "teardown") or get(v, "hout") or (get(v, "buf_own") and not get(v, "rel")) for v in a2.summary(mb))
        key = "%s.is_unique" % vt
        probs, hows = slot_probs(facts, b, takeover, rc_fields)
        if probs:
            # the count test may live in a private helper (`Shared::is_unique(&self)`): judge the inlined views
            for ib in views(facts, b):
                p2, h2 = slot_probs(facts, ib, takeover, rc_fields)
                if not p2:
                    probs, hows = [], h2 + ["with helpers inlined"]
                    break
        if probs:
            res.bad(key, b.loc(), "; ".join(probs))
        else:
            res.ok(key, b.loc(), "%s (into_mut can take over: %s)" % (" | ".join(sorted(set(hows))), takeover), nontrivial=True)
    res.floor("is_unique_slots", n, 6)
    # try_into_mut
    cands = [b for b in facts.fn_bodies() if b.id.endswith("::try_into_mut")]
    if len(cands) != 1:
        raise RuleError("try_into_mut not found")
    b = cands[0]
    eb = ExprBuilder(b, facts, inline=False)
    probs = []
    sw = [(bi, t) for bi, t in b.terms() if t["k"] == "switch" and not b.blocks[bi]["cleanup"]]
    if len(sw) != 1:
        probs.append("expected a single branch")
    else:
        bi, t = sw[0]
        d = canon(eb.operand(t["discr"], (bi, len(b.blocks[bi]["stmts"]))))
        if not (isinstance(d, tuple) and d[0] == "call" and d[1].endswith("::is_unique") and canon(d[2][0]) in (("ref", ("param", 1)), ("param", 1))):
            probs.append("branches on %s, not on self.is_unique()" % fmt_expr(d))
        true_bb = t["otherwise"]
        false_bb = [x[1] for x in t["targets"] if x[0] == 0]
        # true edge: Ok(into(self)) ; false edge: Err(self)
        def agg_in(bb0):
            seen, st = set(), [bb0]
            out = []
            while st:
                x = st.pop()
                if x in seen or b.blocks[x]["cleanup"]:
                    continue
                seen.add(x)
                for si, s in enumerate(b.blocks[x]["stmts"]):
                    if s["k"] == "assign" and s["rv"]["k"] == "agg" and s["rv"].get("adt", "").endswith("Result"):
                        out.append((s["rv"]["variant"], canon(eb.operand(s["rv"]["ops"][0], (x, si)))))
                tt = b.blocks[x]["term"]
                if tt["k"] in ("goto", "call", "drop") and isinstance(tt.get("target"), int):
                    st.append(tt["target"])
            return out
        ta = agg_in(true_bb)
        fa = agg_in(false_bb[0]) if false_bb else []
        def is_conv(e):
            # self.into(): <Bytes as Into<BytesMut>>::into == <BytesMut as From<Bytes>>::from, applied to self
            return isinstance(e, tuple) and e[0] == "call" and (e[1].endswith("::into") or ("From<bytes::Bytes>" in e[1] and e[1].endswith("::from"))) \
                and e[2] and e[2][0] == ("param", 1)
        def via_into_mut_slot(e):
            # the conversion written out: a crate helper that receives self and picks the `into_mut` slot of self's vtable
            # (`self.consume_with(|vtable| vtable.into_mut)`, `consume(self, vtable.into_mut)`) - what `From<Bytes> for BytesMut` consists of
            from .flow import return_expr, walk
            if not (isinstance(e, tuple) and e and e[0] == "call" and e[2] and e[2][0] == ("param", 1) and len(facts.by_id.get(e[1], [])) == 1):
                return False
            for a in e[2][1:]:
                a = canon(a)
                tree = a
                if isinstance(a, tuple) and a and a[0] == "closure" and facts.by_did.get(a[1]) is not None:
                    tree = canon(return_expr(facts.by_did[a[1]], facts, inline=False))
                names = [y[2] for y in walk(tree) if isinstance(y, tuple) and len(y) == 3 and y[0] == "field" and y[2] in ("clone", "into_vec", "into_mut", "is_unique", "drop")]
                if names == ["into_mut"]:
                    return True
            return False
        if not any(v == "Ok" and (is_conv(e) or via_into_mut_slot(e)) for v, e in ta):
            probs.append("unique edge does not return Ok(self.into())")
        if not any(v == "Err" and e == ("param", 1) for v, e in fa):
            probs.append("shared edge does not return Err(self)")
        for x, blk in enumerate(b.blocks):
            if not blk["cleanup"] and blk["term"]["k"] == "drop" and blk["term"]["ty"] in roles.handle_types(facts):
                probs.append("drops the handle on a normal path")
    if probs:
        res.bad(b.id, b.loc(), "; ".join(probs))
    else:
        res.ok(b.id, b.loc(), "is_unique() ? Ok(self.into()) : Err(self)", nontrivial=True)
    return res
