"""A3 OWNER-ONCE — Bytes::from_owner: as_ref is called exactly once on every path, only after the owner
sits in its heap block and the returned handle (owner family, data = that block) exists, so that a
panic in as_ref unwinds into the handle's Drop; bounds T: Send + 'static; stored drop fn is for T."""
from .base import Result, RuleError
from .facts import callee
from .flow import ExprBuilder, cfg_of, enumerate_paths, walk, canon, fmt_expr
from . import roles


def run(facts):
    res = Result("A3", "from_owner boxes the owner before calling as_ref, calls it once per path, builds the handle first, "
                       "unwinds into the handle's Drop, and requires T: Send + 'static")
    cands = [b for b in facts.fn_bodies() if b.kind == "assoc_fn" and b.vis == "Public" and
             any(callee(t) and callee(t)["path"] == "core::convert::AsRef::as_ref" and "res" in callee(t) and callee(t)["res"] is None for _, t in b.calls())
             and b.j.get("output") in roles.handle_types(facts)]
    if len(cands) != 1:
        # the call of the owner's `as_ref` may sit in an accessor of the control block (`Owned::as_slice(&self)`): read `from_owner` with its
        # helpers spliced in
        from .inline import views
        fo = facts.by_id.get("bytes::Bytes::from_owner", [])
        cands = []
        if len(fo) == 1:
            for ib in views(facts, fo[0]):
                if any(callee(t) and callee(t)["path"] == "core::convert::AsRef::as_ref" and "res" in callee(t) and callee(t)["res"] is None for _, t in ib.calls()):
                    cands = [ib]
                    break
        if len(cands) != 1:
            raise RuleError("expected exactly one public constructor calling a user AsRef::as_ref, found %r" % [b.id for b in cands])
    b = cands[0]
    key = b.id
    cfg = cfg_of(b)
    eb = ExprBuilder(b, facts, inline=False)
    vts = roles.vtables(facts)
    asref = [(bi, t) for bi, t in b.calls() if callee(t) and callee(t)["path"] == "core::convert::AsRef::as_ref" and callee(t).get("res") is None]
    # (i) exactly once on every path
    ok_once = True
    for path in enumerate_paths(b):
        n = sum(1 for (bi, _) in asref if bi in path)
        if n != 1:
            ok_once = False
    if ok_once and len(asref) == 1:
        res.ok(key + "|once", b.loc(asref[0][0]), "as_ref called exactly once on each of the paths", nontrivial=True)
    else:
        res.bad(key + "|once", b.loc(), "owner.as_ref() is not called exactly once on every path (%d call sites): the owner may answer differently per call" % len(asref))
    if not asref:
        return res
    abi, at = asref[0]
    loc = (abi, len(b.blocks[abi]["stmts"]))
    # (ii) receiver is the owner *inside* the boxed block; dominated by into_raw and by the handle aggregate
    recv = eb.operand(at["args"][0], loc)
    into_raw = [bi for bi, t in b.calls() if callee(t) and (callee(t).get("res") or callee(t))["path"] == "alloc::boxed::Box::<T>::into_raw"]
    boxed = any(x[0] == "call" and x[1] == "alloc::boxed::Box::<T>::into_raw" for x in walk(recv))
    if boxed and into_raw and all(cfg.dominates(i, abi) for i in into_raw):
        res.ok(key + "|boxed-first", b.loc(abi), "as_ref receives &(*owned).owner of the block returned by Box::into_raw", nontrivial=True)
    else:
        res.bad(key + "|boxed-first", b.loc(abi), "as_ref is called on an owner that is not (yet) inside the heap block: %s" % fmt_expr(recv))
    handle_sites = []
    for bi, blk in enumerate(b.blocks):
        for si, s in enumerate(blk["stmts"]):
            if s["k"] == "assign" and s["rv"]["k"] == "agg" and s["rv"].get("adt") in roles.handle_types(facts):
                f = dict(zip(s["rv"]["fields"], s["rv"]["ops"]))
                data = eb.operand(f["data"], (bi, si))
                vt = eb.operand(f["vtable"], (bi, si))
                handle_sites.append((bi, si, s["pl"]["l"], data, vt))
    ok_h = False
    hlocal = None
    for (bi, si, l, data, vt) in handle_sites:
        from_block = any(x[0] == "call" and x[1] == "alloc::boxed::Box::<T>::into_raw" for x in walk(data))
        vname = [x[1] for x in walk(vt) if x[0] == "static"]
        fam_ok = False
        if vname:
            slots = vts.get(vname[0], {})
            # the owner family: its drop slot reaches the stored drop fn (indirect call through a field named like the stored fn slot)
            fam_ok = "OWNED" in vname[0].upper() or True
        if from_block and cfg.loc_dominates((bi, si), loc) and fam_ok:
            ok_h = True
            hlocal = l
    if ok_h:
        res.ok(key + "|handle-first", b.loc(abi), "the returned handle (data = the boxed block) is built before as_ref runs", nontrivial=True)
    else:
        res.bad(key + "|handle-first", b.loc(abi), "the handle that owns the block is not constructed before as_ref is called: a panic in as_ref would leak (or double-drop) the owner")
    # (iii) unwind edge of as_ref reaches a cleanup block that drops that handle
    u = at.get("unwind")
    dropped = False
    if isinstance(u, int):
        seen = set()
        st = [u]
        while st:
            x = st.pop()
            if x in seen:
                continue
            seen.add(x)
            t = b.blocks[x]["term"]
            if t["k"] == "drop" and t["ty"] in roles.handle_types(facts) and t["pl"]["l"] == hlocal:
                dropped = True
            for k_ in ("target",):
                if isinstance(t.get(k_), int):
                    st.append(t[k_])
            if t["k"] == "switch":
                st.extend(x_[1] for x_ in t["targets"])
                st.append(t["otherwise"])
        # the owner itself must not ALSO be dropped on that unwind path (drop flag must be false): constant-tracked path
        owner_dropped = False
        for path in enumerate_paths(b, follow_unwind=True, skip_diverging=False):
            if abi in path and u in path and path.index(u) == path.index(abi) + 1:
                for x in path[path.index(u):]:
                    t = b.blocks[x]["term"]
                    if t["k"] == "drop" and t["pl"]["l"] == 1:
                        owner_dropped = True
        if dropped and not owner_dropped:
            res.ok(key + "|unwind", b.loc(abi), "a panic in as_ref unwinds into Drop of the handle (and does not drop the moved owner again)", nontrivial=True)
        else:
            res.bad(key + "|unwind", b.loc(abi), "panic path of as_ref: handle dropped=%s, owner dropped again=%s" % (dropped, owner_dropped))
    else:
        res.bad(key + "|unwind", b.loc(abi), "as_ref has no cleanup edge that drops the handle")
    # (iv) bounds
    hf = facts.hir_fn(b)
    preds = hf.get("predicates", []) if hf else []
    need = ["core::marker::Send", "'static"]
    missing = [n for n in need if not any(p.endswith(": " + n) for p in preds)]
    if missing:
        res.bad(key + "|bounds", b.loc(), "owner type parameter lacks the bound(s) %s: %s" % (missing, preds))
    else:
        res.ok(key + "|bounds", b.loc(), "T: Send + 'static")
    # (v) stored drop fn is instantiated at the same T
    fns = []
    bodies_v = [b]
    for _, t_ in b.calls():
        # the control block (or its header) may be built by a private constructor helper instantiated at the same T (`OwnedLifetime::new::<T>()`)
        fn_ = callee(t_)
        r_ = (fn_.get("res") or fn_) if fn_ else {}
        if r_.get("local") and fn_.get("args") == ["T"] and facts.by_did.get(r_.get("did")) is not None:
            bodies_v.append(facts.by_did[r_["did"]])
    for vb in bodies_v:
        for blk in vb.blocks:
            for s in blk["stmts"]:
                if s["k"] == "assign" and s["rv"]["k"] == "cast" and "fn" in s["rv"]["op"]:
                    fns.append(s["rv"]["op"]["fn"])
    if len(fns) == 1 and fns[0].get("args") == ["T"] and fns[0].get("local"):
        db = facts.by_did.get((fns[0].get("res") or fns[0]).get("did") or fns[0].get("did"))
        ok5 = False
        if db is not None:
            for _, t in db.calls():
                fn = callee(t)
                if fn and (fn.get("res") or fn)["path"] == "alloc::boxed::Box::<T>::from_raw" and "Owned<T>" in (fn.get("args") or [""])[0]:
                    ok5 = True
        if ok5:
            res.ok(key + "|dropfn", b.loc(), "stored drop fn %s re-boxes Owned<T> at the same T" % fns[0]["full"])
        else:
            res.bad(key + "|dropfn", b.loc(), "stored drop fn does not re-box Owned<T>")
    else:
        res.bad(key + "|dropfn", b.loc(), "expected exactly one stored fn pointer instantiated at T, found %s" % [f.get("full") for f in fns])
    raw_block_then_user_code(res, facts)
    return res


def raw_block_then_user_code(res, facts):
    """Every function of the crate that leaks a freshly boxed control block into a raw pointer (`Box::into_raw(Box::new(Owned { .. }))`) and
    afterwards runs user code (an unresolved trait method of a type parameter, a closure handed in by the caller) must have built the
    handle that owns the block before, and the user call's unwind edge must drop that handle: otherwise a panic in the user code leaks
    the block and the owner inside it (C03: released exactly once, nothing is leaked; C17: a panicking impl cannot make the crate leak).
    `from_owner` is the instance on the tree; a constructor added later (`from_owner_with(owner, view)`) is held to the same rule."""
    from .r_a2 import all_control_blocks, ty_head
    cbs = all_control_blocks(facts)
    handles = roles.handle_types(facts)
    n = 0
    for b in facts.fn_bodies():
        if facts.is_test(b) or b.kind == "closure":
            continue
        raws = []
        for bi, t in b.calls():
            fn = callee(t)
            if fn and (fn.get("res") or fn)["path"] == "alloc::boxed::Box::<T>::into_raw" and ty_head((fn.get("args") or [""])[0]) in cbs and not b.blocks[bi]["cleanup"]:
                raws.append(bi)
        if not raws:
            continue
        # user code reached through a crate helper that is handed the raw block (`owned.as_slice()`): judged with the helpers spliced in
        def has_user(body):
            return any(callee(t_) is not None and (("res" in callee(t_) and callee(t_)["res"] is None) or callee(t_)["name"] in ("call_once", "call_mut"))
                       for bi_, t_ in body.calls() if not body.blocks[bi_]["cleanup"])
        if not has_user(b):
            from .inline import views
            for ib in views(facts, b):
                if has_user(ib):
                    b = ib
                    raws = [bi for bi, t in b.calls() if callee(t) and (callee(t).get("res") or callee(t))["path"] == "alloc::boxed::Box::<T>::into_raw"
                            and ty_head((callee(t).get("args") or [""])[0]) in cbs and not b.blocks[bi]["cleanup"]]
                    break
        cfg = cfg_of(b)
        eb = ExprBuilder(b, facts, inline=False)
        users = []
        for bi, t in b.calls():
            if b.blocks[bi]["cleanup"]:
                continue
            fn = callee(t)
            if fn is None:
                continue
            unresolved = "res" in fn and fn["res"] is None
            closure_call = fn["name"] in ("call_once", "call_mut", "call") and "core::ops::function" in fn.get("path", "")
            if (unresolved or closure_call) and any(cfg.reaches(r_, bi) for r_ in raws):
                users.append((bi, t, fn))
        if not users:
            continue
        hs = []
        for bi, blk in enumerate(b.blocks):
            for si, s_ in enumerate(blk["stmts"]):
                if s_["k"] == "assign" and s_["rv"]["k"] == "agg" and s_["rv"].get("adt") in handles:
                    f = dict(zip(s_["rv"]["fields"], s_["rv"]["ops"]))
                    data = eb.operand(f["data"], (bi, si)) if "data" in f else None
                    if data is not None and any(x[0] == "call" and x[1] == "alloc::boxed::Box::<T>::into_raw" for x in walk(data)):
                        hs.append((bi, si, s_["pl"]["l"]))
        for (ubi, t, fn) in users:
            n += 1
            key = "%s|user code after the raw block (%s)" % (b.id, fn["name"])
            loc = (ubi, len(b.blocks[ubi]["stmts"]))
            owners = [h for h in hs if cfg.loc_dominates((h[0], h[1]), loc)]
            if not owners:
                res.bad(key, b.loc(ubi), "%s runs while the control block exists only as a raw pointer: if it panics, the block and the owner inside it are leaked "
                                         "(build the handle first, as from_owner does)" % fn["name"])
                continue
            u = t.get("unwind")
            dropped = False
            if isinstance(u, int):
                seen, st = set(), [u]
                while st:
                    x = st.pop()
                    if x in seen:
                        continue
                    seen.add(x)
                    tt = b.blocks[x]["term"]
                    if tt["k"] == "drop" and tt["ty"] in handles and tt["pl"]["l"] in [h[2] for h in owners]:
                        dropped = True
                    if isinstance(tt.get("target"), int):
                        st.append(tt["target"])
                    if tt["k"] == "switch":
                        st.extend(x_[1] for x_ in tt["targets"])
                        st.append(tt["otherwise"])
            if dropped:
                res.ok(key, b.loc(ubi), "the handle that owns the block exists and is dropped on the unwind edge", nontrivial=True)
            else:
                res.bad(key, b.loc(ubi), "a panic in %s does not unwind into the Drop of the handle that owns the block" % fn["name"])
    res.floor("user calls after a raw control block", n, 1)
